(** Fingerprints and isomorphism of the reachable function graph.

    [fingerprint_deterministic_lemma]: isomorphic reachable parts give equal fingerprints (any two graphs, any fuel, any
    unreachable rest).  [fingerprint_sensitive_lemma]: equal fingerprints give isomorphic reachable parts -- references
    to functions in progress and to finished functions carry the ordinal of the function referred to, so the two walks
    can be paired request by request. *)
From Coq Require Import Arith Wf_nat.
From Dawn Require Import Fingerprint.Model Fingerprint.Proofs.

(** ** what one step of [walk] does with the first mention *)
Inductive head (g : graph) (s : st) (f : N) : nat -> tree -> st -> Prop :=
| h_unknown fuel : lookup f g = None -> head g s f fuel TUnknown s
| h_ref fuel fd : lookup f g = Some fd -> mem f (finished s) = true -> head g s f fuel (TRef (f_name fd) (ordinal f (asked s))) s
| h_rec fuel fd : lookup f g = Some fd -> mem f (finished s) = false -> mem f (asked s) = true ->
                  head g s f fuel (TRec (f_name fd) (ordinal f (asked s))) s
| h_fun fuel fd ch s1 : lookup f g = Some fd -> mem f (finished s) = false -> mem f (asked s) = false ->
                  walk fuel g (mkSt (f :: asked s) (finished s)) (f_mentions fd) = Done ch s1 ->
                  head g s f (S fuel) (TFun (f_name fd) (f_code fd) ch) (mkSt (asked s1) (f :: finished s1)).

Lemma walk_cons_inv fuel g s f rest ts s' :
  walk fuel g s (f :: rest) = Done ts s' ->
  exists t ts0 m, ts = t :: ts0 /\ head g s f fuel t m /\ walk fuel g m rest = Done ts0 s'.
Proof.
  rewrite walk_cons. unfold cont. intros H.
  destruct (lookup f g) as [fd|] eqn:Hl.
  - destruct (mem f (finished s)) eqn:Hf.
    { destruct (walk fuel g s rest) as [ts0 s0|] eqn:E; [|discriminate]. inversion H; subst.
      exists (TRef (f_name fd) (ordinal f (asked s))), ts0, s. repeat split; [econstructor; eassumption|exact E]. }
    destruct (mem f (asked s)) eqn:Ha.
    { destruct (walk fuel g s rest) as [ts0 s0|] eqn:E; [|discriminate]. inversion H; subst.
      exists (TRec (f_name fd) (ordinal f (asked s))), ts0, s. repeat split; [econstructor; eassumption|exact E]. }
    destruct fuel as [|fuel]; [discriminate|].
    destruct (walk fuel g (mkSt (f :: asked s) (finished s)) (f_mentions fd)) as [ch s1|] eqn:Ech; [|discriminate].
    destruct (walk (S fuel) g (mkSt (asked s1) (f :: finished s1)) rest) as [ts0 s0|] eqn:E; [|discriminate].
    inversion H; subst.
    exists (TFun (f_name fd) (f_code fd) ch), ts0, (mkSt (asked s1) (f :: finished s1)).
    repeat split; [econstructor; eassumption|exact E].
  - destruct (walk fuel g s rest) as [ts0 s0|] eqn:E; [|discriminate]. inversion H; subst.
    exists TUnknown, ts0, s. repeat split; [constructor; exact Hl|exact E].
Qed.

Lemma walk_nil fuel g s : walk fuel g s [] = Done [] s.
Proof. destruct fuel; reflexivity. Qed.

(** ** isomorphism of the reachable parts of two rooted function graphs *)

(** what [R]-related nodes must agree on: both outside their graph, or both functions with the same name, the same code
    identity and pairwise related mentions, in order *)
Definition agree (g1 g2 : graph) (R : N -> N -> Prop) (x y : N) : Prop :=
  match lookup x g1, lookup y g2 with
  | Some a, Some b => f_name a = f_name b /\ f_code a = f_code b /\ Forall2 R (f_mentions a) (f_mentions b)
  | None, None => True
  | _, _ => False
  end.

Record iso (g1 g2 : graph) (r1 r2 : N) (R : N -> N -> Prop) : Prop := {
  iso_roots : R r1 r2;
  iso_agree : forall x y, R x y -> agree g1 g2 R x y;
  iso_fun : forall x y y', R x y -> R x y' -> lookup x g1 <> None -> y = y';
  iso_inj : forall x x' y, R x y -> R x' y -> lookup y g2 <> None -> x = x'
}.

(** an isomorphism relates every reachable function of the first graph to a reachable one of the second *)
Lemma iso_total g1 g2 r1 r2 R : iso g1 g2 r1 r2 R ->
  forall x, reach g1 r1 x -> exists y, R x y /\ reach g2 r2 y.
Proof.
  intros [Hr Ha _ _] x Hx. induction Hx as [Hne|x fd m Hx IH Hl Hm Hmg].
  - exists r2. split; [exact Hr|]. constructor. specialize (Ha _ _ Hr). unfold agree in Ha.
    destruct (lookup r1 g1); [|contradiction]. destruct (lookup r2 g2); [discriminate|contradiction].
  - destruct IH as (y & Hxy & Hy). pose proof (Ha _ _ Hxy) as A. unfold agree in A. rewrite Hl in A.
    destruct (lookup y g2) as [fd'|] eqn:Hl'; [|contradiction]. destruct A as (_ & _ & F).
    assert (Hex : exists m', In m' (f_mentions fd') /\ R m m').
    { clear -F Hm. induction F as [|a b la lb Hab F IH]; [destruct Hm|].
      destruct Hm as [<-|Hm]; [exists b; split; [left; reflexivity|exact Hab]|].
      destruct (IH Hm) as (m' & Hin & HR). exists m'. split; [right; exact Hin|exact HR]. }
    destruct Hex as (m' & Hin & HR). exists m'. split; [exact HR|].
    apply (reach_step g2 r2 y fd' m' Hy Hl' Hin).
    specialize (Ha _ _ HR). unfold agree in Ha.
    destruct (lookup m g1); [|contradiction]. destruct (lookup m' g2); [discriminate|contradiction].
Qed.

(** ** determinism: isomorphic reachable parts give equal fingerprints *)
Section Det.
  Variables g1 g2 : graph.
  Variable R : N -> N -> Prop.
  Hypothesis R_agree : forall x y, R x y -> agree g1 g2 R x y.
  Hypothesis R_fun : forall x y y', R x y -> R x y' -> lookup x g1 <> None -> y = y'.
  Hypothesis R_inj : forall x x' y, R x y -> R x' y -> lookup y g2 <> None -> x = x'.

  Definition resolvable (g : graph) (l : list N) : Prop := forall x, In x l -> lookup x g <> None.

  Record srel (s1 s2 : st) : Prop := {
    sr_asked : Forall2 R (asked s1) (asked s2);
    sr_fin : Forall2 R (finished s1) (finished s2);
    sr_ra : resolvable g1 (asked s1);
    sr_rf : resolvable g1 (finished s1)
  }.

  Lemma R_res x y : R x y -> lookup x g1 <> None -> lookup y g2 <> None.
  Proof.
    intros H Hx. apply R_agree in H. unfold agree in H.
    destruct (lookup x g1); [|contradiction]. destruct (lookup y g2); [discriminate|contradiction].
  Qed.

  Lemma mem_agree f f' l1 l2 :
    R f f' -> lookup f g1 <> None -> Forall2 R l1 l2 -> resolvable g1 l1 -> mem f l1 = mem f' l2.
  Proof.
    intros Hff Hres F. induction F as [|a b la lb Hab F IH]; intros Hl; [reflexivity|].
    rewrite !mem_cons. rewrite IH by (intros x Hx; apply Hl; right; exact Hx). f_equal.
    assert (Ha : lookup a g1 <> None) by (apply Hl; left; reflexivity).
    destruct (N.eqb_spec f a) as [->|Hne].
    - rewrite (R_fun _ _ _ Hff Hab Hres). symmetry. apply N.eqb_refl.
    - destruct (N.eqb_spec f' b) as [->|Hne']; [|reflexivity].
      exfalso. apply Hne. apply (R_inj _ _ _ Hff Hab). apply (R_res _ _ Hab Ha).
  Qed.

  Lemma ordinal_agree f f' l1 l2 :
    R f f' -> lookup f g1 <> None -> Forall2 R l1 l2 -> resolvable g1 l1 -> ordinal f l1 = ordinal f' l2.
  Proof.
    intros Hff Hres F. induction F as [|a b la lb Hab F IH]; intros Hl; [reflexivity|].
    cbn [ordinal]. rewrite IH by (intros x Hx; apply Hl; right; exact Hx).
    assert (EL : length la = length lb) by (clear -F; induction F; simpl; congruence). rewrite EL.
    assert (Ha : lookup a g1 <> None) by (apply Hl; left; reflexivity).
    destruct (N.eqb_spec f a) as [->|Hne].
    - rewrite (R_fun _ _ _ Hff Hab Hres), N.eqb_refl. reflexivity.
    - destruct (N.eqb_spec f' b) as [->|Hne']; [|reflexivity].
      exfalso. apply Hne. apply (R_inj _ _ _ Hff Hab). apply (R_res _ _ Hab Ha).
  Qed.

  Lemma det fuel1 : forall fuel2 fs1 fs2 s1 s2 ts1 s1' ts2 s2',
    walk fuel1 g1 s1 fs1 = Done ts1 s1' -> walk fuel2 g2 s2 fs2 = Done ts2 s2' ->
    srel s1 s2 -> Forall2 R fs1 fs2 -> ts1 = ts2 /\ srel s1' s2'.
  Proof.
    induction fuel1 as [fuel1 IHf] using lt_wf_ind.
    intros fuel2 fs1. induction fs1 as [|f r1 IHr]; intros fs2 s1 s2 ts1 s1' ts2 s2' H1 H2 Hs F.
    - inversion F; subst. rewrite walk_nil in H1, H2. inversion H1; inversion H2; subst. split; [reflexivity|exact Hs].
    - inversion F as [|? f' ? r2 Hff Fr]; subst.
      apply walk_cons_inv in H1. destruct H1 as (t1 & ta & m1 & -> & Hh1 & Hw1).
      apply walk_cons_inv in H2. destruct H2 as (t2 & tb & m2 & -> & Hh2 & Hw2).
      assert (Hstep : t1 = t2 /\ srel m1 m2).
      { pose proof (R_agree _ _ Hff) as A. unfold agree in A.
        destruct Hs as [Sa Sf Ra Rf].
        destruct Hh1 as [fu1 L1|fu1 fd1 L1 F1|fu1 fd1 L1 F1 A1|fu1 fd1 ch1 sb1 L1 F1 A1 W1];
          rewrite L1 in A.
        - destruct Hh2 as [fu2 L2|fu2 fd2 L2 F2|fu2 fd2 L2 F2 A2|fu2 fd2 ch2 sb2 L2 F2 A2 W2];
            rewrite L2 in A; try contradiction.
          split; [reflexivity|constructor; assumption].
        - assert (Hres : lookup f g1 <> None) by congruence.
          pose proof (mem_agree f f' _ _ Hff Hres Sf Rf) as Ef.
          destruct Hh2 as [fu2 L2|fu2 fd2 L2 F2|fu2 fd2 L2 F2 A2|fu2 fd2 ch2 sb2 L2 F2 A2 W2];
            rewrite L2 in A; try contradiction; try congruence.
          destruct A as (En & _). rewrite En, (ordinal_agree f f' _ _ Hff Hres Sa Ra).
          split; [reflexivity|constructor; assumption].
        - assert (Hres : lookup f g1 <> None) by congruence.
          pose proof (mem_agree f f' _ _ Hff Hres Sf Rf) as Ef.
          pose proof (mem_agree f f' _ _ Hff Hres Sa Ra) as Ea.
          destruct Hh2 as [fu2 L2|fu2 fd2 L2 F2|fu2 fd2 L2 F2 A2|fu2 fd2 ch2 sb2 L2 F2 A2 W2];
            rewrite L2 in A; try contradiction; try congruence.
          destruct A as (En & _). rewrite En, (ordinal_agree f f' _ _ Hff Hres Sa Ra).
          split; [reflexivity|constructor; assumption].
        - assert (Hres : lookup f g1 <> None) by congruence.
          pose proof (mem_agree f f' _ _ Hff Hres Sf Rf) as Ef.
          pose proof (mem_agree f f' _ _ Hff Hres Sa Ra) as Ea.
          destruct Hh2 as [fu2 L2|fu2 fd2 L2 F2|fu2 fd2 L2 F2 A2|fu2 fd2 ch2 sb2 L2 F2 A2 W2];
            rewrite L2 in A; try contradiction; try congruence.
          destruct A as (En & Ec & Fm).
          assert (Hs0 : srel (mkSt (f :: asked s1) (finished s1)) (mkSt (f' :: asked s2) (finished s2))).
          { constructor; cbn [asked finished]; try assumption.
            - constructor; assumption.
            - intros x [<-|Hx]; [exact Hres|apply Ra, Hx]. }
          destruct (IHf fu1 (Nat.lt_succ_diag_r fu1) fu2 _ _ _ _ _ _ _ _ W1 W2 Hs0 Fm) as (Ech & [Sa' Sf' Ra' Rf']).
          cbn [asked finished] in *.
          rewrite En, Ec, Ech. split; [reflexivity|].
          constructor; cbn [asked finished]; try assumption.
          + constructor; assumption.
          + intros x [<-|Hx]; [exact Hres|apply Rf', Hx]. }
      destruct Hstep as (-> & Hm).
      destruct (IHr _ _ _ _ _ _ _ Hw1 Hw2 Hm Fr) as (-> & Hs'). split; [reflexivity|exact Hs'].
  Qed.
End Det.

Lemma fingerprint_deterministic_lemma g1 r1 g2 r2 R :
  iso g1 g2 r1 r2 R ->
  exists ts s1 s2, fingerprint g1 r1 = Done ts s1 /\ fingerprint g2 r2 = Done ts s2.
Proof.
  intros [Hr Ha Hf Hi].
  destruct (fingerprint_terminates g1 r1) as (ts1 & s1 & E1).
  destruct (fingerprint_terminates g2 r2) as (ts2 & s2 & E2).
  exists ts1, s1, s2. split; [exact E1|].
  unfold fingerprint in *.
  assert (Hs : srel g1 R (mkSt [] []) (mkSt [] [])).
  { constructor; cbn [asked finished]; try constructor; intros x []. }
  destruct (det g1 g2 R Ha Hf Hi _ _ _ _ _ _ _ _ _ _ E1 E2 Hs (Forall2_cons _ _ Hr (Forall2_nil _))) as (-> & _).
  exact E2.
Qed.

(** ** sensitivity: equal fingerprints give isomorphic reachable parts (when names identify functions) *)
Lemma combine_app_eq {A B} (n1 a1 : list A) (n2 a2 : list B) :
  length n1 = length n2 -> combine (n1 ++ a1) (n2 ++ a2) = combine n1 n2 ++ combine a1 a2.
Proof.
  revert n2. induction n1 as [|x n1 IH]; intros [|y n2] H; try discriminate; [reflexivity|].
  cbn. f_equal. apply IH. inversion H; reflexivity.
Qed.

Lemma in_combine_ex_l {A B} (l1 : list A) (l2 : list B) x :
  length l1 = length l2 -> In x l1 -> exists y, In (x, y) (combine l1 l2).
Proof.
  revert l2. induction l1 as [|a l1 IH]; intros [|b l2] H Hx; try discriminate; [destruct Hx|].
  destruct Hx as [<-|Hx]; [exists b; left; reflexivity|].
  destruct (IH l2 (eq_add_S _ _ H) Hx) as (y & Hy). exists y. right; exact Hy.
Qed.

Lemma in_combine_ex_r {A B} (l1 : list A) (l2 : list B) y :
  length l1 = length l2 -> In y l2 -> exists x, In (x, y) (combine l1 l2).
Proof.
  revert l2. induction l1 as [|a l1 IH]; intros [|b l2] H Hy; try discriminate; [destruct Hy|].
  destruct Hy as [<-|Hy]; [exists a; left; reflexivity|].
  destruct (IH l2 (eq_add_S _ _ H) Hy) as (x & Hx). exists x. right; exact Hx.
Qed.

Lemma combine_NoDup_r {A B} (l1 : list A) (l2 : list B) x x' y :
  NoDup l2 -> In (x, y) (combine l1 l2) -> In (x', y) (combine l1 l2) -> x = x'.
Proof.
  revert l2. induction l1 as [|a l1 IH]; intros [|b l2] Hnd H H'; try destruct H.
  - inversion H; subst. destruct H' as [H'|H']; [inversion H'; reflexivity|].
    apply in_combine_r in H'. inversion Hnd; contradiction.
  - destruct H' as [H'|H'].
    + inversion H'; subst. apply in_combine_r in H. inversion Hnd; contradiction.
    + inversion Hnd; subst. apply (IH l2); assumption.
Qed.

Lemma combine_NoDup_l {A B} (l1 : list A) (l2 : list B) x y y' :
  NoDup l1 -> In (x, y) (combine l1 l2) -> In (x, y') (combine l1 l2) -> y = y'.
Proof.
  revert l2. induction l1 as [|a l1 IH]; intros [|b l2] Hnd H H'; try destruct H.
  - inversion H; subst. destruct H' as [H'|H']; [inversion H'; reflexivity|].
    apply in_combine_l in H'. inversion Hnd; contradiction.
  - destruct H' as [H'|H'].
    + inversion H'; subst. apply in_combine_l in H. inversion Hnd; contradiction.
    + inversion Hnd; subst. apply (IH l2); assumption.
Qed.

Lemma ordinal_lt f l : In f l -> (N.to_nat (ordinal f l) < length l)%nat.
Proof.
  induction l as [|a l IH]; intros H; [destruct H|]. cbn [ordinal length].
  destruct (N.eqb_spec f a) as [->|Hne]; [rewrite Nat2N.id; lia|].
  destruct H as [->|H]; [contradiction|]. specialize (IH H). lia.
Qed.

Lemma ordinal_pair (l1 l2 : list N) f f' :
  length l1 = length l2 -> In f l1 -> In f' l2 -> ordinal f l1 = ordinal f' l2 -> In (f, f') (combine l1 l2).
Proof.
  revert l2. induction l1 as [|a l1 IH]; intros [|b l2] Hlen H H' E; try discriminate; [destruct H|].
  cbn [ordinal] in E. cbn [combine]. cbn [length] in Hlen. apply eq_add_S in Hlen.
  destruct (N.eqb_spec f a) as [->|Hne], (N.eqb_spec f' b) as [->|Hne'].
  - left; reflexivity.
  - exfalso. destruct H' as [->|H']; [contradiction|]. pose proof (ordinal_lt f' l2 H') as L.
    rewrite <- E, Nat2N.id in L. lia.
  - exfalso. destruct H as [->|H]; [contradiction|]. pose proof (ordinal_lt f l1 H) as L.
    rewrite E, Nat2N.id in L. lia.
  - right. destruct H as [->|H]; [contradiction|]. destruct H' as [->|H']; [contradiction|]. apply IH; assumption.
Qed.

Section Sens.
  Variables g1 g2 : graph.
  Variables D1 D2 : N -> Prop.
  Hypothesis D1_closed : forall x fd m, D1 x -> lookup x g1 = Some fd -> In m (f_mentions fd) -> lookup m g1 <> None -> D1 m.
  Hypothesis D2_closed : forall x fd m, D2 x -> lookup x g2 = Some fd -> In m (f_mentions fd) -> lookup m g2 <> None -> D2 m.

  Definition pairs (s1 s2 : st) := combine (asked s1) (asked s2).
  Definition fpairs (s1 s2 : st) := combine (finished s1) (finished s2).
  Definition Rel (s1 s2 : st) (x y : N) : Prop :=
    In (x, y) (pairs s1 s2) \/ (lookup x g1 = None /\ lookup y g2 = None).

  Record inv (s1 s2 : st) : Prop := {
    i_len : length (asked s1) = length (asked s2);
    i_flen : length (finished s1) = length (finished s2);
    i_fa : forall p, In p (fpairs s1 s2) -> In p (pairs s1 s2);
    i_D : forall x y, In (x, y) (pairs s1 s2) -> D1 x /\ D2 y;
    i_nd1 : NoDup (asked s1);
    i_nd2 : NoDup (asked s2)
  }.

  Definition Good (s1 s2 : st) : Prop :=
    forall x y, In (x, y) (fpairs s1 s2) ->
      exists a b, lookup x g1 = Some a /\ lookup y g2 = Some b /\
                  f_name a = f_name b /\ f_code a = f_code b /\ Forall2 (Rel s1 s2) (f_mentions a) (f_mentions b).

  Definition ext (s1 s2 s1' s2' : st) : Prop :=
    exists n1 n2 m1 m2,
      asked s1' = n1 ++ asked s1 /\ asked s2' = n2 ++ asked s2 /\ length n1 = length n2 /\
      finished s1' = m1 ++ finished s1 /\ finished s2' = m2 ++ finished s2 /\ length m1 = length m2.

  Lemma ext_refl s1 s2 : ext s1 s2 s1 s2.
  Proof. exists [], [], [], []. repeat split. Qed.

  Lemma ext_trans a1 a2 b1 b2 c1 c2 : ext a1 a2 b1 b2 -> ext b1 b2 c1 c2 -> ext a1 a2 c1 c2.
  Proof.
    intros (n1 & n2 & m1 & m2 & E1 & E2 & L & E3 & E4 & L') (n1' & n2' & m1' & m2' & E1' & E2' & K & E3' & E4' & K').
    exists (n1' ++ n1), (n2' ++ n2), (m1' ++ m1), (m2' ++ m2).
    rewrite E1', E2', E3', E4', E1, E2, E3, E4, !app_assoc, !app_length. repeat split; lia.
  Qed.

  Lemma ext_pairs s1 s2 s1' s2' : ext s1 s2 s1' s2' -> forall p, In p (pairs s1 s2) -> In p (pairs s1' s2').
  Proof.
    intros (n1 & n2 & m1 & m2 & E1 & E2 & L & _) p Hp. unfold pairs in *. rewrite E1, E2, combine_app_eq by exact L.
    apply in_or_app. right; exact Hp.
  Qed.

  Lemma ext_fpairs s1 s2 s1' s2' : ext s1 s2 s1' s2' -> forall p, In p (fpairs s1 s2) -> In p (fpairs s1' s2').
  Proof.
    intros (n1 & n2 & m1 & m2 & _ & _ & _ & E1 & E2 & L) p Hp. unfold fpairs in *. rewrite E1, E2, combine_app_eq by exact L.
    apply in_or_app. right; exact Hp.
  Qed.

  Lemma Rel_mono s1 s2 s1' s2' : ext s1 s2 s1' s2' -> forall x y, Rel s1 s2 x y -> Rel s1' s2' x y.
  Proof. intros E x y [H|H]; [left; apply (ext_pairs _ _ _ _ E), H|right; exact H]. Qed.

  Lemma Forall2_mono {A B} (P Q : A -> B -> Prop) l1 l2 :
    (forall x y, P x y -> Q x y) -> Forall2 P l1 l2 -> Forall2 Q l1 l2.
  Proof. intros H F. induction F; constructor; auto. Qed.

  Record post (s1 s2 : st) (fs1 fs2 : list N) (s1' s2' : st) : Prop := {
    p_inv : inv s1' s2';
    p_ext : ext s1 s2 s1' s2';
    p_rel : Forall2 (Rel s1' s2') fs1 fs2;
    p_good : Good s1 s2 -> Good s1' s2';
    p_new : forall p, In p (pairs s1' s2') -> In p (pairs s1 s2) \/ In p (fpairs s1' s2')
  }.

  Lemma post_cons s1 s2 m1 m2 f f' r1 r2 s1' s2' :
    ext s1 s2 m1 m2 -> Rel m1 m2 f f' -> (Good s1 s2 -> Good m1 m2) ->
    (forall p, In p (pairs m1 m2) -> In p (pairs s1 s2) \/ In p (fpairs m1 m2)) ->
    post m1 m2 r1 r2 s1' s2' -> post s1 s2 (f :: r1) (f' :: r2) s1' s2'.
  Proof.
    intros E Hr Hg Hn [P1 P2 P3 P4 P5]. constructor.
    - exact P1.
    - apply (ext_trans _ _ _ _ _ _ E P2).
    - constructor; [apply (Rel_mono _ _ _ _ P2), Hr|exact P3].
    - intros G. apply P4, Hg, G.
    - intros p Hp. destruct (P5 p Hp) as [H|H]; [|right; exact H].
      destruct (Hn p H) as [H'|H']; [left; exact H'|right; apply (ext_fpairs _ _ _ _ P2), H'].
  Qed.

  Definition inD (D : N -> Prop) (g : graph) (fs : list N) : Prop := forall x, In x fs -> lookup x g <> None -> D x.

  (** two functions asked about at the same position of the two walks are paired *)
  Lemma partner s1 s2 f f' :
    inv s1 s2 -> In f (asked s1) -> In f' (asked s2) -> ordinal f (asked s1) = ordinal f' (asked s2) ->
    In (f, f') (pairs s1 s2).
  Proof. intros I H H' E. exact (ordinal_pair _ _ f f' (i_len _ _ I) H H' E). Qed.

  Lemma fin_asked s1 s2 f f' :
    inv s1 s2 -> In f (finished s1) -> In f' (finished s2) -> In f (asked s1) /\ In f' (asked s2).
  Proof.
    intros I H H'. split.
    - destruct (in_combine_ex_l _ _ f (i_flen _ _ I) H) as (y & Hy). apply (i_fa _ _ I) in Hy.
      exact (in_combine_l _ _ _ _ Hy).
    - destruct (in_combine_ex_r _ _ f' (i_flen _ _ I) H') as (x & Hx). apply (i_fa _ _ I) in Hx.
      exact (in_combine_r _ _ _ _ Hx).
  Qed.

  Ltac split5 := split; [|split; [|split; [|split]]].

  Lemma sync fuel1 : forall fuel2 fs1 fs2 s1 s2 ts s1' s2',
    walk fuel1 g1 s1 fs1 = Done ts s1' -> walk fuel2 g2 s2 fs2 = Done ts s2' ->
    inv s1 s2 -> inD D1 g1 fs1 -> inD D2 g2 fs2 -> post s1 s2 fs1 fs2 s1' s2'.
  Proof.
    induction fuel1 as [fuel1 IHf] using lt_wf_ind.
    intros fuel2 fs1. induction fs1 as [|f r1 IHr]; intros fs2 s1 s2 ts s1' s2' H1 H2 I Hd1 Hd2.
    - rewrite walk_nil in H1. inversion H1; subst.
      destruct fs2 as [|f' r2].
      + rewrite walk_nil in H2. inversion H2; subst.
        constructor; [exact I|apply ext_refl|constructor|auto|auto].
      + apply walk_cons_inv in H2. destruct H2 as (t & tb & m & E & _). discriminate.
    - apply walk_cons_inv in H1. destruct H1 as (t1 & ta & m1 & -> & Hh1 & Hw1).
      destruct fs2 as [|f' r2]; [rewrite walk_nil in H2; discriminate|].
      apply walk_cons_inv in H2. destruct H2 as (t2 & tb & m2 & E & Hh2 & Hw2).
      inversion E; subst t2 tb. clear E.
      assert (Hd1r : inD D1 g1 r1) by (intros x Hx; apply Hd1; right; exact Hx).
      assert (Hd2r : inD D2 g2 r2) by (intros x Hx; apply Hd2; right; exact Hx).
      assert (Hstep : inv m1 m2 /\ ext s1 s2 m1 m2 /\ Rel m1 m2 f f' /\ (Good s1 s2 -> Good m1 m2) /\
                      (forall p, In p (pairs m1 m2) -> In p (pairs s1 s2) \/ In p (fpairs m1 m2))).
      { destruct Hh1 as [fu1 L1|fu1 fd1 L1 F1|fu1 fd1 L1 F1 A1|fu1 fd1 ch1 sb1 L1 F1 A1 W1].
        - (* both outside *)
          inversion Hh2 as [fu2 L2 Et|fu2 fd2 L2 F2 Et|fu2 fd2 L2 F2 A2 Et|fu2 fd2 ch2 sb2 L2 F2 A2 W2 Ef Et]; subst.
          split5; [exact I|apply ext_refl|right; split; assumption|auto|auto].
        - (* both memo references *)
          inversion Hh2 as [fu2 L2 Et|fu2 fd2 L2 F2 Et|fu2 fd2 L2 F2 A2 Et|fu2 fd2 ch2 sb2 L2 F2 A2 W2 Ef Et]; subst.
          split5; [exact I|apply ext_refl| |auto|auto].
          apply mem_In in F1. apply mem_In in F2. destruct (fin_asked _ _ f f' I F1 F2) as (Q1 & Q2).
          left. apply (partner _ _ f f' I Q1 Q2). congruence.
        - (* both placeholders *)
          inversion Hh2 as [fu2 L2 Et|fu2 fd2 L2 F2 Et|fu2 fd2 L2 F2 A2 Et|fu2 fd2 ch2 sb2 L2 F2 A2 W2 Ef Et]; subst.
          split5; [exact I|apply ext_refl| |auto|auto].
          apply mem_In in A1. apply mem_In in A2.
          left. apply (partner _ _ f f' I A1 A2). congruence.
        - (* both expanded *)
          inversion Hh2 as [fu2 L2 Et|fu2 fd2 L2 F2 Et|fu2 fd2 L2 F2 A2 Et|fu2 fd2 ch2 sb2 L2 F2 A2 W2 Ef Et]; subst.
          assert (En : f_name fd1 = f_name fd2) by congruence. assert (Ec : f_code fd1 = f_code fd2) by congruence.
          assert (Df : D1 f) by (apply Hd1; [left; reflexivity|congruence]).
          assert (Df' : D2 f') by (apply Hd2; [left; reflexivity|congruence]).
          set (sa1 := mkSt (f :: asked s1) (finished s1)) in *.
          set (sa2 := mkSt (f' :: asked s2) (finished s2)) in *.
          assert (Ia : inv sa1 sa2).
          { destruct I as [I1 I2 I3 I5 I6 I7]. constructor; unfold pairs, fpairs in *; cbn [sa1 sa2 asked finished combine] in *.
            - simpl; lia.
            - exact I2.
            - intros p Hp. right. apply I3, Hp.
            - intros x y [Hxy|Hxy]; [inversion Hxy; subst; auto|apply I5, Hxy].
            - constructor; [intros Hin; apply mem_In in Hin; congruence|exact I6].
            - constructor; [intros Hin; apply mem_In in Hin; congruence|exact I7]. }
          assert (Ea : ext s1 s2 sa1 sa2) by (exists [f], [f'], [], []; repeat split).
          assert (Hm1 : inD D1 g1 (f_mentions fd1)) by (intros x Hx Hl; apply (D1_closed f fd1 x Df L1 Hx Hl)).
          assert (Hm2 : inD D2 g2 (f_mentions fd2)) by (intros x Hx Hl; apply (D2_closed f' fd2 x Df' L2 Hx Hl)).
          destruct (IHf fu1 (Nat.lt_succ_diag_r fu1) fu2 _ _ _ _ _ _ _ W1 W2 Ia Hm1 Hm2) as [B1 B2 B3 B4 B5].
          set (sc1 := mkSt (asked sb1) (f :: finished sb1)).
          set (sc2 := mkSt (asked sb2) (f' :: finished sb2)).
          assert (Hff : In (f, f') (pairs sb1 sb2)).
          { apply (ext_pairs _ _ _ _ B2). left; reflexivity. }
          assert (Ic : inv sc1 sc2).
          { destruct B1 as [I1 I2 I3 I5 I6 I7]. constructor; unfold pairs, fpairs in *; cbn [sc1 sc2 asked finished combine] in *.
            - exact I1.
            - simpl; lia.
            - intros p [<-|Hp]; [exact Hff|apply I3, Hp].
            - exact I5.
            - exact I6.
            - exact I7. }
          assert (Ec' : ext s1 s2 sc1 sc2).
          { destruct B2 as (n1 & n2 & k1 & k2 & E1 & E2 & Ln & E3 & E4 & Lk). cbn [sa1 sa2 asked finished] in *.
            exists (n1 ++ [f]), (n2 ++ [f']), (f :: k1), (f' :: k2). cbn [sc1 sc2 asked finished].
            rewrite E1, E2, E3, E4, <- !app_assoc, !app_length. cbn. repeat split; lia. }
          split5.
          + exact Ic.
          + exact Ec'.
          + left. exact Hff.
          + intros G.
            assert (Ga : Good sa1 sa2).
            { intros x y Hxy. destruct (G x y Hxy) as (a & b & La & Lb & E1 & E2 & Fm).
              exists a, b. repeat split; auto. apply (Forall2_mono _ _ _ _ (Rel_mono _ _ _ _ Ea) Fm). }
            specialize (B4 Ga).
            intros x y [Hxy|Hxy].
            * inversion Hxy; subst. exists fd1, fd2. repeat split; auto.
            * apply (B4 x y Hxy).
          + intros p Hp. change (pairs sc1 sc2) with (pairs sb1 sb2) in Hp.
            destruct (B5 p Hp) as [[<-|Hq]|Hq].
            * right. left; reflexivity.
            * left. exact Hq.
            * right. right. exact Hq. }
      destruct Hstep as (Im & Em & Rm & Gm & Nm).
      apply (post_cons s1 s2 m1 m2 f f' r1 r2 s1' s2' Em Rm Gm Nm).
      apply (IHr _ _ _ _ _ _ Hw1 Hw2 Im Hd1r Hd2r).
  Qed.
End Sens.

Lemma fingerprint_sensitive_lemma g1 r1 g2 r2 ts s1 s2 :
  fingerprint g1 r1 = Done ts s1 -> fingerprint g2 r2 = Done ts s2 ->
  exists R, iso g1 g2 r1 r2 R /\
            (forall x y, R x y -> lookup x g1 <> None -> reach g1 r1 x /\ reach g2 r2 y).
Proof.
  intros E1 E2. unfold fingerprint in E1, E2.
  set (D1 := reach g1 r1). set (D2 := reach g2 r2).
  assert (C1 : forall x fd m, D1 x -> lookup x g1 = Some fd -> In m (f_mentions fd) -> lookup m g1 <> None -> D1 m).
  { intros x fd m Hx Hl Hm Hmg. exact (reach_step g1 r1 x fd m Hx Hl Hm Hmg). }
  assert (C2 : forall x fd m, D2 x -> lookup x g2 = Some fd -> In m (f_mentions fd) -> lookup m g2 <> None -> D2 m).
  { intros x fd m Hx Hl Hm Hmg. exact (reach_step g2 r2 x fd m Hx Hl Hm Hmg). }
  assert (I0 : inv D1 D2 (mkSt [] []) (mkSt [] [])).
  { constructor; [reflexivity|reflexivity|intros p []|intros x y []|constructor|constructor]. }
  assert (Hd1 : inD D1 g1 [r1]) by (intros x [<-|[]] Hl; constructor; exact Hl).
  assert (Hd2 : inD D2 g2 [r2]) by (intros x [<-|[]] Hl; constructor; exact Hl).
  destruct (sync g1 g2 D1 D2 C1 C2 _ _ _ _ _ _ _ _ _ E1 E2 I0 Hd1 Hd2) as [P1 P2 P3 P4 P5].
  assert (G : Good g1 g2 s1 s2) by (apply P4; intros x y []).
  assert (Hfin : forall p, In p (pairs s1 s2) -> In p (fpairs s1 s2)).
  { intros p Hp. destruct (P5 p Hp) as [[]|H]. exact H. }
  assert (Hpair : forall x y, Rel g1 g2 s1 s2 x y -> lookup x g1 <> None \/ lookup y g2 <> None -> In (x, y) (pairs s1 s2)).
  { intros x y [H|[Hx Hy]] [Hn|Hn]; try exact H; contradiction. }
  exists (Rel g1 g2 s1 s2). split; [constructor|].
  - inversion P3; subst. assumption.
  - intros x y [Hp|[Hx Hy]]; unfold agree.
    + destruct (G x y (Hfin _ Hp)) as (a & b & La & Lb & En & Ec & F). rewrite La, Lb. auto.
    + rewrite Hx, Hy. exact I.
  - intros x y y' Hy Hy' Hx.
    pose proof (Hpair _ _ Hy (or_introl Hx)) as Q. pose proof (Hpair _ _ Hy' (or_introl Hx)) as Q'.
    exact (combine_NoDup_l _ _ _ _ _ (i_nd1 _ _ _ _ P1) Q Q').
  - intros x x' y Hx Hx' Hy.
    pose proof (Hpair _ _ Hx (or_intror Hy)) as Q. pose proof (Hpair _ _ Hx' (or_intror Hy)) as Q'.
    exact (combine_NoDup_r _ _ _ _ _ (i_nd2 _ _ _ _ P1) Q Q').
  - intros x y Hxy Hx. exact (i_D _ _ _ _ P1 _ _ (Hpair _ _ Hxy (or_introl Hx))).
Qed.

(** Before the placeholder carried the ordinal (function.go before 7738be5) these two graphs had the same fingerprint:
    target 1 calls 2; 2 and 3 are two different functions that are both called 7 (two closures [h] made by two factories);
    in the first graph 3 calls back 2 (mutual recursion), in the second 3 calls itself. *)
Definition collide_g1 : graph := [(1, mkFn 10 100 [2]); (2, mkFn 7 200 [3]); (3, mkFn 7 300 [2])].
Definition collide_g2 : graph := [(1, mkFn 10 100 [2]); (2, mkFn 7 200 [3]); (3, mkFn 7 300 [3])].

(** a finite relation given as a list of pairs *)
Definition rel_of (l : list (N * N)) (x y : N) : Prop := In (x, y) l.
