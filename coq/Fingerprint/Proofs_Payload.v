(** C08: sensitivity to the payload of ONE reachable function, in the plain form of the property statement: take a
    function graph, change the code identity [f_code] of one function reachable from the target -- [f_code] stands for
    everything the function pickles except the functions it mentions: bytecode, names, constants, and every value that
    is not a function: numbers, strings, containers of them, WHICH builtin (name and receiver, function.go since
    6cdac65), WHICH range (d823318) -- and leave everything else alone: the fingerprint changes.

    Proof: the two traversals run in lockstep through the same states (control depends on names, mentions and the
    asked/finished sets only), and the number of expanded nodes carrying the new identity grows by one at the
    expansion of the edited function, which happens because the function is reachable. *)
From Coq Require Import List NArith Bool Lia Arith.
From Dawn Require Import Fingerprint.Model Fingerprint.Proofs.
Import ListNotations.
Open Scope N_scope.

Definition recode (c' : N) (fd : fn) : fn := mkFn (f_name fd) c' (f_mentions fd).

(** the graph in which function [x] has code identity [c'] and everything else is as in [g] *)
Definition set_code (g : graph) (x c' : N) : graph :=
  map (fun kv => if fst kv =? x then (fst kv, recode c' (snd kv)) else kv) g.

Lemma lookup_set_code g x c' y :
  lookup y (set_code g x c') =
  match lookup y g with Some fd => Some (if y =? x then recode c' fd else fd) | None => None end.
Proof.
  induction g as [|[k v] g IH]; [reflexivity|].
  cbn [set_code map fst snd]. destruct (k =? x) eqn:E.
  - cbn [lookup fst snd]. destruct (y =? k) eqn:E2.
    + apply N.eqb_eq in E, E2. subst. rewrite N.eqb_refl. reflexivity.
    + exact IH.
  - cbn [lookup]. destruct (y =? k) eqn:E2.
    + apply N.eqb_eq in E2. subst. rewrite E. reflexivity.
    + exact IH.
Qed.

(** number of expanded function nodes with code identity [c] *)
Definition K (c : N) (ts : list tree) : nat := count_occ N.eq_dec (map snd (nodes_l ts)) c.

Lemma K_nil c : K c [] = 0%nat.
Proof. reflexivity. Qed.

Lemma K_cons c t ts : K c (t :: ts) = (K c [t] + K c ts)%nat.
Proof.
  unfold K, nodes_l. cbn [flat_map]. rewrite app_nil_r, map_app, count_occ_app. reflexivity.
Qed.

Lemma K_TFun c n c0 ch : K c [TFun n c0 ch] = ((if N.eq_dec c0 c then 1 else 0) + K c ch)%nat.
Proof.
  unfold K at 1, nodes_l. cbn [flat_map]. rewrite app_nil_r, nodes_TFun. cbn [map snd count_occ].
  destruct (N.eq_dec c0 c); reflexivity.
Qed.

Lemma K_TRef c n o : K c [TRef n o] = 0%nat.
Proof. reflexivity. Qed.
Lemma K_TRec c n o : K c [TRec n o] = 0%nat.
Proof. reflexivity. Qed.
Lemma K_TUnknown c : K c [TUnknown] = 0%nat.
Proof. reflexivity. Qed.

Section Payload.
  Variables (g : graph) (x c' : N) (fdx : fn).
  Hypothesis Hx : lookup x g = Some fdx.
  Hypothesis Hc : c' <> f_code fdx.

  Definition post (s : st) (ts : list tree) (s1 : st) (r2 : res) : Prop :=
    exists ts2, r2 = Done ts2 s1 /\ (K c' ts <= K c' ts2)%nat /\
                (In x (asked s1) -> ~ In x (asked s) -> (K c' ts < K c' ts2)%nat).

  (** a step that emits the same token on both sides and leaves the state alone *)
  Lemma post_same fuel s rest t ts0 s1 :
    K c' [t] = 0%nat ->
    (forall ts s1, walk fuel g s rest = Done ts s1 -> post s ts s1 (walk fuel (set_code g x c') s rest)) ->
    walk fuel g s rest = Done ts0 s1 ->
    post s (t :: ts0) s1 (cont (walk fuel (set_code g x c') s rest) t).
  Proof.
    intros Kt IHr E. destruct (IHr _ _ E) as (ts2 & E2 & Hle & Hlt).
    exists (t :: ts2). rewrite E2. cbn [cont]. split; [reflexivity|].
    rewrite (K_cons c' t ts0), (K_cons c' t ts2), Kt. cbn [Nat.add]. split; assumption.
  Qed.

  Lemma lockstep fuel : forall s fs ts s1,
    walk fuel g s fs = Done ts s1 -> post s ts s1 (walk fuel (set_code g x c') s fs).
  Proof.
    induction fuel as [|fuel IHf]; intros s fs; revert s;
      induction fs as [|f rest IHr]; intros s ts s1 H.
    - cbn [walk] in H. inversion H; subst. exists []. cbn [walk]. repeat split; auto. intros; contradiction.
    - rewrite walk_cons in H. rewrite walk_cons, lookup_set_code.
      destruct (lookup f g) as [fd|] eqn:Lf.
      + assert (Nm : f_name (if f =? x then recode c' fd else fd) = f_name fd) by (destruct (f =? x); reflexivity).
        rewrite Nm.
        destruct (mem f (finished s)).
        { unfold cont in H at 1. destruct (walk 0 g s rest) as [ts0 s0|] eqn:E; [|discriminate]. inversion H; subst.
          apply post_same; [apply K_TRef|apply IHr|exact E]. }
        destruct (mem f (asked s)).
        { unfold cont in H at 1. destruct (walk 0 g s rest) as [ts0 s0|] eqn:E; [|discriminate]. inversion H; subst.
          apply post_same; [apply K_TRec|apply IHr|exact E]. }
        discriminate.
      + unfold cont in H at 1. destruct (walk 0 g s rest) as [ts0 s0|] eqn:E; [|discriminate]. inversion H; subst.
        apply post_same; [apply K_TUnknown|apply IHr|exact E].
    - cbn [walk] in H. inversion H; subst. exists []. cbn [walk]. repeat split; auto. intros; contradiction.
    - rewrite walk_cons in H. rewrite walk_cons, lookup_set_code.
      destruct (lookup f g) as [fd|] eqn:Lf.
      + assert (Nm : f_name (if f =? x then recode c' fd else fd) = f_name fd) by (destruct (f =? x); reflexivity).
        assert (Mm : f_mentions (if f =? x then recode c' fd else fd) = f_mentions fd) by (destruct (f =? x); reflexivity).
        rewrite Nm, Mm.
        destruct (mem f (finished s)).
        { unfold cont in H at 1. destruct (walk (S fuel) g s rest) as [ts0 s0|] eqn:E; [|discriminate]. inversion H; subst.
          apply post_same; [apply K_TRef|apply IHr|exact E]. }
        destruct (mem f (asked s)) eqn:Ma.
        { unfold cont in H at 1. destruct (walk (S fuel) g s rest) as [ts0 s0|] eqn:E; [|discriminate]. inversion H; subst.
          apply post_same; [apply K_TRec|apply IHr|exact E]. }
        destruct (walk fuel g (mkSt (f :: asked s) (finished s)) (f_mentions fd)) as [ch sin|] eqn:Ein; [|discriminate].
        unfold cont in H at 1.
        destruct (walk (S fuel) g (mkSt (asked sin) (f :: finished sin)) rest) as [ts0 s0|] eqn:Er; [|discriminate].
        inversion H; subst. clear H.
        destruct (IHf _ _ _ _ Ein) as (ch2 & Ein2 & Hle1 & Hlt1). rewrite Ein2.
        destruct (IHr _ _ _ Er) as (ts2 & Er2 & Hle2 & Hlt2). rewrite Er2. cbn [cont].
        cbn [asked finished] in *.
        exists (TFun (f_name fd) (f_code (if f =? x then recode c' fd else fd)) ch2 :: ts2).
        split; [reflexivity|].
        rewrite (K_cons c' _ ts0), (K_cons c' _ ts2), !K_TFun.
        destruct (f =? x) eqn:Efx.
        * (* the edited function is expanded here *)
          apply N.eqb_eq in Efx. subst f. rewrite Hx in Lf. inversion Lf; subst fd.
          cbn [recode f_code].
          destruct (N.eq_dec (f_code fdx) c') as [Q|_]; [exfalso; apply Hc; symmetry; exact Q|].
          destruct (N.eq_dec c' c') as [_|Q]; [|exfalso; apply Q; reflexivity].
          split; [lia|intros _ _; lia].
        * apply N.eqb_neq in Efx.
          destruct (N.eq_dec (f_code fd) c'); (split; [lia|]); intros Hin Hnot;
            destruct (in_dec N.eq_dec x (asked sin)) as [Hi|Hi].
          -- assert (~ In x (f :: asked s)) by (intros [Q|Q]; contradiction).
             specialize (Hlt1 Hi H). lia.
          -- specialize (Hlt2 Hin Hi). lia.
          -- assert (~ In x (f :: asked s)) by (intros [Q|Q]; contradiction).
             specialize (Hlt1 Hi H). lia.
          -- specialize (Hlt2 Hin Hi). lia.
      + unfold cont in H at 1. destruct (walk (S fuel) g s rest) as [ts0 s0|] eqn:E; [|discriminate]. inversion H; subst.
        apply post_same; [apply K_TUnknown|apply IHr|exact E].
  Qed.
End Payload.

Lemma reach_finished g f ts s :
  fingerprint g f = Done ts s -> forall x, reach g f x -> In x (asked s).
Proof.
  unfold fingerprint. intros H.
  assert (Hfa0 : subset (finished (mkSt [] [])) (asked (mkSt [] []))) by (intros x []).
  destruct (walk_winv _ _ _ _ _ _ Hfa0 H) as [[A1 A2 A3 A4 A5 A6] Hfa]. cbn [asked finished] in *.
  assert (Hcl : closed g s) by (apply A5; intros x fd []).
  assert (Hfin : forall x, In x (asked s) -> In x (finished s)).
  { intros x Hx. destruct (A3 x Hx) as [[]|Hx']. exact Hx'. }
  intros x Hr. induction Hr as [Hne|x fd m Hr IH Hl Hm Hmg].
  - apply A6; [left; reflexivity|exact Hne].
  - apply (Hcl x fd (Hfin _ IH) Hl m Hm Hmg).
Qed.

Lemma fingerprint_sensitive_to_payload_lemma g r x fd c' ts s ts' s' :
  reach g r x -> lookup x g = Some fd -> c' <> f_code fd ->
  fingerprint g r = Done ts s -> fingerprint (set_code g x c') r = Done ts' s' ->
  ts <> ts'.
Proof.
  intros Hr Hl Hc E E'.
  pose proof (reach_finished _ _ _ _ E x Hr) as Hin.
  unfold fingerprint in E, E'. unfold set_code in E' at 1. rewrite map_length in E'.
  destruct (lockstep g x c' fd Hl Hc _ _ _ _ _ E) as (ts2 & E2 & _ & Hlt).
  fold (set_code g x c') in E'. rewrite E2 in E'. inversion E'; subst.
  specialize (Hlt Hin (fun Q => Q)). intros Q. rewrite Q in Hlt. lia.
Qed.
