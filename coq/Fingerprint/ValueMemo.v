(** C08 -- the encoder's memo over the VALUES a function references (pickle/encode.go [Encoder.memoized] /
    [Encoder.memoize]), abstracted to the one decision it takes: "this value is the one written earlier -- emit a
    back-reference to it" or "write it out and file it".  A referenced value is met as a pair (memo key, content): the
    key is whatever the encoder files the value under (today: the Go value itself for comparable kinds -- a pointer for
    lists, dicts, sets, functions, builtins -- and nothing for tuples and scalars), the content is what would be written.
    The model is the sequence of such meetings in pickling order, the emitted tokens, and the reader that resolves
    back-references the way the decoder's memo (and [diffEnv] on the decoded environments) does.  No proofs here. *)
From Coq Require Import List NArith.
Import ListNotations.
Open Scope N_scope.

Definition vref := (N * N)%type.   (* (memo key, content identity) *)

Inductive vtok := VFull (c : N) | VBack (i : nat).

Fixpoint index_of (k : N) (memo : list N) : option nat :=
  match memo with
  | [] => None
  | k' :: r => if N.eqb k k' then Some O else option_map S (index_of k r)
  end.

(** the encoder: [memo] = the keys filed so far, in order (the id of a key is its position) *)
Fixpoint vemit (memo : list N) (l : list vref) : list vtok :=
  match l with
  | [] => []
  | (k, c) :: r =>
      match index_of k memo with
      | Some i => VBack i :: vemit memo r
      | None => VFull c :: vemit (memo ++ [k]) r
      end
  end.

(** the reader: [seen] = the contents read so far, in order *)
Fixpoint vread (seen : list N) (ts : list vtok) : option (list N) :=
  match ts with
  | [] => Some []
  | VFull c :: r => option_map (cons c) (vread (seen ++ [c]) r)
  | VBack i :: r =>
      match nth_error seen i with
      | Some c => option_map (cons c) (vread seen r)
      | None => None
      end
  end.

(** the key is faithful on a sequence of meetings: two values filed under the same key have the same content *)
Definition faithful (l : list vref) := forall k c c', In (k, c) l -> In (k, c') l -> c = c'.
