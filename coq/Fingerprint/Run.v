(** Correspondence cases for C08: the reified function graph of a loaded target and the token tree observed in the
    implementation's decoded fingerprint: an expanded function environment (with the label of its bytecode and, inside,
    the tokens of its parts in pickling order), a placeholder for a function in progress (with the ordinal it carries),
    or another occurrence of an already decoded function environment (with the ordinal of that function, i.e. the number
    of function environments whose expansion started before its own). *)
From Dawn Require Import Fingerprint.Model.

Inductive sk := Sk (label : N) (children : list sk) | SkRec (ord : N) | SkRef (ord : N).

Fixpoint strip (t : tree) : list sk :=
  match t with
  | TFun n _ ch => [Sk n ((fix go (l : list tree) := match l with [] => [] | x :: r => strip x ++ go r end) ch)]
  | TRec _ o => [SkRec o]
  | TRef _ o => [SkRef o]
  | TUnknown => []
  end.

Fixpoint sk_eqb (a b : sk) {struct a} : bool :=
  match a, b with
  | Sk x xs, Sk y ys =>
      (x =? y) &&
      (fix go (l l' : list sk) {struct l} : bool :=
         match l, l' with
         | [], [] => true
         | p :: r, q :: r' => sk_eqb p q && go r r'
         | _, _ => false
         end) xs ys
  | SkRec x, SkRec y => x =? y
  | SkRef x, SkRef y => x =? y
  | _, _ => false
  end.

Fixpoint sks_eqb (a b : list sk) : bool :=
  match a, b with
  | [], [] => true
  | p :: r, q :: r' => sk_eqb p q && sks_eqb r r'
  | _, _ => false
  end.

Definition fp_ok (g : graph) (root : N) (expected : list sk) : bool :=
  match fingerprint g root with
  | Done ts _ => sks_eqb (flat_map strip ts) expected
  | OutOfFuel => false
  end.

Definition fp_mismatches (cs : list (N * (graph * N * list sk))) : list N :=
  map fst (filter (fun ic => match snd ic with (g, root, e) => negb (fp_ok g root e) end) cs).
