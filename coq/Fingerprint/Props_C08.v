(** C08 — Every target function can be fingerprinted, deterministically.  Statements only.
    Model: Fingerprint/Model.v = the traversal performed by function.go's recursionPickler/envPickler under
    pickle.Encoder's memo, over the graph of *starlark.Function objects a target function can reach.  (The byte-level
    codec is C07's model; equality of fingerprints across processes and sensitivity to every value kind are decided on the
    implementation by the C08 harness: identical text loaded twice, in another file-creation order and GOMAXPROCS, and a
    menu of relevant / irrelevant edits per program.) *)
From Dawn Require Import Fingerprint.Model Fingerprint.Proofs Fingerprint.Proofs_Iso Fingerprint.Proofs_Payload.
From Dawn Require Import Fingerprint.ValueMemo Fingerprint.Proofs_ValueMemo.

(** Fingerprinting terminates -- with fuel bounded by the number of functions -- on EVERY graph: self-recursion, mutual
    recursion through any number of functions, closures referring to their makers, shared helpers. *)
Theorem fingerprint_terminates : forall g f, exists ts s, fingerprint g f = Done ts s.
Proof. exact Proofs.fingerprint_terminates. Qed.
Print Assumptions fingerprint_terminates.

(** The fingerprint contains the name and code identity of every function reachable from the target, however the
    references are arranged. *)
Theorem fingerprint_covers_reachable :
  forall g f ts s, fingerprint g f = Done ts s ->
    forall x, reach g f x -> exists fd, lookup x g = Some fd /\ In (f_name fd, f_code fd) (nodes_l ts).
Proof. exact Proofs.fingerprint_covers_reachable. Qed.
Print Assumptions fingerprint_covers_reachable.

(** Isomorphism of the parts of two function graphs reachable from their roots (Proofs_Iso.v):

      agree g1 g2 R x y :=  x is outside g1 and y is outside g2,  or  x is a function of g1 and y one of g2 with
                            f_name x = f_name y,  f_code x = f_code y  (code, constants, values, kind: everything a function
                            pickles except the functions it mentions)  and  Forall2 R (f_mentions x) (f_mentions y)
                            (the same number of mentioned functions, pairwise related, in pickling order)
      iso g1 g2 r1 r2 R :=  R r1 r2  (the roots are related)
                         /\ forall x y, R x y -> agree g1 g2 R x y
                         /\ R is one-to-one on functions (x in g1 has one partner; y in g2 has one partner)

    An isomorphism relates every function reachable from r1 to a function reachable from r2, so nothing reachable is left
    out of the comparison: *)
Theorem iso_relates_every_reachable_function :
  forall g1 g2 r1 r2 R, iso g1 g2 r1 r2 R ->
    forall x, reach g1 r1 x -> exists y, R x y /\ reach g2 r2 y.
Proof. exact Proofs_Iso.iso_total. Qed.
Print Assumptions iso_relates_every_reachable_function.

(** DETERMINISM.  If the reachable parts of two function graphs are isomorphic, both fingerprints are computed and they
    are EQUAL -- whatever the identities (addresses) of the function objects, the order in which the graphs list them,
    the number of functions (hence the fuel) and whatever else the two graphs contain outside the reachable parts.  Two
    loads of identical project text differ only in such respects.  (Renaming all identities by an injective map is the
    special case R x y := y = f x.) *)
Theorem fingerprint_deterministic :
  forall g1 r1 g2 r2 R, iso g1 g2 r1 r2 R ->
    exists ts s1 s2, fingerprint g1 r1 = Done ts s1 /\ fingerprint g2 r2 = Done ts s2.
Proof. exact Proofs_Iso.fingerprint_deterministic_lemma. Qed.
Print Assumptions fingerprint_deterministic.

(** SENSITIVITY.  If two rooted function graphs have EQUAL fingerprints, their reachable parts are isomorphic: there is
    a one-to-one relation between the functions reachable from the two roots, containing the roots, under which related
    functions have the same name, the same code identity and pairwise related mentioned functions in order.  So any
    difference in a reachable code or value, or in which function a reference denotes, shows in the fingerprint.
    No hypothesis on names: a reference to a function in progress carries the function's ordinal (function.go since
    7738be5; before that fix the statement was false, see [same_named_in_progress_example]) and a memo reference
    identifies the finished function it refers to. *)
Theorem fingerprint_sensitive :
  forall g1 r1 g2 r2 ts s1 s2,
    fingerprint g1 r1 = Done ts s1 -> fingerprint g2 r2 = Done ts s2 ->
    exists R, iso g1 g2 r1 r2 R /\
              (forall x y, R x y -> lookup x g1 <> None -> reach g1 r1 x /\ reach g2 r2 y).
Proof. exact Proofs_Iso.fingerprint_sensitive_lemma. Qed.
Print Assumptions fingerprint_sensitive.

(** SENSITIVITY TO ONE EDIT, in the words of the property: change the code identity of ONE function reachable from the
    target and nothing else ([set_code g x c'], Proofs_Payload.v) and the fingerprint is unequal.  The code identity
    [f_code] stands for everything the function pickles except the functions it mentions: bytecode, names, constants,
    default and captured values, referenced globals -- numbers, strings, containers, WHICH builtin a value is (its name and,
    for a bound method, its receiver: function.go since 6cdac65; before, every builtin was pickled alike and
    F = len -> F = str was invisible), WHICH range (d823318; before, a range was pickled as the list of its elements).
    That the implementation's pickle of such a payload is injective is decided on the real code by the value-space
    families of the harness (and, for the generic codec, by C07). *)
Theorem fingerprint_sensitive_to_payload :
  forall g r x fd c' ts s ts' s',
    reach g r x -> lookup x g = Some fd -> c' <> f_code fd ->
    fingerprint g r = Done ts s -> fingerprint (set_code g x c') r = Done ts' s' ->
    ts <> ts'.
Proof. exact Proofs_Payload.fingerprint_sensitive_to_payload_lemma. Qed.
Print Assumptions fingerprint_sensitive_to_payload.

(** The encoder's memo over the VALUES a function references (Fingerprint/ValueMemo.v): each referenced value is met as
    (memo key, content); a value whose key has been filed is emitted as a back-reference to the position of that key,
    any other is written out and filed.  [faithful]: two values filed under the same key have the same content -- true
    of the implementation's keys (the Go value itself for the comparable kinds, i.e. the pointer of a list / dict / set /
    function / builtin; tuples and scalars are not filed at all), and checked on the real code by the related-values
    family of the harness (pairs of values that share storage, are equal, or are parts of one another).
    What the reader resolves from the emission is then exactly what the function references, value by value. *)
Theorem value_memo_roundtrip : forall l, faithful l -> vread [] (vemit [] l) = Some (map snd l).
Proof. exact Proofs_ValueMemo.value_memo_roundtrip. Qed.
Print Assumptions value_memo_roundtrip.

(** ... so changing the content of any referenced value changes the emission, whatever is shared with what. *)
Theorem value_memo_sensitive :
  forall l1 l2, faithful l1 -> faithful l2 -> vemit [] l1 = vemit [] l2 -> map snd l1 = map snd l2.
Proof. exact Proofs_ValueMemo.value_memo_sensitive. Qed.
Print Assumptions value_memo_sensitive.

(** The emission depends on the keys only through which meetings have EQUAL keys: other addresses (another process,
    another load order) give the same emission. *)
Theorem value_memo_deterministic :
  forall f : N -> N, (forall a b, f a = f b -> a = b) ->
  forall l, vemit [] (map (fun kc => (f (fst kc), snd kc)) l) = vemit [] l.
Proof. exact Proofs_ValueMemo.value_memo_deterministic. Qed.
Print Assumptions value_memo_deterministic.

(** [faithful] is needed: a key that forgets part of the value -- a tuple filed under the address of its first element,
    so that T, T[:2] and T[:3] share the key -- gives one emission for different referenced values. *)
Theorem unfaithful_key_refuted : exists l1 l2, vemit [] l1 = vemit [] l2 /\ map snd l1 <> map snd l2.
Proof. exact Proofs_ValueMemo.unfaithful_key_refuted. Qed.
Print Assumptions unfaithful_key_refuted.

(** non-vacuity: mutual recursion even <-> odd used by third (which also calls itself), target t *)
Definition ex_g1 : graph :=
  [(1, mkFn 101 1001 [4]); (2, mkFn 102 1002 [3]); (3, mkFn 103 1003 [2]); (4, mkFn 104 1004 [2; 4])].
Example mutual_recursion_example :
  fingerprint ex_g1 1 =
  Done [TFun 101 1001 [TFun 104 1004 [TFun 102 1002 [TFun 103 1003 [TRec 102 2]]; TRec 104 1]]]
       (mkSt [3; 2; 4; 1] [1; 4; 2; 3]).
Proof. vm_compute. reflexivity. Qed.

(** the same program loaded again: other identities, listed in another order, next to an unrelated function 99 that
    mentions something outside the graph and shares a name with a reachable one *)
Definition ex_g2 : graph :=
  [(99, mkFn 103 5 [77; 23]); (23, mkFn 103 1003 [22]); (21, mkFn 101 1001 [24]); (24, mkFn 104 1004 [22; 24]);
   (22, mkFn 102 1002 [23])].
Definition ex_R : N -> N -> Prop := rel_of [(1, 21); (2, 22); (3, 23); (4, 24)].

(** [fingerprint_deterministic]'s hypothesis holds of (ex_g1, 1) and (ex_g2, 21) *)
Example deterministic_example : iso ex_g1 ex_g2 1 21 ex_R.
Proof.
  constructor.
  - vm_compute. auto.
  - intros x y H. vm_compute in H.
    repeat (destruct H as [H|H]; [inversion H; subst; vm_compute; split; [reflexivity|split; [reflexivity|]];
                                   repeat (apply Forall2_cons; [auto 8|]); apply Forall2_nil|]).
    destruct H.
  - intros x y y' H H' _. vm_compute in H, H'.
    repeat (destruct H as [H|H]; [inversion H; subst;
      repeat (destruct H' as [H'|H']; [inversion H'; subst; reflexivity|]); destruct H'|]).
    destruct H.
  - intros x x' y H H' _. vm_compute in H, H'.
    repeat (destruct H as [H|H]; [inversion H; subst;
      repeat (destruct H' as [H'|H']; [inversion H'; subst; reflexivity|]); destruct H'|]).
    destruct H.
Qed.

(** [fingerprint_sensitive]'s hypotheses hold of the same pair: equal fingerprints *)
Example sensitive_example :
  exists ts s1 s2, fingerprint ex_g1 1 = Done ts s1 /\ fingerprint ex_g2 21 = Done ts s2.
Proof. do 3 eexists. split; vm_compute; reflexivity. Qed.

(** ... and a reachable difference shows: function 3's code changed from 1003 to 1009 (same name, same references) *)
Example sensitive_example_edit :
  let g' := [(1, mkFn 101 1001 [4]); (2, mkFn 102 1002 [3]); (3, mkFn 103 1009 [2]); (4, mkFn 104 1004 [2; 4])] in
  forall ts s ts' s', fingerprint ex_g1 1 = Done ts s -> fingerprint g' 1 = Done ts' s' -> ts <> ts'.
Proof. intros g' ts s ts' s' H H'. vm_compute in H, H'. inversion H; inversion H'; subst. discriminate. Qed.

(** the pair that refuted sensitivity while the placeholder carried the name only: target 1 calls 2, 2 calls 3, and 2 and
    3 are different functions both named 7; in the first graph 3 calls 2 back, in the second 3 calls itself.  The two
    references are now ("dawn","Recursive",("7",1)) and ("dawn","Recursive",("7",2)). *)
Example same_named_in_progress_example :
  fingerprint collide_g1 1 = Done [TFun 10 100 [TFun 7 200 [TFun 7 300 [TRec 7 1]]]] (mkSt [3; 2; 1] [1; 2; 3]) /\
  fingerprint collide_g2 1 = Done [TFun 10 100 [TFun 7 200 [TFun 7 300 [TRec 7 2]]]] (mkSt [3; 2; 1] [1; 2; 3]).
Proof. split; vm_compute; reflexivity. Qed.

(** [fingerprint_sensitive_to_payload]'s hypotheses hold: in [ex_g1] function 3 (odd) is reachable from the target 1 only
    through 4 and 2; a global alias of a builtin it uses is re-pointed (F = len -> F = str), i.e. its identity goes from
    1003 to 1009 and nothing else changes: both fingerprints are computed and they differ. *)
Example builtin_repointed_example :
  reach ex_g1 1 3 /\ lookup 3 ex_g1 = Some (mkFn 103 1003 [2]) /\
  exists ts s ts' s', fingerprint ex_g1 1 = Done ts s /\ fingerprint (set_code ex_g1 3 1009) 1 = Done ts' s' /\ ts <> ts'.
Proof.
  assert (R : reach ex_g1 1 3).
  { apply (reach_step ex_g1 1 2 (mkFn 102 1002 [3]) 3); [|reflexivity|left; reflexivity|discriminate].
    apply (reach_step ex_g1 1 4 (mkFn 104 1004 [2; 4]) 2); [|reflexivity|left; reflexivity|discriminate].
    apply (reach_step ex_g1 1 1 (mkFn 101 1001 [4]) 4); [|reflexivity|left; reflexivity|discriminate].
    apply reach_refl. discriminate. }
  split; [exact R|]. split; [reflexivity|].
  destruct (fingerprint_terminates ex_g1 1) as (ts & s & E).
  destruct (fingerprint_terminates (set_code ex_g1 3 1009) 1) as (ts' & s' & E').
  exists ts, s, ts', s'. split; [exact E|]. split; [exact E'|].
  apply (fingerprint_sensitive_to_payload ex_g1 1 3 (mkFn 103 1003 [2]) 1009 ts s ts' s' R); [reflexivity|discriminate|exact E|exact E'].
Qed.

(** [value_memo_sensitive]'s hypotheses hold and its conclusion is not vacuous: a function that references a list L
    (key 5, content 100) twice and a tuple T = 200 next to its prefix slice T[:2] = 201 (tuples are not filed: fresh
    keys 6, 7): the list is written once and referred back to, both tuples are written in full, and editing the slice
    bound (T[:2] -> T[:3] = 202) changes the emission. *)
Example value_memo_example :
  faithful [(5, 100); (5, 100); (6, 200); (7, 201)] /\
  vemit [] [(5, 100); (5, 100); (6, 200); (7, 201)] = [VFull 100; VBack 0; VFull 200; VFull 201] /\
  vemit [] [(5, 100); (5, 100); (6, 200); (7, 201)] <> vemit [] [(5, 100); (5, 100); (6, 200); (7, 202)].
Proof.
  split; [|split; [reflexivity|discriminate]].
  intros k c c' H H'. cbn in H, H'.
  repeat (destruct H as [H|H]; [inversion H; subst; clear H|]); try contradiction;
  repeat (destruct H' as [H'|H']; [inversion H'; subst; clear H'|]); try contradiction; try reflexivity; try discriminate.
Qed.
