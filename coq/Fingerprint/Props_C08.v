(** C08 — Every target function can be fingerprinted, deterministically.  Statements only.
    Model: Fingerprint/Model.v = the traversal performed by function.go's recursionPickler/envPickler under
    pickle.Encoder's memo, over the graph of *starlark.Function objects a target function can reach.  (The byte-level
    codec is C07's model; equality of fingerprints across processes and sensitivity to every value kind are decided on the
    implementation by the C08 harness: identical text loaded twice, in another file-creation order and GOMAXPROCS, and a
    menu of relevant / irrelevant edits per program.) *)
From Dawn Require Import Fingerprint.Model Fingerprint.Proofs.

(** Fingerprinting terminates -- with fuel bounded by the number of functions -- on EVERY graph: self-recursion, mutual
    recursion through any number of functions, closures referring to their makers, shared helpers. *)
Theorem fingerprint_terminates : forall g f, exists ts s, fingerprint g f = Done ts s.
Proof. exact Proofs.fingerprint_terminates. Qed.
Print Assumptions fingerprint_terminates.

(** The fingerprint is a function of the graph alone (it is a Gallina function of [g] and [f]: no addresses, no
    allocation order, no map iteration order enter), and it contains the name and code identity of every function
    reachable from the target, however the references are arranged. *)
Theorem fingerprint_covers_reachable :
  forall g f ts s, fingerprint g f = Done ts s ->
    forall x, reach g f x -> exists fd, lookup x g = Some fd /\ In (f_name fd, f_code fd) (nodes_l ts).
Proof. exact Proofs.fingerprint_covers_reachable. Qed.
Print Assumptions fingerprint_covers_reachable.

(** Two loads of identical project text produce function objects that differ only in identity (address, allocation
    order): renaming the identities by any injective map leaves the fingerprint unchanged. *)
Theorem fingerprint_independent_of_identities :
  forall (f : N -> N), (forall a b, f a = f b -> a = b) ->
  forall g x,
    match fingerprint g x, fingerprint (ren_graph f g) (f x) with
    | Done t1 _, Done t2 _ => t1 = t2
    | OutOfFuel, OutOfFuel => True
    | _, _ => False
    end.
Proof. exact Proofs.fingerprint_independent_of_identities. Qed.
Print Assumptions fingerprint_independent_of_identities.

(** non-vacuity: mutual recursion even <-> odd used by third (which also calls itself), target t *)
Example mutual_recursion_example :
  let g := [(1, mkFn 101 1001 [4]); (2, mkFn 102 1002 [3]); (3, mkFn 103 1003 [2]); (4, mkFn 104 1004 [2; 4])] in
  fingerprint g 1 =
  Done [TFun 101 1001 [TFun 104 1004 [TFun 102 1002 [TFun 103 1003 [TRec 102]]; TRec 104]]]
       (mkSt [3; 2; 4; 1] [1; 4; 2; 3]).
Proof. vm_compute. reflexivity. Qed.
