(** C14 — Garbage collection never changes build outcomes.  Statements only; proofs in Build/Proofs.v, Proofs_Sim.v. *)
From Dawn Require Import Build.Model Build.Proofs Build.Proofs_Sim.

(** The complete persisted record of every target and source that exists when gc runs is kept. *)
Theorem gc_keeps_live_records : forall w l, live w l = true -> rec_of (gc w) l = rec_of w l.
Proof. exact Proofs.gc_keeps_live_records. Qed.
Print Assumptions gc_keeps_live_records.

(** The records of labels that no longer exist are removed, together with the stray temporaries. *)
Theorem gc_removes_dead : forall w l, live w l = false -> lookup l (w_recs (gc w)) = None.
Proof. exact Proofs.gc_removes_dead. Qed.
Print Assumptions gc_removes_dead.

Theorem gc_removes_temporaries : forall w, w_stray (gc w) = 0.
Proof. exact Proofs.gc_no_stray. Qed.
Print Assumptions gc_removes_temporaries.

(** Nothing outside the build-state directory changes. *)
Theorem gc_confined : forall w, w_proj (gc w) = w_proj w /\ w_files (gc w) = w_files w.
Proof. exact Proofs.gc_confined. Qed.
Print Assumptions gc_confined.

(** Worlds that agree on the project, the files, the run-ID counter and the records of existing labels ([sim]) build
    identically: same events, same executed bodies, same result, and again [sim]-related worlds. *)
Theorem builds_read_only_live_records :
  forall c w1 w2 l, sim w1 w2 ->
    o_events (build c w1 l) = o_events (build c w2 l) /\ o_ran (build c w1 l) = o_ran (build c w2 l) /\
    o_res (build c w1 l) = o_res (build c w2 l) /\ o_bad (build c w1 l) = o_bad (build c w2 l) /\
    sim (o_w (build c w1 l)) (o_w (build c w2 l)).
Proof. exact Proofs_Sim.build_sim. Qed.
Print Assumptions builds_read_only_live_records.

(** Hence the build that follows a collection executes exactly the targets it would have executed without it ... *)
Theorem gc_build_equiv :
  forall c w l,
    o_events (build c (gc w) l) = o_events (build c w l) /\ o_ran (build c (gc w) l) = o_ran (build c w l) /\
    o_res (build c (gc w) l) = o_res (build c w l) /\ sim (o_w (build c (gc w) l)) (o_w (build c w l)).
Proof. exact Proofs_Sim.gc_build_equiv. Qed.
Print Assumptions gc_build_equiv.

(** ... and so does every later build of a history in which the project is only edited in ways that keep the
    [sim] relation (file edits, project edits: [sim] constrains only labels that exist). *)
Theorem gc_sim : forall w, sim (gc w) w.
Proof. exact Proofs_Sim.gc_sim. Qed.
Print Assumptions gc_sim.

Example gc_example :
  let pr := [(1, Fn [] [] [] 1 7 false)] in
  let w := mkWorld pr [] [(1, mkRec [] (DEnv 1) 3 false); (2, mkRec [] (DEnv 9) 2 false)] 4 2 [] [] in
  live w 1 = true /\ live w 2 = false /\ map fst (w_recs (gc w)) = [1] /\ w_stray (gc w) = 0.
Proof. vm_compute. repeat split. Qed.
