(** C03 — Failed and interrupted builds are recoverable.  Statements only.
    A killed build is a build whose configuration has [c_crashed = true] together with ANY sets [c_ran] (function bodies
    that ran) and [c_recorded] (records renamed into place): the model cuts every target that is not in them, so the
    theorems below quantify over every crash point of every schedule, not over a sequential prefix. *)
From Dawn Require Import Build.Model Build.CleanCheck Build.Proofs Build.Proofs_Fresh Build.Proofs_Stale Build.Proofs_Skip Build.Proofs_Clean Build.Proofs_CleanDec.

(** Whatever happened before -- including failed and killed builds at arbitrary points -- the persisted records never lie:
    a success record is exactly the snapshot of an execution that was recorded. *)
Theorem crash_preserves_record_truth :
  forall h l r e, let w := run_history h in
    lookup l (w_recs w) = Some r -> r_data r = DEnv e ->
    lookup l (w_last w) = Some (mkSnap e (r_run r) (r_deps r)).
Proof. intros h l r e. exact (Proofs_Stale.history_ginv h l r e). Qed.
Print Assumptions crash_preserves_record_truth.

(** ... hence the build after a failed or killed one (or after any history containing such builds), if it succeeds,
    leaves the whole closure current: no target that did not complete against its current inputs is remembered as up to
    date. *)
Theorem recovery_is_never_stale :
  forall h c l,
    let w := run_history h in
    c_dry c = false -> c_crashed c = false -> link_ok (w_proj w) = true ->
    let o := build c w l in
    (forall x v, lookup x (o_vis o) = Some v -> v_res v = ROk) ->
    forall x v, lookup x (o_vis o) = Some v -> current (o_w o) x.
Proof. exact Proofs_Stale.never_stale. Qed.
Print Assumptions recovery_is_never_stale.

(** Whatever a killed or failed build left in the records (the theorem quantifies over ANY world), a later build reports a
    target up to date only if that target's own record carries exactly the stamp of its present environment and no re-run
    mark. *)
Theorem up_to_date_only_with_current_stamp :
  forall c w l0 l, c_crashed c = false ->
    In (EUpToDate l) (o_events (build c w l0)) -> accepted (w_proj w) w l.
Proof. exact Proofs_Skip.up_to_date_only_with_current_stamp. Qed.
Print Assumptions up_to_date_only_with_current_stamp.

(** A failed body leaves a record that is marked for re-run and carries no stamp: the next build executes it. *)
Theorem failed_body_reruns :
  forall c w l deps srcs gens env k alw vs w' v evs ran,
    c_crashed c = false -> c_dry c = false -> mem l (c_fail c) = true ->
    step_target c w l (Fn deps srcs gens env k alw) (rec_of w l) vs = (w', v, evs, ran) ->
    ran = true ->
    r_rerun (rec_of w' l) = true /\ r_data (rec_of w' l) = DEmpty /\ v_res v = RFailBody.
Proof.
  intros c w l deps srcs gens env k alw vs w' v evs ran Hcr Hdry Hfail.
  unfold step_target. rewrite Hcr, Hdry, Hfail. cbn [andb].
  destruct (first_failure vs) as [[]|]; try (intros H; inversion H; discriminate).
  destruct (negb (c_always c) && deps_up_to_date (rec_of w l) vs &&
            up_to_date w (Fn deps srcs gens env k alw) (rec_of w l) && negb (r_rerun (rec_of w l) || alw)).
  { intros H; inversion H; discriminate. }
  intros H; inversion H; subst. intros _.
  unfold rec_of, set_rec; cbn [w_recs]. rewrite lookup_update_same. repeat split.
Qed.
Print Assumptions failed_body_reruns.

(** A build killed at ANY point: every function target whose body ran without its final record being written is marked
    for re-run in the state the dead process leaves -- provided it had been marked before its body started ([crash_wf]:
    what the pre-body mark of fix 4e7688b establishes; the harness observes it on every killed build and reports a body
    that ran unmarked and unrecorded as a violation). *)
Theorem killed_body_is_marked :
  forall c w l x,
    c_dry c = false -> crash_wf c -> link_ok (w_proj w) = true ->
    Sc c x = true -> r_rerun (rec_of (o_w (build c w l)) x) = true.
Proof.
  intros c w l x Hdry Hwf Hlink HS. unfold build. rewrite load_proj, Hlink. cbn [o_w].
  destruct (Sc_true c x HS) as [Hc Hr]. apply premark_marks; [exact Hc|exact Hdry|apply Hwf; exact HS|exact Hr].
Qed.
Print Assumptions killed_body_is_marked.

(** Convergence: after ANY history that ends in a killed build (and may contain others, failed builds, edits,
    collections), the next build that succeeds leaves exactly the generated files an uninterrupted from-scratch build of
    the same tree produces -- [incremental_eq_clean] read for C03.  ([hist_okb]: environment determines behaviour, one
    generator per path, no edits of generated paths, every killed build marked before running.) *)
Theorem interrupted_build_converges :
  forall h ck lk c l,
    c_crashed ck = true ->
    let h' := h ++ [OBuild ck lk] in
    hist_okb h' = true ->
    let w := run_history h' in
    c_dry c = false -> c_crashed c = false -> link_ok (w_proj w) = true ->
    topo_ok (w_proj w) [] (order_of (w_proj w) l) = true ->
    let o := build c w l in
    (forall x, In x (order_of (w_proj w) l) -> exists v, lookup x (o_vis o) = Some v) ->
    (forall x v, lookup x (o_vis o) = Some v -> v_res v = ROk) ->
    let o' := build cfg0 (wipe (o_w o)) l in
    (forall p, lookup p (w_files (o_w o')) = lookup p (w_files (o_w o))) /\
    (forall x v, lookup x (o_vis o') = Some v -> v_res v = ROk) /\
    (forall x d, In x (order_of (w_proj w) l) -> lookup x (w_proj w) = Some d -> is_fn d = true -> In x (o_ran o')) /\
    o_bad o' = false.
Proof. intros h ck lk c l _ h' H. exact (Proofs_CleanDec.incremental_eq_clean_checked h' c l H). Qed.
Print Assumptions interrupted_build_converges.

(** non-vacuity: a build killed inside the body of [1] (marked, its output half-written, never recorded) after an edit;
    the history satisfies [hist_okb], the recovery build succeeds and runs [1] and its dependent again *)
Example interrupted_example :
  let pr := [(1, Fn [] [10] [100] 1 7 false); (3, Fn [1] [] [101] 3 9 false); (10, Src 50)] in
  let c := mkCfg false false [] false [] [] [] in
  let killed := mkCfg false false [] true [1] [10] [1] in
  let h := [OSetProj pr; OSetFile 50 (Some (CLit 1)); OBuild c 3; OSetFile 50 (Some (CLit 2))] in
  let w := run_history (h ++ [OBuild killed 3]) in
  hist_okb (h ++ [OBuild killed 3]) = true /\ r_rerun (rec_of w 1) = true /\
  link_ok (w_proj w) = true /\ topo_ok (w_proj w) [] (order_of (w_proj w) 3) = true /\
  o_ran (build c w 3) = [1; 3] /\ forallb (fun lv => result_ok (v_res (snd lv))) (o_vis (build c w 3)) = true.
Proof. vm_compute. repeat split. Qed.

(** the records stay loadable: every record file is renamed into place atomically (hypothesis on rename(2)), a killed
    build therefore leaves old or new complete records plus inert temporaries, which the model counts in [w_stray] and gc
    removes.  That the implementation's state after a kill at every hook point loads and converges is decided by the
    harness (oracle "C03 ..." and the from-scratch comparison after the recovery build). *)

Example killed_build_example :
  (* a is executed and recorded, the process dies before c's record is written; the recovery build runs c again *)
  let pr := [(1, Fn [] [10] [100] 1 7 false); (3, Fn [1] [] [101] 3 9 false); (10, Src 50)] in
  let c := mkCfg false false [] false [] [] [] in
  let killed := mkCfg false false [] true [1; 3] [10; 1] [] in
  let h := [OSetProj pr; OSetFile 50 (Some (CLit 1)); OBuild killed 3] in
  o_ran (build c (run_history h) 3) = [3] /\ w_stray (run_history h) = 1.
Proof. vm_compute. repeat split. Qed.
