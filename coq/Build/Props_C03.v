(** C03 — Failed and interrupted builds are recoverable.  Statements only.
    A killed build is a build whose configuration has [c_crashed = true] together with ANY sets [c_ran] (function bodies
    that ran) and [c_recorded] (records renamed into place): the model cuts every target that is not in them, so the
    theorems below quantify over every crash point of every schedule, not over a sequential prefix. *)
From Dawn Require Import Build.Model Build.Proofs Build.Proofs_Fresh Build.Proofs_Stale Build.Proofs_Skip.

(** Whatever happened before -- including failed and killed builds at arbitrary points -- the persisted records never lie:
    a success record is exactly the snapshot of an execution that was recorded. *)
Theorem crash_preserves_record_truth :
  forall h l r e, let w := run_history h in
    lookup l (w_recs w) = Some r -> r_data r = DEnv e ->
    lookup l (w_last w) = Some (mkSnap e (r_run r) (r_deps r)).
Proof. intros h l r e. exact (Proofs_Stale.history_ginv h l r e). Qed.
Print Assumptions crash_preserves_record_truth.

(** ... hence the build after a failed or killed one (or after any history containing such builds), if it succeeds,
    leaves the whole closure current: no target that did not complete against its current inputs is remembered as up to
    date. *)
Theorem recovery_is_never_stale :
  forall h c l,
    let w := run_history h in
    c_dry c = false -> c_crashed c = false -> link_ok (w_proj w) = true ->
    let o := build c w l in
    (forall x v, lookup x (o_vis o) = Some v -> v_res v = ROk) ->
    forall x v, lookup x (o_vis o) = Some v -> current (o_w o) x.
Proof. exact Proofs_Stale.never_stale. Qed.
Print Assumptions recovery_is_never_stale.

(** Whatever a killed or failed build left in the records (the theorem quantifies over ANY world), a later build reports a
    target up to date only if that target's own record carries exactly the stamp of its present environment and no re-run
    mark. *)
Theorem up_to_date_only_with_current_stamp :
  forall c w l0 l, c_crashed c = false ->
    In (EUpToDate l) (o_events (build c w l0)) -> accepted (w_proj w) w l.
Proof. exact Proofs_Skip.up_to_date_only_with_current_stamp. Qed.
Print Assumptions up_to_date_only_with_current_stamp.

(** A failed body leaves a record that is marked for re-run and carries no stamp: the next build executes it. *)
Theorem failed_body_reruns :
  forall c w l deps srcs gens env k alw vs w' v evs ran,
    c_crashed c = false -> c_dry c = false -> mem l (c_fail c) = true ->
    step_target c w l (Fn deps srcs gens env k alw) (rec_of w l) vs = (w', v, evs, ran) ->
    ran = true ->
    r_rerun (rec_of w' l) = true /\ r_data (rec_of w' l) = DEmpty /\ v_res v = RFailBody.
Proof.
  intros c w l deps srcs gens env k alw vs w' v evs ran Hcr Hdry Hfail.
  unfold step_target. rewrite Hcr, Hdry, Hfail. cbn [andb].
  destruct (first_failure vs) as [[]|]; try (intros H; inversion H; discriminate).
  destruct (negb (c_always c) && deps_up_to_date (rec_of w l) vs &&
            up_to_date w (Fn deps srcs gens env k alw) (rec_of w l) && negb (r_rerun (rec_of w l) || alw)).
  { intros H; inversion H; discriminate. }
  intros H; inversion H; subst. intros _.
  unfold rec_of, set_rec; cbn [w_recs]. rewrite lookup_update_same. repeat split.
Qed.
Print Assumptions failed_body_reruns.

(** the records stay loadable: every record file is renamed into place atomically (hypothesis on rename(2)), a killed
    build therefore leaves old or new complete records plus inert temporaries, which the model counts in [w_stray] and gc
    removes.  That the implementation's state after a kill at every hook point loads and converges is decided by the
    harness (oracle "C03 ..." and the from-scratch comparison after the recovery build). *)

Example killed_build_example :
  (* a is executed and recorded, the process dies before c's record is written; the recovery build runs c again *)
  let pr := [(1, Fn [] [10] [100] 1 7 false); (3, Fn [1] [] [101] 3 9 false); (10, Src 50)] in
  let c := mkCfg false false [] false [] [] [] in
  let killed := mkCfg false false [] true [1; 3] [10; 1] [] in
  let h := [OSetProj pr; OSetFile 50 (Some (CLit 1)); OBuild killed 3] in
  o_ran (build c (run_history h) 3) = [3] /\ w_stray (run_history h) = 1.
Proof. vm_compute. repeat split. Qed.
