(** C02: a build of [l] depends only on the part of the tree that the closure of [l] mentions: the definitions of the
    closure's labels, the files at their source and output paths, their records.  Any edit outside of that -- other
    packages' targets, other files, other records -- leaves the build of [l] unchanged. *)
From Dawn Require Import Build.Model Build.Proofs Build.Proofs_Fresh Build.Proofs_Noop Build.Proofs_Dry.

Lemma rec_of_set_rec_local w l r l' : rec_of (set_rec w l r) l' = if l' =? l then r else rec_of w l'.
Proof.
  unfold rec_of, set_rec; cbn [w_recs]. destruct (N.eqb_spec l' l) as [->|Hne].
  - rewrite lookup_update_same. reflexivity.
  - rewrite (lookup_update_other _ _ _ _ Hne). reflexivity.
Qed.

Definition relevant (pr : project) (L : list label) (p : path) : Prop :=
  exists x d, In x L /\ lookup x pr = Some d /\ (mem p (def_gens d) = true \/ d = Src p).

Record csim (L : list label) (w1 w2 : world) : Prop := {
  cs_def : forall x, In x L -> lookup x (w_proj w1) = lookup x (w_proj w2);
  cs_deps : forall x d, In x L -> lookup x (w_proj w1) = Some d ->
              deps_of (w_proj w1) d = deps_of (w_proj w2) d /\ forall y, In y (deps_of (w_proj w1) d) -> In y L;
  cs_rec : forall x, In x L -> rec_of w1 x = rec_of w2 x;
  cs_files : forall p, relevant (w_proj w1) L p -> lookup p (w_files w1) = lookup p (w_files w2);
  cs_run : w_nextrun w1 = w_nextrun w2
}.

Lemma relevant_gen pr L x d p : In x L -> lookup x pr = Some d -> In p (def_gens d) -> relevant pr L p.
Proof. intros Hx Hd Hp. exists x, d. repeat split; try assumption. left. apply mem_In_rev. exact Hp. Qed.

Lemma gens_exist_csim L w1 w2 x deps srcs gens env k alw :
  csim L w1 w2 -> In x L -> lookup x (w_proj w1) = Some (Fn deps srcs gens env k alw) ->
  gens_exist w1 gens = gens_exist w2 gens.
Proof.
  intros C Hx Hd. unfold gens_exist. apply forallb_ext_in'. intros p Hp.
  rewrite (cs_files _ _ _ C p (relevant_gen _ _ _ _ _ Hx Hd Hp)). reflexivity.
Qed.

Lemma body_inputs_csim L w1 w2 x deps srcs gens env k alw :
  csim L w1 w2 -> In x L -> lookup x (w_proj w1) = Some (Fn deps srcs gens env k alw) ->
  body_inputs w1 deps srcs = body_inputs w2 deps srcs.
Proof.
  intros C Hx Hd. unfold body_inputs.
  destruct (cs_deps _ _ _ C x _ Hx Hd) as [_ Hclosed]. cbn [deps_of] in Hclosed.
  assert (Hs : forall s, In s srcs -> src_path (w_proj w1) s = src_path (w_proj w2) s /\
                                       forall p, In p (src_path (w_proj w1) s) -> relevant (w_proj w1) L p).
  { intros s Hin. assert (HsL : In s L) by (apply Hclosed, in_or_app; right; exact Hin).
    unfold src_path. rewrite <- (cs_def _ _ _ C s HsL). split; [reflexivity|].
    destruct (lookup s (w_proj w1)) as [[a1 a2 a3 a4 a5 a6| q]|] eqn:E.
    - intros pp Hpp; destruct Hpp.
    - intros pp [<-|Hpp]; [|destruct Hpp]. exists s, (Src q). repeat split; try assumption. right; reflexivity.
    - intros pp Hpp; destruct Hpp. }
  assert (Hg : forall dl, In dl deps -> gens_of (w_proj w1) dl = gens_of (w_proj w2) dl /\
                                         forall p, In p (gens_of (w_proj w1) dl) -> relevant (w_proj w1) L p).
  { intros dl Hin. assert (HdL : In dl L) by (apply Hclosed, in_or_app; left; exact Hin).
    unfold gens_of. rewrite <- (cs_def _ _ _ C dl HdL). split; [reflexivity|].
    destruct (lookup dl (w_proj w1)) as [[dd ss gg ee kk aa| q]|] eqn:E.
    - intros pp Hp. apply (relevant_gen _ _ dl _ pp HdL E). exact Hp.
    - intros pp Hpp; destruct Hpp.
    - intros pp Hpp; destruct Hpp. }
  assert (E1 : flat_map (src_path (w_proj w1)) srcs = flat_map (src_path (w_proj w2)) srcs).
  { clear - Hs. induction srcs as [|s r IH]; simpl; [reflexivity|].
    rewrite (proj1 (Hs s (or_introl eq_refl))), IH; [reflexivity|]. intros y Hy. apply Hs; right; exact Hy. }
  assert (E2 : flat_map (gens_of (w_proj w1)) deps = flat_map (gens_of (w_proj w2)) deps).
  { clear - Hg. induction deps as [|s r IH]; simpl; [reflexivity|].
    rewrite (proj1 (Hg s (or_introl eq_refl))), IH; [reflexivity|]. intros y Hy. apply Hg; right; exact Hy. }
  rewrite <- E1, <- E2. apply map_ext_in. intros p Hp. apply (cs_files _ _ _ C).
  apply in_app_or in Hp. destruct Hp as [Hp|Hp]; apply in_flat_map in Hp; destruct Hp as (y & Hy & Hpy).
  - apply (proj2 (Hs y Hy)). exact Hpy.
  - apply (proj2 (Hg y Hy)). exact Hpy.
Qed.

Lemma csim_set_rec L w1 w2 l r : csim L w1 w2 -> csim L (set_rec w1 l r) (set_rec w2 l r).
Proof.
  intros [C1 C2 C3 C4 C5]. constructor; cbn [set_rec w_proj w_files w_nextrun]; try assumption.
  intros x Hx. rewrite !rec_of_set_rec_local. destruct (x =? l); [reflexivity|apply C3; exact Hx].
Qed.

Lemma csim_exec L w1 w2 l r gens c n s1 s2 la1 la2 c1 c2 :
  csim L w1 w2 ->
  csim L (mkWorld (w_proj w1) (write_files (w_files w1) gens c) (update l r (w_recs w1)) n s1 la1 c1)
         (mkWorld (w_proj w2) (write_files (w_files w2) gens c) (update l r (w_recs w2)) n s2 la2 c2).
Proof.
  intros [C1 C2 C3 C4 C5]. constructor; cbn [w_proj w_files w_nextrun w_recs]; try assumption; try reflexivity.
  - intros x Hx. unfold rec_of; cbn [w_recs]. destruct (N.eq_dec x l) as [->|Hne].
    + rewrite !lookup_update_same. reflexivity.
    + rewrite !(lookup_update_other _ _ _ _ Hne). apply (C3 x Hx).
  - intros p Hp. rewrite !lookup_write_files. destruct (mem p gens); [reflexivity|apply C4; exact Hp].
Qed.

Lemma csim_files_only L w1 w2 gens c n s1 s2 :
  csim L w1 w2 ->
  csim L (mkWorld (w_proj w1) (write_files (w_files w1) gens c) (w_recs w1) n s1 (w_last w1) (w_count w1))
         (mkWorld (w_proj w2) (write_files (w_files w2) gens c) (w_recs w2) n s2 (w_last w2) (w_count w2)).
Proof.
  intros [C1 C2 C3 C4 C5]. constructor; cbn [w_proj w_files w_nextrun w_recs]; try assumption; try reflexivity.
  intros p Hp. rewrite !lookup_write_files. destruct (mem p gens); [reflexivity|apply C4; exact Hp].
Qed.

Ltac fin4 := split; [reflexivity|split; [reflexivity|split; [reflexivity|]]].

Lemma step_target_csim c L w1 w2 l d r vs :
  csim L w1 w2 -> In l L -> lookup l (w_proj w1) = Some d ->
  match step_target c w1 l d r vs, step_target c w2 l d r vs with
  | (w1', v1, e1, b1), (w2', v2, e2, b2) => v1 = v2 /\ e1 = e2 /\ b1 = b2 /\ csim L w1' w2'
  end.
Proof.
  intros C Hl Hd. unfold step_target.
  assert (Hutd : up_to_date w1 d r = up_to_date w2 d r).
  { unfold up_to_date. destruct d as [deps srcs gens env k alw|p].
    - rewrite (gens_exist_csim L w1 w2 l deps srcs gens env k alw C Hl Hd). reflexivity.
    - unfold file_sum. rewrite (cs_files _ _ _ C p); [reflexivity|].
      exists l, (Src p). repeat split; try assumption. right; reflexivity. }
  rewrite Hutd.
  destruct (first_failure vs) as [[]|]; try (fin4; exact C).
  destruct (negb (c_always c) && deps_up_to_date r vs && up_to_date w2 d r &&
            negb (r_rerun r || match d with Fn _ _ _ _ _ a => a | Src _ => false end)).
  { fin4; exact C. }
  destruct (c_dry c). { fin4; exact C. }
  destruct d as [deps srcs gens env k alw|p].
  - destruct (c_crashed c && negb (mem l (c_ran c))). { fin4; exact C. }
    destruct (mem l (c_fail c)).
    + destruct (c_crashed c && negb (mem l (c_recorded c))); fin4; [exact C|apply csim_set_rec; exact C].
    + rewrite (body_inputs_csim L w1 w2 l deps srcs gens env k alw C Hl Hd), (cs_run _ _ _ C).
      destruct (c_crashed c && negb (mem l (c_recorded c))); fin4.
      * apply csim_files_only; exact C.
      * apply csim_exec; exact C.
  - unfold file_sum. rewrite (cs_files _ _ _ C p).
    2:{ exists l, (Src p). repeat split; try assumption. right; reflexivity. }
    destruct (c_crashed c && negb (mem l (c_recorded c))); fin4; [exact C|apply csim_set_rec; exact C].
Qed.

Definition bcsim (L : list label) (s1 s2 : bstate) : Prop :=
  csim L (b_w s1) (b_w s2) /\ b_vis s1 = b_vis s2 /\ b_events s1 = b_events s2 /\ b_ran s1 = b_ran s2 /\
  b_bad s1 = b_bad s2.

Lemma eval1_csim c L s1 s2 l : In l L -> bcsim L s1 s2 -> bcsim L (eval1 c s1 l) (eval1 c s2 l).
Proof.
  intros Hl (C & Hv & He & Hr & Hb). unfold eval1. rewrite <- Hv.
  destruct (lookup l (b_vis s1)). { split; [exact C|]. repeat split; assumption. }
  rewrite <- (cs_def _ _ _ C l Hl).
  destruct (lookup l (w_proj (b_w s1))) as [d|] eqn:Hd.
  2:{ unfold finish, bcsim; cbn [b_w b_vis b_events b_ran b_bad]. rewrite He, Hr, Hb, <- ?Hv.
      split; [exact C|]. repeat split; reflexivity. }
  destruct (cs_deps _ _ _ C l d Hl Hd) as [Hdeps _]. rewrite <- Hdeps.
  destruct (dep_visits (b_vis s1) (deps_of (w_proj (b_w s1)) d)) as [vs|].
  2:{ unfold bcsim; cbn [b_w b_vis b_events b_ran b_bad]. rewrite He, Hr, <- ?Hv. split; [exact C|]. repeat split; reflexivity. }
  rewrite <- (cs_rec _ _ _ C l Hl).
  pose proof (step_target_csim c L (b_w s1) (b_w s2) l d (rec_of (b_w s1) l) vs C Hl Hd) as Hst.
  destruct (step_target c (b_w s1) l d (rec_of (b_w s1) l) vs) as [[[w1' v1] e1] b1].
  destruct (step_target c (b_w s2) l d (rec_of (b_w s1) l) vs) as [[[w2' v2] e2] b2].
  destruct Hst as (-> & -> & -> & C').
  unfold finish, bcsim; cbn [b_w b_vis b_events b_ran b_bad]. rewrite He, Hr, Hb, <- ?Hv.
  split; [exact C'|]. repeat split; reflexivity.
Qed.

Lemma fold_eval1_csim c L order s1 s2 :
  (forall x, In x order -> In x L) -> bcsim L s1 s2 ->
  bcsim L (fold_left (eval1 c) order s1) (fold_left (eval1 c) order s2).
Proof.
  revert s1 s2; induction order as [|l order IH]; intros s1 s2 Hsub H; simpl; [exact H|].
  apply IH; [intros x Hx; apply Hsub; right; exact Hx|].
  apply eval1_csim; [apply Hsub; left; reflexivity|exact H].
Qed.

(** C02: two trees that agree on what the closure [L] of the requested target mentions -- the definitions and
    dependency lists of the labels in L (L is closed under dependencies), their records, the files at their source and
    output paths, the run-ID counter -- evaluate any order inside L identically: same visits, events, executed bodies.
    Whatever else differs (other packages' targets and build files, other source files, other records) is irrelevant. *)
Theorem irrelevant_edit c L w1 w2 order l :
  csim L w1 w2 -> (forall x, In x order -> In x L) ->
  let o1 := run_order c w1 order l in
  let o2 := run_order c w2 order l in
  o_events o1 = o_events o2 /\ o_ran o1 = o_ran o2 /\ o_res o1 = o_res o2 /\ o_vis o1 = o_vis o2 /\
  csim L (o_w o1) (o_w o2).
Proof.
  intros C Hsub. unfold run_order; cbn [o_events o_ran o_res o_vis o_w].
  assert (H0 : bcsim L (mkB w1 [] [] [] false) (mkB w2 [] [] [] false)).
  { split; [exact C|]. repeat split; reflexivity. }
  destruct (fold_eval1_csim c L order _ _ Hsub H0) as (C' & Hv & He & Hr & Hb).
  rewrite Hv, He, Hr. split; [reflexivity|split; [reflexivity|split; [reflexivity|split; [reflexivity|exact C']]]].
Qed.
