(** C18: the stream a run(..., callback=f) callback is called with is the stream of the build (Build/Stream.v), whatever
    the callback raises; the protocol statements transfer. *)
From Coq Require Import List Bool.
Import ListNotations.
From Dawn Require Import Base.Bytes Build.Model Build.Stream Build.Proofs_Stream.
From Dawn Require Import Build.Pump.

Lemma callback_receives_the_stream_proof :
  forall (raises : sev -> bool) out c w l,
    feed raises true pump0 (run_stream out c w l) = (mkPump true (run_stream out c w l), []).
Proof. intros. apply pump_delivers_all_proof. Qed.

Lemma callback_run_done_once_last_proof :
  forall (raises : sev -> bool) out c w l,
    snd (feed raises true pump0 (run_stream out c w l)) = [] /\
    exists pre, p_seen (fst (feed raises true pump0 (run_stream out c w l))) = pre ++ [SRunDone (o_res (build c w l))] /\
                forallb (fun s => negb (is_run_done s)) pre = true.
Proof.
  intros. rewrite callback_receives_the_stream_proof. cbn [fst snd p_seen]. split; [reflexivity|].
  apply run_done_once_last.
Qed.

Lemma callback_label_events_proof :
  forall (raises : sev -> bool) out c w l x,
    sevents_of x (p_seen (fst (feed raises true pump0 (run_stream out c w l)))) = sevents_of x (run_stream out c w l).
Proof. intros. now rewrite callback_receives_the_stream_proof. Qed.

(** the stopping pump applied to a build: if the callback raises for the first event of a stream of two or more events,
    the rest -- at least run-done -- is never received: Project.Run does not return *)
Lemma stopping_pump_blocks_the_build_proof :
  forall (raises : sev -> bool) out c w l e rest,
    run_stream out c w l = e :: rest -> raises e = true ->
    feed raises false pump0 (run_stream out c w l) = (mkPump false [e], rest).
Proof.
  intros raises out c w l e rest E He. rewrite E.
  exact (pump_stopping_blocks_proof raises [] e rest eq_refl He).
Qed.

Lemma stop_at_first_error_refuted_proof :
  exists (evs : list bool), snd (feed (fun b => b) false pump0 evs) <> [] /\ snd (feed (fun b => b) true pump0 evs) = [].
Proof. exists [true; false]. split; [discriminate | reflexivity]. Qed.
