(** C18: the stream a run(..., callback=f) callback is called with is the stream of the build (Build/Stream.v), whatever
    the callback raises; the protocol statements transfer. *)
From Coq Require Import List Bool.
Import ListNotations.
From Dawn Require Import Base.Bytes Build.Model Build.Stream Build.Proofs_Stream.
From Dawn Require Import Build.Pump.

Lemma callback_receives_the_stream_proof :
  forall (raises : sev -> bool) out c w l,
    feed raises true pump0 (run_stream out c w l) = (mkPump true (run_stream out c w l), []).
Proof. intros. apply pump_delivers_all_proof. Qed.

Lemma callback_run_done_once_last_proof :
  forall (raises : sev -> bool) out c w l,
    snd (feed raises true pump0 (run_stream out c w l)) = [] /\
    exists pre, p_seen (fst (feed raises true pump0 (run_stream out c w l))) = pre ++ [SRunDone (o_res (build c w l))] /\
                forallb (fun s => negb (is_run_done s)) pre = true.
Proof.
  intros. rewrite callback_receives_the_stream_proof. cbn [fst snd p_seen]. split; [reflexivity|].
  apply run_done_once_last.
Qed.

Lemma callback_label_events_proof :
  forall (raises : sev -> bool) out c w l x,
    sevents_of x (p_seen (fst (feed raises true pump0 (run_stream out c w l)))) = sevents_of x (run_stream out c w l).
Proof. intros. now rewrite callback_receives_the_stream_proof. Qed.

(** the stopping pump applied to a build: if the callback raises for the first event of a stream of two or more events,
    the rest -- at least run-done -- is never received: Project.Run does not return *)
Lemma stopping_pump_blocks_the_build_proof :
  forall (raises : sev -> bool) out c w l e rest,
    run_stream out c w l = e :: rest -> raises e = true ->
    feed raises false pump0 (run_stream out c w l) = (mkPump false [e], rest).
Proof.
  intros raises out c w l e rest E He. rewrite E.
  exact (pump_stopping_blocks_proof raises [] e rest eq_refl He).
Qed.

Lemma stop_at_first_error_refuted_proof :
  exists (evs : list bool), snd (feed (fun b => b) false pump0 evs) <> [] /\ snd (feed (fun b => b) true pump0 evs) = [].
Proof. exists [true; false]. split; [discriminate | reflexivity]. Qed.

(** Statements for EVERY receiver policy ([keep] arbitrary) and every callback. *)
Section AnyPolicy.
  Context {A : Type}.
  Variable raises : A -> bool.
  Let clean (x : A) := negb (raises x).

  (** conservation: what the callback was called with, followed by what was never received, is what was sent -- nothing
      lost, repeated, reordered or invented, and the callback always holds a prefix of the stream *)
  Lemma feed_conserves_gen : forall keep evs p,
    p_seen (fst (feed raises keep p evs)) ++ snd (feed raises keep p evs) = p_seen p ++ evs.
  Proof.
    intros keep; induction evs as [|e rest IH]; intros p; cbn [feed fst snd].
    - reflexivity.
    - unfold recv. destruct (p_alive p) eqn:Ea.
      + rewrite IH. cbn [p_seen]. now rewrite <- app_assoc.
      + reflexivity.
  Qed.

  Lemma pump_conserves_proof : forall keep evs,
    p_seen (fst (feed raises keep pump0 evs)) ++ snd (feed raises keep pump0 evs) = evs.
  Proof. intros. now rewrite feed_conserves_gen. Qed.

  (** a receiver that has stopped is never called again, and a receiver that is alive has left nothing blocked *)
  Lemma feed_alive_nothing_blocked_gen : forall keep evs p,
    p_alive (fst (feed raises keep p evs)) = true -> snd (feed raises keep p evs) = [].
  Proof.
    intros keep; induction evs as [|e rest IH]; intros p; cbn [feed fst snd]; [reflexivity|].
    unfold recv. destruct (p_alive p) eqn:Ea; [apply IH|]. cbn [fst]. congruence.
  Qed.

  Lemma feed_clean : forall evs seen,
    forallb clean evs = true -> feed raises false (mkPump true seen) evs = (mkPump true (seen ++ evs), []).
  Proof.
    induction evs as [|e rest IH]; intros seen H; cbn [feed recv p_alive p_seen orb].
    - now rewrite app_nil_r.
    - cbn [forallb] in H. apply andb_true_iff in H as [He Hr]. unfold clean in He. rewrite He.
      rewrite IH by exact Hr. now rewrite <- app_assoc.
  Qed.

  Lemma first_raising : forall evs,
    forallb clean evs = true \/
    exists pre e post, evs = pre ++ e :: post /\ forallb clean pre = true /\ raises e = true.
  Proof.
    induction evs as [|x xs IH]; [now left|].
    destruct (raises x) eqn:Ex.
    - right. exists [], x, xs. repeat split; assumption.
    - destruct IH as [H | (pre & e & post & E & Hp & He)].
      + left. cbn [forallb]. unfold clean at 1. now rewrite Ex.
      + right. exists (x :: pre), e, post. subst xs. repeat split; [|exact He].
        cbn [forallb]. unfold clean at 1. now rewrite Ex.
  Qed.

  Lemma forallb_removelast : forall (f : A -> bool) l, forallb f l = true -> forallb f (removelast l) = true.
  Proof.
    intros f; induction l as [|x [|y l] IH]; intros H; [reflexivity | reflexivity |].
    change (removelast (x :: y :: l)) with (x :: removelast (y :: l)).
    cbn [forallb] in H |- *. apply andb_true_iff in H as [Hx Hr]. rewrite Hx. apply IH. exact Hr.
  Qed.

  (** exactly when a stop-at-first-error receiver differs from dawn's: it leaves senders blocked iff the callback raises
      for some event that is not the last one of the stream *)
  Lemma stopping_pump_blocks_iff_proof : forall evs,
    snd (feed raises false pump0 evs) = [] <-> forallb clean (removelast evs) = true.
  Proof.
    intros evs. destruct (first_raising evs) as [H | (pre & e & post & E & Hp & He)].
    - unfold pump0. rewrite feed_clean by exact H. cbn [snd]. split; intros _; [now apply forallb_removelast | reflexivity].
    - subst evs. rewrite (pump_stopping_blocks_proof raises pre e post Hp He). cbn [snd].
      destruct post as [|y post].
      + rewrite removelast_last. split; intros _; [exact Hp | reflexivity].
      + split; [discriminate|]. intros H. exfalso.
        rewrite removelast_app in H by discriminate.
        change (removelast (e :: y :: post)) with (e :: removelast (y :: post)) in H.
        rewrite forallb_app in H. apply andb_true_iff in H as [_ H]. cbn [forallb] in H.
        unfold clean at 1 in H. rewrite He in H. discriminate.
  Qed.
End AnyPolicy.

(** on a build: under any policy the callback holds a prefix of the build's stream and the blocked rest completes it *)
Lemma callback_holds_a_prefix_proof :
  forall (raises : sev -> bool) keep out c w l,
    p_seen (fst (feed raises keep pump0 (run_stream out c w l))) ++ snd (feed raises keep pump0 (run_stream out c w l))
    = run_stream out c w l.
Proof. intros. apply pump_conserves_proof. Qed.

(** the run builtin restores the listener: over any sequence of runs, with and without callbacks, in any order, the
    project's own listener is the current one at the end and has received exactly the streams of the runs without a
    callback, in order *)
Lemma session_restores_gen : forall (A : Type) (runs : list (bool * list A)) got,
  fold_left (run1 true) runs (LBase, got) = (LBase, got ++ plain_streams runs).
Proof.
  intros A; induction runs as [|[cb evs] runs IH]; intros got; cbn [fold_left].
  - unfold plain_streams. cbn. now rewrite app_nil_r.
  - unfold run1 at 2. cbn [fst snd]. destruct cb.
    + rewrite IH. reflexivity.
    + rewrite IH. unfold plain_streams. cbn [filter fst negb map snd concat]. now rewrite app_assoc.
Qed.

Lemma session_restores_proof : forall (A : Type) (runs : list (bool * list A)),
  session true runs = (LBase, plain_streams runs).
Proof. intros. unfold session. now rewrite session_restores_gen. Qed.

Lemma no_restore_refuted_proof :
  exists runs : list (bool * list bool), snd (session false runs) <> plain_streams runs.
Proof. exists [(true, []); (false, [true])]. discriminate. Qed.
