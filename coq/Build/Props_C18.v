(** C18 — Build events and target output follow a well-formed protocol.  Statements only. *)
From Dawn Require Import Base.Bytes Build.Model Build.Proofs Build.Proofs_Fresh Build.Proofs_Noop Build.LineWriter Build.Stream Build.Proofs_Stream Build.Pump Build.Proofs_Pump.

(** In every build (any mode, any failure pattern, also one cut short by a crash) the events of one label are:
    nothing (never visited, or a dependency failed with an ordinary error), one up-to-date event, evaluating followed by
    exactly one succeeded or failed, a lone failed event (missing dependency), or -- only when the process was killed --
    an evaluating event whose completion was never delivered. *)
Theorem per_label_shape :
  forall c w l0 l, shape_fwd c l (events_of l (o_events (build c w l0))).
Proof. exact Proofs.per_label_shape. Qed.
Print Assumptions per_label_shape.

(** lineWriter: whatever the chunking of the writes, a writer delivers exactly the lines of the concatenated stream,
    each once, in order, and Flush leaves it empty (so a second run through the same writer repeats nothing). *)
Theorem lines_chunking_invariant :
  forall chunks, lw_run [] chunks = ([], lines_of (concat chunks)).
Proof. exact LineWriter.lines_chunking_invariant. Qed.
Print Assumptions lines_chunking_invariant.

Theorem flush_leaves_empty :
  forall buf, fst (lw_flush buf) = [] /\ lw_flush (fst (lw_flush buf)) = ([], []).
Proof. exact LineWriter.flush_leaves_empty. Qed.
Print Assumptions flush_leaves_empty.

Theorem second_run_repeats_nothing :
  forall c1 c2, let (b1, l1) := lw_run [] c1 in lw_run b1 c2 = ([], lines_of (concat c2)).
Proof. exact LineWriter.lw_run_twice. Qed.
Print Assumptions second_run_repeats_nothing.

(** 'evaluating' is reported exactly when the body runs: in a build that is neither dry nor killed, a function target's
    body is executed iff its evaluating event is delivered (in a dry run no body runs at all: C13). *)
Theorem evaluating_iff_body_runs :
  forall c w l0 l, c_dry c = false -> c_crashed c = false ->
    (In l (o_ran (build c w l0)) <->
     (exists d, lookup l (w_proj w) = Some d /\ is_fn d = true) /\ In (EEvaluating l) (o_events (build c w l0))).
Proof. exact Proofs_Noop.evaluating_iff_body_runs. Qed.
Print Assumptions evaluating_iff_body_runs.

(** The complete stream of a build ([run_stream], Build/Stream.v): the target events, after each evaluating event of a
    body that ran the lines its line writer makes of what the body wrote ([out]: any output, any chunking), and the final
    run-done.  Run-done is delivered exactly once, as the very last event, with the result of the requested target. *)
Theorem run_done_once_last :
  forall out c w l,
    exists pre, run_stream out c w l = pre ++ [SRunDone (o_res (build c w l))] /\
                forallb (fun s => negb (is_run_done s)) pre = true.
Proof. exact Proofs_Stream.run_done_once_last. Qed.
Print Assumptions run_done_once_last.

(** Output is delivered as lines exactly once, in order, between evaluating and completion, whatever the chunking of the
    writes: in every build that is not killed the stream of one label is nothing, one up-to-date event, a lone failed
    event, or evaluating, then -- iff the body ran -- exactly the lines of the concatenation of what it wrote, then exactly
    one succeeded or failed event (a failing body's unterminated last line is delivered before its failure event). *)
Theorem output_inside_window :
  forall out c w l0 x,
    c_crashed c = false ->
    let o := build c w l0 in
    let lines := if mem x (o_ran o) then map (SPrint x) (lines_of (concat (out x))) else [] in
    sevents_of x (run_stream out c w l0) = [] \/
    sevents_of x (run_stream out c w l0) = [SEv (EUpToDate x)] \/
    sevents_of x (run_stream out c w l0) = [SEv (EFailed x)] \/
    sevents_of x (run_stream out c w l0) = SEv (EEvaluating x) :: lines ++ [SEv (ESucceeded x)] \/
    sevents_of x (run_stream out c w l0) = SEv (EEvaluating x) :: lines ++ [SEv (EFailed x)].
Proof. exact Proofs_Stream.output_inside_window. Qed.
Print Assumptions output_inside_window.

(** The REPL's listener, run(label, callback=f) (events.go, runEvents; model Build/Pump.v: an unbuffered channel, one
    receiving goroutine that calls f and ignores its result).  Whatever f raises -- [raises] is any predicate on events --
    f is called with the complete stream of the build, in order, and no send is left blocked (so Project.Run returns);
    in particular run-done reaches f exactly once, last, with the build's result, and the events of every label are
    those of the build (so per_label_shape and output_inside_window speak about what f sees). *)
Theorem callback_receives_the_stream :
  forall (raises : sev -> bool) out c w l,
    feed raises true pump0 (run_stream out c w l) = (mkPump true (run_stream out c w l), []).
Proof. exact Proofs_Pump.callback_receives_the_stream_proof. Qed.
Print Assumptions callback_receives_the_stream.

Theorem callback_run_done_once_last :
  forall (raises : sev -> bool) out c w l,
    snd (feed raises true pump0 (run_stream out c w l)) = [] /\
    exists pre, p_seen (fst (feed raises true pump0 (run_stream out c w l))) = pre ++ [SRunDone (o_res (build c w l))] /\
                forallb (fun s => negb (is_run_done s)) pre = true.
Proof. exact Proofs_Pump.callback_run_done_once_last_proof. Qed.
Print Assumptions callback_run_done_once_last.

Theorem callback_label_events :
  forall (raises : sev -> bool) out c w l x,
    sevents_of x (p_seen (fst (feed raises true pump0 (run_stream out c w l)))) = sevents_of x (run_stream out c w l).
Proof. exact Proofs_Pump.callback_label_events_proof. Qed.
Print Assumptions callback_label_events.

(** A receiver that stops at the callback's first error is not this: everything sent after the first raising event is
    never received (its senders block for ever); for a build whose first event makes the callback raise that is the whole
    rest of the stream, run-done included. *)
Theorem stopping_pump_blocks_the_build :
  forall (raises : sev -> bool) out c w l e rest,
    run_stream out c w l = e :: rest -> raises e = true ->
    feed raises false pump0 (run_stream out c w l) = (mkPump false [e], rest).
Proof. exact Proofs_Pump.stopping_pump_blocks_the_build_proof. Qed.
Print Assumptions stopping_pump_blocks_the_build.

Theorem stop_at_first_error_refuted :
  exists (evs : list bool), snd (feed (fun b => b) false pump0 evs) <> [] /\ snd (feed (fun b => b) true pump0 evs) = [].
Proof. exact Proofs_Pump.stop_at_first_error_refuted_proof. Qed.
Print Assumptions stop_at_first_error_refuted.

(** For EVERY receiver policy ([keep] arbitrary: what the receiver does after the callback raised) and every callback:
    what the callback was called with, followed by what was never received, is the build's stream -- nothing lost, repeated,
    reordered or invented; the callback always holds a prefix. *)
Theorem callback_holds_a_prefix :
  forall (raises : sev -> bool) keep out c w l,
    p_seen (fst (feed raises keep pump0 (run_stream out c w l))) ++ snd (feed raises keep pump0 (run_stream out c w l))
    = run_stream out c w l.
Proof. exact Proofs_Pump.callback_holds_a_prefix_proof. Qed.
Print Assumptions callback_holds_a_prefix.

(** a receiver that is still receiving at the end has left no sender blocked, whatever its policy *)
Theorem alive_receiver_blocks_nothing :
  forall (A : Type) (raises : A -> bool) keep evs p,
    p_alive (fst (feed raises keep p evs)) = true -> snd (feed raises keep p evs) = [].
Proof. exact (@Proofs_Pump.feed_alive_nothing_blocked_gen). Qed.
Print Assumptions alive_receiver_blocks_nothing.

(** the complete characterisation of stop_at_first_error_refuted: a stop-at-first-error receiver leaves senders blocked
    exactly when the callback raises for an event that is not the last one sent (for a build: any event but run-done) *)
Theorem stopping_pump_blocks_iff :
  forall (A : Type) (raises : A -> bool) evs,
    snd (feed raises false pump0 evs) = [] <-> forallb (fun x => negb (raises x)) (removelast evs) = true.
Proof. exact (@Proofs_Pump.stopping_pump_blocks_iff_proof). Qed.
Print Assumptions stopping_pump_blocks_iff.

(** The run builtin around the pump (project_builtins.go; model [session]): over ANY sequence of runs, with and without a
    callback, in any order, the project's own listener is the current one at the end and has received exactly the streams of
    the runs without a callback, in order -- a build after run(..., callback=f) reports to the project's listener again.
    Without the restore it does not. *)
Theorem session_restores_the_listener :
  forall (A : Type) (runs : list (bool * list A)), session true runs = (LBase, plain_streams runs).
Proof. exact Proofs_Pump.session_restores_proof. Qed.
Print Assumptions session_restores_the_listener.

Theorem no_restore_refuted :
  exists runs : list (bool * list bool), snd (session false runs) <> plain_streams runs.
Proof. exact Proofs_Pump.no_restore_refuted_proof. Qed.
Print Assumptions no_restore_refuted.

(** non-vacuity: target 1 writes "ab", "\nc" and fails; target 2 is cut off below it *)
Example stream_example :
  let pr := [(1, Fn [] [10] [100] 1 7 false); (2, Fn [1] [] [101] 2 8 false); (10, Src 50)] in
  let w := mkWorld pr [(50, CLit 1)] [] 1 0 [] [] in
  let c := mkCfg false false [1] false [] [] [] in
  run_stream (fun l => if l =? 1 then [[97; 98]; [10; 99]] else []) c w 2 =
  [SEv (EEvaluating 10); SEv (ESucceeded 10); SEv (EEvaluating 1); SPrint 1 [97; 98]; SPrint 1 [99]; SEv (EFailed 1);
   SRunDone RFailDep].
Proof. vm_compute. reflexivity. Qed.

Example lines_example :
  lw_run [] [[97; 98]; [10; 99]; [10; 10; 100]] = ([], [[97; 98]; [99]; []; [100]]).
Proof. vm_compute. reflexivity. Qed.

Example pump_example :
  feed (fun b : bool => b) true pump0 [true; false; true] = (mkPump true [true; false; true], []) /\
  feed (fun b : bool => b) false pump0 [false; true; false; true] = (mkPump false [false; true], [false; true]).
Proof. vm_compute. split; reflexivity. Qed.
