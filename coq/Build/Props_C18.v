(** C18 — Build events and target output follow a well-formed protocol.  Statements only. *)
From Dawn Require Import Base.Bytes Build.Model Build.Proofs Build.Proofs_Fresh Build.Proofs_Noop Build.LineWriter.

(** In every build (any mode, any failure pattern, also one cut short by a crash) the events of one label are:
    nothing (never visited, or a dependency failed with an ordinary error), one up-to-date event, evaluating followed by
    exactly one succeeded or failed, a lone failed event (missing dependency), or -- only when the process was killed --
    an evaluating event whose completion was never delivered. *)
Theorem per_label_shape :
  forall c w l0 l, shape_fwd c l (events_of l (o_events (build c w l0))).
Proof. exact Proofs.per_label_shape. Qed.
Print Assumptions per_label_shape.

(** lineWriter: whatever the chunking of the writes, a writer delivers exactly the lines of the concatenated stream,
    each once, in order, and Flush leaves it empty (so a second run through the same writer repeats nothing). *)
Theorem lines_chunking_invariant :
  forall chunks, lw_run [] chunks = ([], lines_of (concat chunks)).
Proof. exact LineWriter.lines_chunking_invariant. Qed.
Print Assumptions lines_chunking_invariant.

Theorem flush_leaves_empty :
  forall buf, fst (lw_flush buf) = [] /\ lw_flush (fst (lw_flush buf)) = ([], []).
Proof. exact LineWriter.flush_leaves_empty. Qed.
Print Assumptions flush_leaves_empty.

Theorem second_run_repeats_nothing :
  forall c1 c2, let (b1, l1) := lw_run [] c1 in lw_run b1 c2 = ([], lines_of (concat c2)).
Proof. exact LineWriter.lw_run_twice. Qed.
Print Assumptions second_run_repeats_nothing.

(** 'evaluating' is reported exactly when the body runs: in a build that is neither dry nor killed, a function target's
    body is executed iff its evaluating event is delivered (in a dry run no body runs at all: C13). *)
Theorem evaluating_iff_body_runs :
  forall c w l0 l, c_dry c = false -> c_crashed c = false ->
    (In l (o_ran (build c w l0)) <->
     (exists d, lookup l (w_proj w) = Some d /\ is_fn d = true) /\ In (EEvaluating l) (o_events (build c w l0))).
Proof. exact Proofs_Noop.evaluating_iff_body_runs. Qed.
Print Assumptions evaluating_iff_body_runs.

(** NOT YET PROVED as theorems (decided on the implementation by the harness oracles of the same names):
    run_done_once_last (RunDone is emitted by Project.Run after runner.Run returns: outside the engine model),
    prints_inside_window (Print events are produced by the body, outside the model). *)

Example lines_example :
  lw_run [] [[97; 98]; [10; 99]; [10; 10; 100]] = ([], [[97; 98]; [99]; []; [100]]).
Proof. vm_compute. reflexivity. Qed.
