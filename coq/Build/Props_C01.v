(** C01 — Incremental builds are never stale.  Statements only; proofs in Build/Proofs_Fresh.v, Proofs_Stale.v.
    Model: Build/Model.v.  A world carries, besides project, files and persisted records, a GHOST history that the
    decision logic never reads: for every target the snapshot of its last recorded successful execution
    (environment, run ID, the stamp it saw of every dependency). *)
From Dawn Require Import Build.Model Build.Proofs Build.Proofs_Fresh Build.Proofs_Stale.

(** [current w l] (Proofs_Stale.v): l's last recorded execution ran with l's present environment, its declared outputs
    exist, it saw every function dependency exactly as that dependency's own last recorded execution left it (same
    environment and same run ID, i.e. the dependency has not executed since), and every source with its present content. *)

(** After ANY history of edits, builds (full or of sub-targets, failing, killed at any point, dry, always-runs) and
    collections, a build that is neither dry nor killed and in which every visited target succeeded leaves every target
    it visited -- the whole dependency closure of the requested one -- current. *)
Theorem never_stale :
  forall h c l,
    let w := run_history h in
    c_dry c = false -> c_crashed c = false -> link_ok (w_proj w) = true ->
    let o := build c w l in
    (forall x v, lookup x (o_vis o) = Some v -> v_res v = ROk) ->
    forall x v, lookup x (o_vis o) = Some v -> current (o_w o) x.
Proof. exact Proofs_Stale.never_stale. Qed.
Print Assumptions never_stale.

(** The ghost history and the persisted records agree in every reachable world: a success record of a function target
    is exactly the snapshot of its last recorded execution. *)
Theorem records_tell_the_truth :
  forall h l r e, let w := run_history h in
    lookup l (w_recs w) = Some r -> r_data r = DEnv e ->
    lookup l (w_last w) = Some (mkSnap e (r_run r) (r_deps r)).
Proof. intros h l r e. exact (Proofs_Stale.history_ginv h l r e). Qed.
Print Assumptions records_tell_the_truth.

(** Run IDs identify executions: in every reachable world every ID in the ghost history is below the counter, and a
    recorded execution takes the counter's value and increments it -- so when a dependency executes again it gets an ID
    that no snapshot holds, and a dependent that compares equal stamps has seen that very execution. *)
Theorem run_ids_below_counter :
  forall h l sn, lookup l (w_last (run_history h)) = Some sn -> s_run sn < w_nextrun (run_history h).
Proof. intros h. exact (Proofs_Stale.history_runs_below h). Qed.
Print Assumptions run_ids_below_counter.

Theorem executed_run_is_fresh :
  forall c w l deps srcs gens env k alw vs w' v evs,
    step_target c w l (Fn deps srcs gens env k alw) (rec_of w l) vs = (w', v, evs, true) -> v_res v = ROk ->
    lookup l (w_last w') = Some (mkSnap env (w_nextrun w) (map (fun lv => (fst lv, stamp_of (snd lv))) vs)) /\
    w_nextrun w' = w_nextrun w + 1.
Proof. exact Proofs_Stale.executed_run_is_fresh. Qed.
Print Assumptions executed_run_is_fresh.

(** The invariant behind it: in a run that is neither dry nor killed, every successfully visited target's record is
    fresh -- it names the present stamp of each dependency, matches the target's environment (or the source's content),
    is not marked for re-run, and the target's outputs exist. *)
Theorem successful_visits_are_fresh :
  forall c pr order s,
    c_dry c = false -> c_crashed c = false -> link_ok pr = true ->
    finv pr s -> finv pr (fold_left (eval1 c) order s).
Proof. exact Proofs_Fresh.fold_finv. Qed.
Print Assumptions successful_visits_are_fresh.

(** NOT YET PROVED as a theorem: incremental_eq_clean (the generated files equal those of a from-scratch build of the
    same tree).  It is decided on the implementation after every successful build of every history by the harness oracle
    "C01 stale: ... differs from a from-scratch build". *)

(** non-vacuity, and the scenario that was stale before the fix 33bea66: c depends on a; a's source is edited; a is
    built on its own; then c is built -- c must execute (run IDs differ although a's environment is unchanged) *)
Example partial_build_example :
  let pr := [(1, Fn [] [10] [100] 1 7 false); (3, Fn [1] [] [101] 3 9 false); (10, Src 50)] in
  let c := mkCfg false false [] false [] [] [] in
  let h := [OSetProj pr; OSetFile 50 (Some (CLit 1)); OBuild c 3; OSetFile 50 (Some (CLit 2)); OBuild c 1] in
  let o := build c (run_history h) 3 in
  o_ran o = [3] /\ forallb (fun lv => result_ok (v_res (snd lv))) (o_vis o) = true /\
  link_ok (w_proj (run_history h)) = true.
Proof. vm_compute. repeat split. Qed.
