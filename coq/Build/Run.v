(** History evaluation for the engine correspondence check (C01, C02, C03, C13, C14, C18). *)
From Dawn Require Import Build.Model.

Inductive obs :=
| ObsNone
| ObsBuild (ok : bool) (ran : list label) (events : list (label * list N)) (recs : list (label * (bool * bool)))
| ObsBuildNoRecs (ok : bool) (ran : list label) (events : list (label * list N))
| ObsCrash (recs : list (label * (bool * bool)))
| ObsGC (recs : list (label * (bool * bool))).

Fixpoint insert_sorted (x : N) (l : list N) : list N :=
  match l with
  | [] => [x]
  | y :: r => if x <=? y then x :: l else y :: insert_sorted x r
  end.
Definition sortN (l : list N) : list N := fold_right insert_sorted [] l.

Fixpoint list_eqb {A} (eqb : A -> A -> bool) (a b : list A) : bool :=
  match a, b with
  | [], [] => true
  | x :: a', y :: b' => eqb x y && list_eqb eqb a' b'
  | _, _ => false
  end.

Definition ev_label (e : event) : label :=
  match e with EUpToDate l | EEvaluating l | ESucceeded l | EFailed l => l end.
Definition ev_kind (e : event) : N :=
  match e with EUpToDate _ => 0 | EEvaluating _ => 1 | ESucceeded _ => 2 | EFailed _ => 3 end.

Fixpoint dedup (l : list N) : list N :=
  match l with
  | [] => []
  | x :: r => if mem x r then dedup r else x :: dedup r
  end.

(** per-label projections of an event list, labels in increasing order *)
Definition events_by_label (evs : list event) : list (label * list N) :=
  map (fun l => (l, map ev_kind (filter (fun e => ev_label e =? l) evs)))
      (sortN (dedup (map ev_label evs))).

Definition rec_listing (w : world) : list (label * (bool * bool)) :=
  let ls := sortN (dedup (map fst (w_recs w))) in
  map (fun l => let r := rec_of w l in
                (l, (r_rerun r, match r_data r with DEmpty => false | _ => true end))) ls.

Definition bb_eqb (a b : bool * bool) : bool := Bool.eqb (fst a) (fst b) && Bool.eqb (snd a) (snd b).
Definition lrec_eqb (a b : label * (bool * bool)) : bool := (fst a =? fst b) && bb_eqb (snd a) (snd b).
Definition lev_eqb (a b : label * list N) : bool := (fst a =? fst b) && list_eqb N.eqb (snd a) (snd b).

(** component codes: 1 bad order, 2 result, 3 executed set, 4 events, 5 record listing *)
Definition check_step (w : world) (o : op) (ob : obs) : world * list N :=
  match o, ob with
  | OBuild c l, ObsBuild ok ran events recs =>
      let out := build c w l in
      let w' := o_w out in
      (w',
       (if o_bad out then [1] else []) ++
       (if Bool.eqb (result_ok (o_res out)) ok then [] else [2]) ++
       (if list_eqb N.eqb (sortN (o_ran out)) ran then [] else [3]) ++
       (if list_eqb lev_eqb (events_by_label (o_events out)) events then [] else [4]) ++
       (if list_eqb lrec_eqb (rec_listing w') recs then [] else [5]))
  | OBuild c l, ObsBuildNoRecs ok ran events =>
      let out := build c w l in
      (o_w out,
       (if o_bad out then [1] else []) ++
       (if Bool.eqb (result_ok (o_res out)) ok then [] else [2]) ++
       (if list_eqb N.eqb (sortN (o_ran out)) ran then [] else [3]) ++
       (if list_eqb lev_eqb (events_by_label (o_events out)) events then [] else [4]))
  | OBuild c l, ObsCrash recs =>
      let out := build c w l in
      let w' := o_w out in
      (w', (if o_bad out then [1] else []) ++
           (if list_eqb N.eqb (sortN (o_ran out)) (sortN (c_ran c)) then [] else [3]) ++
           (if list_eqb lrec_eqb (rec_listing w') recs then [] else [5]))
  | OGC, ObsGC recs =>
      let w' := gc w in
      (w', if list_eqb lrec_eqb (rec_listing w') recs then [] else [5])
  | _, _ => (apply_op w o, [])
  end.

(** returns [] when the whole history agrees, else [index of the first disagreeing op; component codes...] *)
Fixpoint check_history (i : N) (w : world) (h : list (op * obs)) : list N :=
  match h with
  | [] => []
  | (o, ob) :: r =>
      let (w', bad) := check_step w o ob in
      match bad with
      | [] => check_history (i + 1) w' r
      | _ => i :: bad
      end
  end.

(** what the model computes for one step, for diagnostics *)
Definition explain (w : world) (o : op) : list N * list (label * list N) * list (label * (bool * bool)) :=
  match o with
  | OBuild c l => let out := build c w l in (sortN (o_ran out), events_by_label (o_events out), rec_listing (o_w out))
  | _ => ([], [], rec_listing (apply_op w o))
  end.

Fixpoint world_at (n : nat) (w : world) (h : list (op * obs)) : world :=
  match n, h with
  | O, _ => w
  | S k, (o, _) :: r => world_at k (apply_op w o) r
  | S _, [] => w
  end.

From Dawn Require Import Build.CleanCheck.
(** after the marker 777777: for every history that does not satisfy the hypotheses of C01's incremental_eq_clean
    ([hist_okb]), its index and the reasons ([hist_why]), closed by 999999 *)
Definition check_all (hs : list (N * list (op * obs))) : list N :=
  flat_map (fun h => match check_history 0 init_world (snd h) with
                     | [] => []
                     | r => fst h :: r ++ [999999]
                     end) hs ++
  777777 :: flat_map (fun h => match dedup (hist_why (map fst (snd h))) with
                               | [] => []
                               | r => fst h :: r ++ [999999]
                               end) hs.

(** lineWriter cases: two write+flush rounds through one writer *)
From Dawn Require Import Build.LineWriter.
Definition lw_case_ok (c1 : list (list N)) (l1 : list (list N)) (c2 : list (list N)) (l2 : list (list N)) : bool :=
  let (b1, m1) := lw_run [] c1 in
  let (_, m2) := lw_run b1 c2 in
  list_eqb (list_eqb N.eqb) m1 l1 && list_eqb (list_eqb N.eqb) m2 l2.
Definition lw_mismatches (cs : list (N * (list (list N) * list (list N) * list (list N) * list (list N)))) : list N :=
  map fst (filter (fun ic => match snd ic with (c1, l1, c2, l2) => negb (lw_case_ok c1 l1 c2 l2) end) cs).
