(** C02 at the level of whole builds (fresh process = load + run). *)
From Dawn Require Import Build.Model Build.Proofs Build.Proofs_Sim Build.Proofs_Fresh.

Definition succeeded_everywhere (o : outcome) (order : list label) : Prop :=
  forall x, In x order -> exists v, lookup x (o_vis o) = Some v /\
  forall y v', lookup y (o_vis o) = Some v' -> v_res v' = ROk.

Lemma fold_proj c order s : w_proj (b_w (fold_left (eval1 c) order s)) = w_proj (b_w s).
Proof.
  revert s; induction order as [|l order IH]; intros s; simpl; [reflexivity|].
  rewrite IH. unfold eval1.
  destruct (lookup l (b_vis s)); [reflexivity|].
  destruct (lookup l (w_proj (b_w s))) as [d|]; [|reflexivity].
  destruct (dep_visits (b_vis s) (deps_of (w_proj (b_w s)) d)) as [vs|]; [|reflexivity].
  destruct (step_target c (b_w s) l d (rec_of (b_w s) l) vs) as [[[w' v] evs] ran] eqn:Hst.
  destruct (step_target_frame _ _ _ _ _ _ _ _ _ _ Hst) as (Hp & _). exact Hp.
Qed.

Lemma sim_load w : sim (load w) w.
Proof.
  split; [reflexivity|split; [reflexivity|split; [reflexivity|]]].
  intros l _. apply rec_of_load.
Qed.

(** C02: a build in which every target of the closure was visited successfully, followed -- in a fresh process, with
    nothing changed -- by a plain build of the same label: no body is executed, every event is "up to date", and the
    persisted state is unchanged as far as any build can tell ([sim]).  Hypotheses: the first build is neither a dry run
    nor a killed one; the project has no always-targets; the evaluation order is a topological order of the closure
    (checked by [topo_ok]; the order [order_of] computes is one for every acyclic project, see the Example). *)
Theorem noop_rebuild c c0 w l :
  c_dry c = false -> c_crashed c = false ->
  c_always c0 = false -> c_dry c0 = false -> c_crashed c0 = false ->
  link_ok (w_proj w) = true ->
  topo_ok (w_proj w) [] (order_of (w_proj w) l) = true ->
  (forall x d, lookup x (w_proj w) = Some d -> is_always d = false) ->
  let o1 := build c w l in
  (forall x, In x (order_of (w_proj w) l) -> exists v, lookup x (o_vis o1) = Some v) ->
  (forall x v, lookup x (o_vis o1) = Some v -> v_res v = ROk) ->
  let o2 := build c0 (o_w o1) l in
  o_ran o2 = [] /\ (forall e, In e (o_events o2) -> exists x, e = EUpToDate x) /\ o_bad o2 = false /\
  sim (o_w o2) (o_w o1).
Proof.
  intros Hdry Hcr Hal0 Hdry0 Hcr0 Hlink Htopo Hnoalw. cbv zeta.
  assert (Eb : build c w l = run_order c (load w) (order_of (w_proj w) l) l) by (apply build_nocrash; assumption).
  rewrite Eb. clear Eb. intros Hdom Hok.
  set (order := order_of (w_proj w) l) in *.
  set (s1 := fold_left (eval1 c) order (mkB (load w) [] [] [] false)).
  change (o_w (run_order c (load w) order l)) with (b_w s1).
  change (o_vis (run_order c (load w) order l)) with (b_vis s1) in Hdom, Hok.
  assert (Hp1 : w_proj (b_w s1) = w_proj w) by (unfold s1; rewrite fold_proj; reflexivity).
  assert (Eb2 : build c0 (b_w s1) l = run_order c0 (load (b_w s1)) order l).
  { rewrite build_nocrash; [rewrite Hp1; reflexivity|exact Hcr0|rewrite Hp1; exact Hlink]. }
  rewrite Eb2. clear Eb2.
  (* the second process loads first; loading is invisible to the run *)
  destruct (run_order_sim c0 (load (b_w s1)) (b_w s1) order l (sim_load (b_w s1))) as (He & Hr & _ & Hb & Hs).
  destruct (noop_rerun c c0 (load w) order l Hdry Hcr Hal0 Hdry0 Hcr0) as (H1 & H2 & H3 & H4); try assumption.
  fold s1 in H1, H2, H3, H4.
  rewrite He, Hr, Hb. split; [exact H1|split; [exact H4|split; [exact H3|]]].
  rewrite H2 in Hs. exact Hs.
Qed.

(** ** C18: 'evaluating' is reported exactly when the body runs *)
Lemma step_target_ran c w l d r vs w' v evs ran :
  step_target c w l d r vs = (w', v, evs, ran) ->
  (ran = true -> is_fn d = true /\ In (EEvaluating l) evs) /\
  (c_dry c = false -> c_crashed c = false -> is_fn d = true -> In (EEvaluating l) evs -> ran = true).
Proof.
  unfold step_target.
  destruct (first_failure vs) as [[]|];
    try (intros H; inversion H; subst; split; [discriminate|intros _ _ _ Hin; simpl in Hin; intuition discriminate]).
  destruct (negb (c_always c) && deps_up_to_date r vs && up_to_date w d r &&
            negb (r_rerun r || match d with Fn _ _ _ _ _ a => a | Src _ => false end)).
  { intros H; inversion H; subst; split; [discriminate|intros _ _ _ Hin; simpl in Hin; intuition discriminate]. }
  destruct (c_dry c).
  { intros H; inversion H; subst; split; [discriminate|intros Hd; discriminate]. }
  destruct d as [deps srcs gens env k alw|p].
  - destruct (c_crashed c && negb (mem l (c_ran c))) eqn:Hcr.
    { intros H; inversion H; subst; split; [discriminate|].
      intros _ Hc. rewrite Hc in Hcr. discriminate. }
    destruct (mem l (c_fail c)).
    + intros H; inversion H; subst. split; [intros _; split; [reflexivity|simpl; auto]|reflexivity].
    + destruct (c_crashed c && negb (mem l (c_recorded c))); intros H; inversion H; subst;
        (split; [intros _; split; [reflexivity|simpl; auto]|reflexivity]).
  - destruct (c_crashed c && negb (mem l (c_recorded c))); intros H; inversion H; subst;
      (split; [discriminate|intros _ _ Hf; simpl in Hf; discriminate]).
Qed.

Definition ran_inv (c : bcfg) (s : bstate) : Prop :=
  forall l, In l (b_ran s) <->
            (exists d, lookup l (w_proj (b_w s)) = Some d /\ is_fn d = true) /\ In (EEvaluating l) (b_events s).

Lemma in_events_of l e evs : ev_label e = l -> (In e evs <-> In e (events_of l evs)).
Proof.
  intros H. unfold events_of. rewrite filter_In. rewrite H, N.eqb_refl. intuition.
Qed.

Lemma eval1_ran_inv c s l0 :
  c_dry c = false -> c_crashed c = false ->
  ev_inv c s -> ran_inv c s -> ran_inv c (eval1 c s l0).
Proof.
  intros Hdry Hcr Hev Hran.
  destruct (lookup l0 (b_vis s)) as [v0|] eqn:Hv0.
  { rewrite (eval1_visited _ _ _ _ Hv0). exact Hran. }
  unfold eval1. rewrite Hv0.
  destruct (lookup l0 (w_proj (b_w s))) as [d0|] eqn:Hd0.
  2:{ unfold finish. intros l. cbn [b_ran b_events b_w app]. apply Hran. }
  destruct (dep_visits (b_vis s) (deps_of (w_proj (b_w s)) d0)) as [vs|]; [|intros l; apply Hran].
  destruct (step_target c (b_w s) l0 d0 (rec_of (b_w s) l0) vs) as [[[w' v] evs] ran] eqn:Hst.
  destruct (step_target_frame _ _ _ _ _ _ _ _ _ _ Hst) as (Hproj & _ & _).
  pose proof (step_target_shape _ _ _ _ _ _ _ _ _ _ Hst) as Hsh.
  pose proof (shape_labels _ _ _ Hsh) as Hlab.
  destruct (step_target_ran _ _ _ _ _ _ _ _ _ _ Hst) as (Hr1 & Hr2).
  destruct (Hev l0) as [_ Hnone]. specialize (Hnone Hv0).
  unfold finish. intros l. cbn [b_ran b_events b_w]. rewrite Hproj.
  destruct (N.eq_dec l l0) as [->|Hne].
  - (* the evaluated label *)
    assert (Hnoold : ~ In (EEvaluating l0) (b_events s)).
    { intros Hin. apply (in_events_of l0 (EEvaluating l0) _ eq_refl) in Hin. rewrite Hnone in Hin. destruct Hin. }
    assert (Hnotran : ~ In l0 (b_ran s)).
    { intros Hin. apply Hran in Hin. destruct Hin as [_ Hin]. exact (Hnoold Hin). }
    split.
    + intros Hin. destruct ran.
      * destruct (Hr1 eq_refl) as [Hfn Hine]. split; [exists d0; split; assumption|apply in_or_app; left; exact Hine].
      * exfalso. exact (Hnotran Hin).
    + intros [(d & Hd & Hfn) Hin]. rewrite Hd0 in Hd. inversion Hd; subst d.
      apply in_app_or in Hin. destruct Hin as [Hin|Hin]; [|exfalso; exact (Hnoold Hin)].
      rewrite (Hr2 Hdry Hcr Hfn Hin). left; reflexivity.
  - (* another label: its events and membership are untouched *)
    assert (Hev' : In (EEvaluating l) (evs ++ b_events s) <-> In (EEvaluating l) (b_events s)).
    { split; [|intros H; apply in_or_app; right; exact H].
      intros H. apply in_app_or in H. destruct H as [H|H]; [|exact H].
      exfalso. apply Hne. exact (Hlab _ H). }
    rewrite Hev'. rewrite <- (Hran l).
    destruct ran; [|reflexivity]. split; [intros [E|H]; [congruence|exact H]|intros H; right; exact H].
Qed.

Lemma fold_ran_inv c order s :
  c_dry c = false -> c_crashed c = false ->
  ev_inv c s -> ran_inv c s -> ran_inv c (fold_left (eval1 c) order s).
Proof.
  intros Hdry Hcr. revert s; induction order as [|l order IH]; intros s He Hr; simpl; [exact Hr|].
  apply IH; [apply eval1_ev_inv; exact He|apply eval1_ran_inv; assumption].
Qed.

(** in a build that is neither dry nor killed, a function target's body runs exactly when its evaluating event is
    delivered *)
Theorem evaluating_iff_body_runs c w l0 l :
  c_dry c = false -> c_crashed c = false ->
  (In l (o_ran (build c w l0)) <->
   (exists d, lookup l (w_proj w) = Some d /\ is_fn d = true) /\ In (EEvaluating l) (o_events (build c w l0))).
Proof.
  intros Hdry Hcr. unfold build. rewrite load_proj.
  destruct (link_ok (w_proj w)).
  2:{ cbn [o_ran o_events]. split; [intros []|intros [_ []]]. }
  unfold run_order; cbn [o_ran o_events].
  assert (H0e : ev_inv c (mkB (load w) [] [] [] false)) by (intros x; simpl; split; [constructor|reflexivity]).
  assert (H0r : ran_inv c (mkB (load w) [] [] [] false)) by (intros x; simpl; split; [intros []|intros [_ []]]).
  pose proof (fold_ran_inv c (order_of (w_proj w) l0) _ Hdry Hcr H0e H0r l) as H.
  rewrite fold_proj in H. cbn [b_w] in H. rewrite load_proj in H.
  rewrite <- !in_rev. exact H.
Qed.
