(** C02 at the level of whole builds (fresh process = load + run). *)
From Dawn Require Import Build.Model Build.Proofs Build.Proofs_Sim Build.Proofs_Fresh.

Definition succeeded_everywhere (o : outcome) (order : list label) : Prop :=
  forall x, In x order -> exists v, lookup x (o_vis o) = Some v /\
  forall y v', lookup y (o_vis o) = Some v' -> v_res v' = ROk.

Lemma fold_proj c order s : w_proj (b_w (fold_left (eval1 c) order s)) = w_proj (b_w s).
Proof.
  revert s; induction order as [|l order IH]; intros s; simpl; [reflexivity|].
  rewrite IH. unfold eval1.
  destruct (lookup l (b_vis s)); [reflexivity|].
  destruct (lookup l (w_proj (b_w s))) as [d|]; [|reflexivity].
  destruct (dep_visits (b_vis s) (deps_of (w_proj (b_w s)) d)) as [vs|]; [|reflexivity].
  destruct (step_target c (b_w s) l d (rec_of (b_w s) l) vs) as [[[w' v] evs] ran] eqn:Hst.
  destruct (step_target_frame _ _ _ _ _ _ _ _ _ _ Hst) as (Hp & _). exact Hp.
Qed.

Lemma sim_load w : sim (load w) w.
Proof.
  split; [reflexivity|split; [reflexivity|split; [reflexivity|]]].
  intros l _. apply rec_of_load.
Qed.

(** C02: a build in which every target of the closure was visited successfully, followed -- in a fresh process, with
    nothing changed -- by a plain build of the same label: no body is executed, every event is "up to date", and the
    persisted state is unchanged as far as any build can tell ([sim]).  Hypotheses: the first build is neither a dry run
    nor a killed one; the project has no always-targets; the evaluation order is a topological order of the closure
    (checked by [topo_ok]; the order [order_of] computes is one for every acyclic project, see the Example). *)
Theorem noop_rebuild c c0 w l :
  c_dry c = false -> c_crashed c = false ->
  c_always c0 = false -> c_dry c0 = false -> c_crashed c0 = false ->
  link_ok (w_proj w) = true ->
  topo_ok (w_proj w) [] (order_of (w_proj w) l) = true ->
  (forall x d, lookup x (w_proj w) = Some d -> is_always d = false) ->
  let o1 := build c w l in
  (forall x, In x (order_of (w_proj w) l) -> exists v, lookup x (o_vis o1) = Some v) ->
  (forall x v, lookup x (o_vis o1) = Some v -> v_res v = ROk) ->
  let o2 := build c0 (o_w o1) l in
  o_ran o2 = [] /\ (forall e, In e (o_events o2) -> exists x, e = EUpToDate x) /\ o_bad o2 = false /\
  sim (o_w o2) (o_w o1).
Proof.
  intros Hdry Hcr Hal0 Hdry0 Hcr0 Hlink Htopo Hnoalw. cbv zeta.
  assert (Eb : build c w l = run_order c (load w) (order_of (w_proj w) l) l).
  { unfold build. rewrite load_proj, Hlink. reflexivity. }
  rewrite Eb. clear Eb. intros Hdom Hok.
  set (order := order_of (w_proj w) l) in *.
  set (s1 := fold_left (eval1 c) order (mkB (load w) [] [] [] false)).
  change (o_w (run_order c (load w) order l)) with (b_w s1).
  change (o_vis (run_order c (load w) order l)) with (b_vis s1) in Hdom, Hok.
  assert (Hp1 : w_proj (b_w s1) = w_proj w) by (unfold s1; rewrite fold_proj; reflexivity).
  assert (Eb2 : build c0 (b_w s1) l = run_order c0 (load (b_w s1)) order l).
  { unfold build. rewrite load_proj, Hp1, Hlink. reflexivity. }
  rewrite Eb2. clear Eb2.
  (* the second process loads first; loading is invisible to the run *)
  destruct (run_order_sim c0 (load (b_w s1)) (b_w s1) order l (sim_load (b_w s1))) as (He & Hr & _ & Hb & Hs).
  destruct (noop_rerun c c0 (load w) order l Hdry Hcr Hal0 Hdry0 Hcr0) as (H1 & H2 & H3 & H4); try assumption.
  fold s1 in H1, H2, H3, H4.
  rewrite He, Hr, Hb. split; [exact H1|split; [exact H4|split; [exact H3|]]].
  rewrite H2 in Hs. exact Hs.
Qed.
