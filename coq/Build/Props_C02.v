(** C02 — No spurious rebuilds.  Statements only; proofs in Build/Proofs_Fresh.v, Proofs_Noop.v, Proofs_Sim.v. *)
From Dawn Require Import Build.Model Build.Proofs Build.Proofs_Sim Build.Proofs_Fresh Build.Proofs_Noop Build.Proofs_Dry Build.Proofs_Closure.

(** Rebuilding an unchanged tree executes nothing: after a build (any mode but dry, any failing-body set, not killed) in
    which every target of the requested closure was visited successfully, a plain build of the same label in a fresh
    process executes no body, reports every visited target up to date, and leaves the persisted state as it was
    (up to the load's invisible refresh).  For projects without always-targets (those run by definition). *)
Theorem noop_rebuild :
  forall c c0 w l,
    c_dry c = false -> c_crashed c = false ->
    c_always c0 = false -> c_dry c0 = false -> c_crashed c0 = false ->
    link_ok (w_proj w) = true ->
    topo_ok (w_proj w) [] (order_of (w_proj w) l) = true ->
    (forall x d, lookup x (w_proj w) = Some d -> is_always d = false) ->
    let o1 := build c w l in
    (forall x, In x (order_of (w_proj w) l) -> exists v, lookup x (o_vis o1) = Some v) ->
    (forall x v, lookup x (o_vis o1) = Some v -> v_res v = ROk) ->
    let o2 := build c0 (o_w o1) l in
    o_ran o2 = [] /\ (forall e, In e (o_events o2) -> exists x, e = EUpToDate x) /\ o_bad o2 = false /\
    sim (o_w o2) (o_w o1).
Proof. exact Proofs_Noop.noop_rebuild. Qed.
Print Assumptions noop_rebuild.

(** The persisted state is read only through the records of labels that exist, the files and the project: whatever else
    differs between two trees (records of removed labels, stray temporaries, ghost history) cannot change a build. *)
Theorem builds_depend_only_on_live_state :
  forall c w1 w2 l, sim w1 w2 ->
    o_events (build c w1 l) = o_events (build c w2 l) /\ o_ran (build c w1 l) = o_ran (build c w2 l) /\
    o_res (build c w1 l) = o_res (build c w2 l) /\ o_bad (build c w1 l) = o_bad (build c w2 l) /\
    sim (o_w (build c w1 l)) (o_w (build c w2 l)).
Proof. exact Proofs_Sim.build_sim. Qed.
Print Assumptions builds_depend_only_on_live_state.

(** The load that starts every process rewrites function-target records with what it read: invisible and idempotent. *)
Theorem load_refresh_invisible : forall w l, rec_of (load w) l = rec_of w l.
Proof. exact Proofs.rec_of_load. Qed.
Print Assumptions load_refresh_invisible.

(** Edits outside the dependency closure are invisible: two trees that agree on what the closure L of the requested
    target mentions -- the definitions and dependency lists of the labels in L (L closed under dependencies), their
    records, the files at their source and output paths, the run-ID counter ([csim]) -- evaluate every order inside L
    identically: same visits, events, executed bodies, result.  Other packages' targets and build files, other source
    files and other records may differ arbitrarily. *)
Theorem irrelevant_edit :
  forall c L w1 w2 order l,
    csim L w1 w2 -> (forall x, In x order -> In x L) ->
    let o1 := run_order c w1 order l in
    let o2 := run_order c w2 order l in
    o_events o1 = o_events o2 /\ o_ran o1 = o_ran o2 /\ o_res o1 = o_res o2 /\ o_vis o1 = o_vis o2 /\
    csim L (o_w o1) (o_w o2).
Proof. exact Proofs_Closure.irrelevant_edit. Qed.
Print Assumptions irrelevant_edit.

(** In the model a file is its content and a function environment is the number the harness assigns to its semantic text,
    so timestamp-only touches, same-content rewrites and comment/whitespace edits are the identity on worlds; that the
    implementation behaves like the model on exactly those edits is what the correspondence check and the "C02" oracle
    of the engine harness decide. *)

(** non-vacuity: a three-target project with a generated file consumed as a source; first build runs everything,
    the rebuild runs nothing *)
Example noop_example :
  let pr := [(1, Fn [] [10] [100] 1 7 false); (2, Fn [1] [11] [101] 2 8 false); (3, Fn [2; 1] [] [] 3 9 false);
             (10, Src 50); (11, Src 100)] in
  let w := mkWorld pr [(50, CLit 1)] [] 1 0 [] [] in
  let c := mkCfg false false [] false [] [] [] in
  let o1 := build c w 3 in
  link_ok pr = true /\ topo_ok pr [] (order_of pr 3) = true /\
  o_ran o1 = [1; 2; 3] /\ forallb (fun lv => result_ok (v_res (snd lv))) (o_vis o1) = true /\
  o_ran (build c (o_w o1) 3) = [].
Proof. vm_compute. repeat split. Qed.
