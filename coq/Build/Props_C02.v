From Dawn Require Import Build.Model.
Theorem build_total_C02 : forall c w l, exists o, build c w l = o.
Proof. intros; eexists; reflexivity. Qed.
Print Assumptions build_total_C02.
