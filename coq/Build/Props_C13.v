(** C13 — A dry run has no effects and predicts the real build.  Statements only; proofs in Build/Proofs.v.
    Model: Build/Model.v ([build] = a fresh process: load, then run; [c_dry] = RunOptions.DryRun). *)
From Dawn Require Import Build.Model Build.Proofs Build.Proofs_Fresh Build.Proofs_Dry.

(** A dry Run executes no body and leaves the whole world (project files and persisted records) exactly as the
    load that precedes it left it. *)
Theorem dry_run_no_effects :
  forall c w order l, c_dry c = true ->
    o_w (run_order c w order l) = w /\ o_ran (run_order c w order l) = [].
Proof. exact Proofs.dry_run_no_effects. Qed.
Print Assumptions dry_run_no_effects.

(** For the whole process (load + dry run): the only state change is the load's refresh of function-target records,
    which is idempotent and invisible to builds ([rec_of_load]). *)
Theorem dry_build_no_effects :
  forall c w l, c_dry c = true -> o_w (build c w l) = load w /\ o_ran (build c w l) = [].
Proof. exact Proofs.dry_build_no_effects. Qed.
Print Assumptions dry_build_no_effects.

Theorem load_refresh_invisible : forall w l, rec_of (load w) l = rec_of w l.
Proof. exact Proofs.rec_of_load. Qed.
Print Assumptions load_refresh_invisible.

Theorem load_refresh_idempotent : forall w, load (load w) = load w.
Proof. exact Proofs.load_idem. Qed.
Print Assumptions load_refresh_idempotent.

(** A dry run never changes what the next build (any mode, any label) does: same outcome, same final world. *)
Theorem dry_run_transparent :
  forall c c' w l l', c_dry c = true -> build c' (o_w (build c w l)) l' = build c' w l'.
Proof. exact Proofs.dry_run_transparent. Qed.
Print Assumptions dry_run_transparent.

(** The dry run reports exactly the targets a real build of the same tree attempts.  For EVERY target that the real build
    (same always-option, same failing bodies, same tree) did not cut off because one of its dependencies failed -- it
    succeeded, or its own body failed, or it was never visited ([attempted]) -- the label has an evaluating event in the
    dry run iff it has one in the real build: the two reports are identical apart from targets downstream of a failure.
    Hypotheses: no two targets generate the same path ([gens_unique]); at most one generator per registered source
    ([link_ok], otherwise the load fails). *)
Theorem dry_run_predicts_attempted :
  forall c w l,
    c_dry c = false -> c_crashed c = false -> link_ok (w_proj w) = true -> gens_unique (w_proj w) ->
    let real := build c w l in
    let dry := build (dry_of c) w l in
    forall x, attempted (o_vis real) x ->
      (In (EEvaluating x) (o_events dry) <-> In (EEvaluating x) (o_events real)).
Proof. exact Proofs_Dry.dry_run_predicts_attempted. Qed.
Print Assumptions dry_run_predicts_attempted.

(** ... in particular for every target when the real build visits every target successfully. *)
Theorem dry_run_predicts :
  forall c w l,
    c_dry c = false -> c_crashed c = false -> link_ok (w_proj w) = true -> gens_unique (w_proj w) ->
    let real := build c w l in
    let dry := build (dry_of c) w l in
    (forall x v, lookup x (o_vis real) = Some v -> v_res v = ROk) ->
    forall x, In (EEvaluating x) (o_events dry) <-> In (EEvaluating x) (o_events real).
Proof. exact Proofs_Dry.dry_run_predicts. Qed.
Print Assumptions dry_run_predicts.

(** non-vacuity of the failing case: the body of 1 fails; the real build attempts the source and 1 and cuts 2 off; the
    dry run reports 10, 1 and also 2 (which WOULD run) -- they differ exactly on the target downstream of the failure *)
Example dry_run_failing_example :
  let pr := [(1, Fn [] [10] [100] 1 7 false); (2, Fn [1] [] [101] 2 8 false); (10, Src 50)] in
  let w := mkWorld pr [(50, CLit 1)] [] 1 0 [] [] in
  let c := mkCfg false false [1] false [] [] [] in
  let real := build c w 2 in
  let dry := build (dry_of c) w 2 in
  map (fun lv => (fst lv, v_res (snd lv))) (o_vis real) = [(2, RFailDep); (1, RFailBody); (10, ROk)] /\
  filter (fun e => match e with EEvaluating _ => true | _ => false end) (o_events real) = [EEvaluating 10; EEvaluating 1] /\
  filter (fun e => match e with EEvaluating _ => true | _ => false end) (o_events dry) = [EEvaluating 10; EEvaluating 1; EEvaluating 2].
Proof. vm_compute. repeat split. Qed.

(** non-vacuity: a two-target world in which the dry run reports work and changes nothing *)
Example dry_run_example :
  let pr := [(1, Fn [] [10] [100] 1 7 false); (2, Fn [1] [] [101] 2 8 false); (10, Src 50)] in
  let w := mkWorld pr [(50, CLit 1)] [] 1 0 [] [] in
  let o := build (mkCfg false true [] false [] [] []) w 2 in
  o_ran o = [] /\ o_w o = load w /\
  o_events o = [EEvaluating 10; ESucceeded 10; EEvaluating 1; ESucceeded 1; EEvaluating 2; ESucceeded 2].
Proof. vm_compute. repeat split. Qed.
