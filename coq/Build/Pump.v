(** C18, the REPL's listener: runEvents (events.go).  Every Events method of a runEvents SENDS the event over an unbuffered
    channel; one goroutine ([process]) receives and calls the Starlark callback.  A send returns only when the goroutine has
    received it, so the sender (a target's goroutine, Project.Run for run-done) blocks for ever once nobody receives.
    The model: the receiver's state (still receiving? what the callback has been called with, in order) and the senders'
    events fed one by one; [feed] returns the state and the events that were never received (empty = every send returned,
    Project.Run returns).  [keep] is the policy after a callback error: dawn ignores the callback's result ([keep = true]). *)
From Coq Require Import List Bool NArith.
Import ListNotations.

Section Pump.
  Context {A : Type}.
  Variable raises : A -> bool.        (* the callback raises an error when called with this event *)

  Record pump := mkPump { p_alive : bool; p_seen : list A }.
  Definition pump0 : pump := mkPump true [].

  Definition recv (keep : bool) (p : pump) (e : A) : option pump :=
    if p_alive p then Some (mkPump (keep || negb (raises e)) (p_seen p ++ [e])) else None.

  Fixpoint feed (keep : bool) (p : pump) (evs : list A) : pump * list A :=
    match evs with
    | [] => (p, [])
    | e :: rest => match recv keep p e with
                   | Some p' => feed keep p' rest
                   | None => (p, evs)
                   end
    end.

  Lemma feed_keep_gen : forall evs seen,
    feed true (mkPump true seen) evs = (mkPump true (seen ++ evs), []).
  Proof.
    induction evs as [|e rest IH]; intros seen; cbn [feed recv p_alive p_seen].
    - now rewrite app_nil_r.
    - cbn [orb]. rewrite IH, <- app_assoc. reflexivity.
  Qed.

  (** dawn's pump: whatever the callback raises, it is called with every event, in order, and no send blocks *)
  Lemma pump_delivers_all_proof : forall evs, feed true pump0 evs = (mkPump true evs, []).
  Proof. intros evs. unfold pump0. now rewrite feed_keep_gen. Qed.

  Lemma feed_dead : forall keep seen evs, feed keep (mkPump false seen) evs = (mkPump false seen, match evs with [] => [] | _ => evs end).
  Proof. intros keep seen [|e r]; reflexivity. Qed.

  Lemma feed_stop_gen : forall pre seen e post,
    forallb (fun x => negb (raises x)) pre = true -> raises e = true ->
    feed false (mkPump true seen) (pre ++ e :: post) = (mkPump false (seen ++ pre ++ [e]), post).
  Proof.
    induction pre as [|x pre IH]; intros seen e post Hpre He; cbn [app feed recv p_alive p_seen orb].
    - rewrite He. cbn [negb]. rewrite feed_dead. destruct post; reflexivity.
    - cbn [forallb] in Hpre. apply andb_true_iff in Hpre as [Hx Hpre]. rewrite Hx.
      rewrite (IH (seen ++ [x]) e post Hpre He), <- app_assoc. reflexivity.
  Qed.

  (** a pump that stops receiving at the callback's first error: everything after the first raising event is never
      received -- its senders block --, exactly *)
  Lemma pump_stopping_blocks_proof : forall pre e post,
    forallb (fun x => negb (raises x)) pre = true -> raises e = true ->
    feed false pump0 (pre ++ e :: post) = (mkPump false (pre ++ [e]), post).
  Proof. intros. unfold pump0. now rewrite feed_stop_gen. Qed.
End Pump.

(** correspondence: per run of the harness the pattern of raising events (in sending order), the number of events the
    callback was called with and the number of events never received (0 when run(...) returned) *)
Definition pump_case_ok (c : list bool * (N * N)) : bool :=
  let '(bits, (got, blocked)) := c in
  let '(p, rest) := feed (fun b : bool => b) true pump0 bits in
  (N.of_nat (length (p_seen p)) =? got)%N && (N.of_nat (length rest) =? blocked)%N.

Definition pump_mismatches (cs : list (N * (list bool * (N * N)))) : list N :=
  map fst (filter (fun ic => negb (pump_case_ok (snd ic))) cs).

(** The run builtin around the pump (project_builtins.go): a run with a callback swaps the project's listener for a fresh
    pump and -- [restore] -- puts the previous listener back when the run returns; the pump is closed by then.  A run
    without a callback reports to the current listener; a closed pump receives nothing (the send panics).  State: the
    current listener and what the project's own listener has received so far; a run is (has a callback?, its stream). *)
Inductive lst := LBase | LClosed.

Section Session.
  Context {A : Type}.
  Definition run1 (restore : bool) (st : lst * list A) (r : bool * list A) : lst * list A :=
    let '(cur, got) := st in
    if fst r then ((if restore then cur else LClosed), got)
    else match cur with LBase => (LBase, got ++ snd r) | LClosed => (LClosed, got) end.
  Definition session (restore : bool) (runs : list (bool * list A)) : lst * list A :=
    fold_left (run1 restore) runs (LBase, []).
  Definition plain_streams (runs : list (bool * list A)) : list A :=
    concat (map snd (filter (fun r => negb (fst r)) runs)).
End Session.

(** correspondence: per scenario of the harness its runs (callback?, events sent) and the number of events the project's
    own listener received over the whole scenario *)
Definition session_case_ok (c : list (bool * N) * N) : bool :=
  let runs := map (fun r : bool * N => (fst r, repeat tt (N.to_nat (snd r)))) (fst c) in
  (N.of_nat (length (snd (session true runs))) =? snd c)%N.

Definition session_mismatches (cs : list (N * (list (bool * N) * N))) : list N :=
  map fst (filter (fun ic => negb (session_case_ok (snd ic))) cs).
