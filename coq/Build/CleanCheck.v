(** Executable side of C01's "incremental = clean" theorem (Build/Proofs_Clean.v): what a body reads, the behaviour
    table a history induces, and a boolean check of the theorem's hypotheses, so that the correspondence run can report
    how many of the histories it drives through the implementation the theorem speaks about.  No proofs in this file. *)
From Dawn Require Import Build.Model.

(** what a body reads, with the label each path belongs to: its sources, then the generated files of its dependencies *)
Definition reads (pr : project) (deps srcs : list label) : list (label * path) :=
  flat_map (fun s => map (pair s) (src_path pr s)) srcs ++ flat_map (fun d => map (pair d) (gens_of pr d)) deps.

(** in a killed build: the body of [l] ran and its final record was never written *)
Definition Sc (c : bcfg) (l : label) : bool := c_crashed c && mem l (c_ran c) && negb (mem l (c_recorded c)).

Definition entry := (N * list (label * path) * list path)%type.
Definition entry0 : entry := (0, [], []).

(** the behaviour table of a list of projects: the first project that defines (label, environment) decides *)
Fixpoint table_of (prs : list project) (l : label) (e : N) : entry :=
  match prs with
  | [] => entry0
  | pr :: rest =>
      match lookup l pr with
      | Some (Fn deps srcs gens e' k _) => if e' =? e then (k, reads pr deps srcs, gens) else table_of rest l e
      | _ => table_of rest l e
      end
  end.

Fixpoint list_eqb {A} (eqb : A -> A -> bool) (a b : list A) : bool :=
  match a, b with
  | [], [] => true
  | x :: a', y :: b' => eqb x y && list_eqb eqb a' b'
  | _, _ => false
  end.

Definition pair_eqb (a b : N * N) : bool := (fst a =? fst b) && (snd a =? snd b).

Definition entry_eqb (a b : entry) : bool :=
  (fst (fst a) =? fst (fst b)) && list_eqb pair_eqb (snd (fst a)) (snd (fst b)) && list_eqb N.eqb (snd a) (snd b).

Definition conformsb (T : label -> N -> entry) (pr : project) : bool :=
  forallb (fun lt => match lookup (fst lt) pr with
                     | Some (Fn deps srcs gens e k _) => entry_eqb (T (fst lt) e) (k, reads pr deps srcs, gens)
                     | _ => true
                     end) pr.

Definition dom1 (pr : project) : list (label * N) :=
  flat_map (fun lt => match snd lt with Fn _ _ _ e _ _ => [(fst lt, e)] | Src _ => [] end) pr.
Definition dom (prs : list project) : list (label * N) := flat_map dom1 prs.

Definition disjointb (g1 g2 : list path) : bool := forallb (fun p => negb (mem p g2)) g1.

Definition owner_uniqueb (prs : list project) : bool :=
  let T := table_of prs in
  forallb (fun a => forallb (fun b => (fst a =? fst b) || disjointb (snd (T (fst a) (snd a))) (snd (T (fst b) (snd b))))
                            (dom prs)) (dom prs).

Definition unownedb (prs : list project) (p : path) : bool :=
  forallb (fun a => negb (mem p (snd (table_of prs (fst a) (snd a))))) (dom prs).

Definition crash_wfb (c : bcfg) : bool := forallb (fun x => negb (Sc c x) || mem x (c_premarked c)) (c_ran c).

Definition op_okb (prs : list project) (o : op) : bool :=
  match o with
  | OSetProj pr => conformsb (table_of prs) pr
  | OSetFile p (Some _) => unownedb prs p
  | OSetFile _ None => true
  | OBuild c _ => crash_wfb c
  | OGC => true
  end.

Definition projects_of (h : list op) : list project :=
  flat_map (fun o => match o with OSetProj pr => [pr] | _ => [] end) h.

(** the hypotheses of [incremental_eq_clean] about a history, as a boolean *)
Definition hist_okb (h : list op) : bool :=
  let prs := projects_of h in owner_uniqueb prs && forallb (op_okb prs) h.

(** why not: 1 a path has two generating labels, 2 a project does not conform to the table (one environment, two
    behaviours), 3 an edit writes a generated path, 4 a body ran in a killed build with neither its final record nor the
    re-run mark *)
Definition hist_why (h : list op) : list N :=
  let prs := projects_of h in
  (if owner_uniqueb prs then [] else [1]) ++
  flat_map (fun o => if op_okb prs o then []
                     else match o with OSetProj _ => [2] | OSetFile _ _ => [3] | OBuild _ _ => [4] | OGC => [5] end) h.
