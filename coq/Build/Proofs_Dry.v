(** C13: a dry run reports exactly the targets a real build of the same tree attempts (everything the real build did not cut off below a failure). *)
From Dawn Require Import Build.Model Build.Proofs Build.Proofs_Fresh Build.Proofs_Noop.

(** every generated path has one generator *)
Definition gens_unique (pr : project) : Prop :=
  forall l1 l2 d1 d2 p, lookup l1 pr = Some d1 -> lookup l2 pr = Some d2 ->
    mem p (def_gens d1) = true -> mem p (def_gens d2) = true -> l1 = l2.

(** visits persist *)
Lemma eval1_vis_persist c s l0 l v : lookup l (b_vis s) = Some v -> lookup l (b_vis (eval1 c s l0)) = Some v.
Proof.
  intros H. destruct (lookup l0 (b_vis s)) as [v0|] eqn:Hv0.
  { rewrite (eval1_visited _ _ _ _ Hv0). exact H. }
  destruct (eval1_shape c s l0 Hv0) as [->|(w' & v' & evs & ran & -> & _)]; [exact H|].
  unfold finish; cbn [b_vis]. rewrite lookup_update_other; [exact H|]. intros ->. congruence.
Qed.

Lemma fold_vis_persist c order s l v :
  lookup l (b_vis s) = Some v -> lookup l (b_vis (fold_left (eval1 c) order s)) = Some v.
Proof.
  revert s; induction order as [|l0 order IH]; intros s H; simpl; [exact H|]. apply IH, eval1_vis_persist, H.
Qed.

Definition dry_of (c : bcfg) : bcfg := mkCfg (c_always c) true (c_fail c) false [] [] [].

(** [l] was not cut off by a failed dependency in the real run: unvisited, succeeded, or its own body failed *)
Definition attempted (vis : list (label * visit)) (l : label) : Prop :=
  forall v, lookup l vis = Some v -> v_res v = ROk \/ v_res v = RFailBody.

Record psim (pr : project) (w : world) (sd sr : bstate) : Prop := {
  ps_wd : b_w sd = w;
  ps_pr : w_proj (b_w sr) = pr;
  ps_dom : forall l, lookup l (b_vis sd) = None <-> lookup l (b_vis sr) = None;
  ps_vis : forall l vd vr, lookup l (b_vis sd) = Some vd -> lookup l (b_vis sr) = Some vr -> v_res vr = ROk ->
             v_res vd = ROk /\ v_changed vd = v_changed vr /\
             (v_changed vd = false -> stamp_of vd = stamp_of vr);
  ps_rec : forall l, lookup l (b_vis sr) = None -> rec_of (b_w sr) l = rec_of w l;
  ps_files : forall p, lookup p (w_files (b_w sr)) = lookup p (w_files w) \/
               exists l d vr, lookup l pr = Some d /\ mem p (def_gens d) = true /\
                              lookup l (b_vis sr) = Some vr /\ v_changed vr = true;
  ps_ev : forall l, attempted (b_vis sr) l ->
             (In (EEvaluating l) (b_events sd) <-> In (EEvaluating l) (b_events sr));
  ps_bad : b_bad sd = b_bad sr
}.

(** dependency visits of the two runs correspond when the real run's all succeeded *)
Lemma first_failure_none' vs : first_failure vs = None -> forall o v, In (o, v) vs -> v_res v = ROk.
Proof.
  induction vs as [|[x vx] vs IH]; simpl; intros H o v Hin; [destruct Hin|].
  destruct (v_res vx) eqn:E; simpl in H; try discriminate.
  destruct Hin as [Heq|Hin]; [inversion Heq; subst; exact E|apply (IH H o v Hin)].
Qed.

Lemma dep_visits_psim pr w sd sr dl vsd vsr :
  psim pr w sd sr ->
  dep_visits (b_vis sd) dl = Some vsd -> dep_visits (b_vis sr) dl = Some vsr ->
  first_failure vsr = None ->
  first_failure vsd = None /\
  forall r, deps_up_to_date r vsd = deps_up_to_date r vsr.
Proof.
  intros P Hd0 Hr0 Hff0.
  assert (Hlab : map fst vsd = map fst vsr).
  { rewrite (dep_visits_labels _ _ _ Hd0), (dep_visits_labels _ _ _ Hr0). reflexivity. }
  enough (H : first_failure vsd = None /\ forall r, deps_match r vsd = deps_match r vsr).
  { destruct H as [H1 H2]. split; [exact H1|]. intros r. unfold deps_up_to_date, no_removed_deps.
    rewrite (H2 r), Hlab. reflexivity. }
  clear Hlab. revert vsd vsr Hd0 Hr0 Hff0.
  induction dl as [|x dl IH]; intros vsd vsr Hd Hr Hff; simpl in Hd, Hr.
  - inversion Hd; inversion Hr; subst. split; reflexivity.
  - destruct (lookup x (b_vis sd)) as [vd|] eqn:Hxd; [|discriminate].
    destruct (lookup x (b_vis sr)) as [vr|] eqn:Hxr; [|discriminate].
    destruct (dep_visits (b_vis sd) dl) as [vsd'|]; [|discriminate].
    destruct (dep_visits (b_vis sr) dl) as [vsr'|]; [|discriminate].
    inversion Hd; inversion Hr; subst.
    assert (Okr : v_res vr = ROk) by (apply (first_failure_none' _ Hff x vr); left; reflexivity).
    assert (Hff' : first_failure vsr' = None) by (simpl in Hff; rewrite Okr in Hff; exact Hff).
    destruct (IH vsd' vsr' eq_refl eq_refl Hff') as (F1 & F3).
    destruct (ps_vis _ _ _ _ P x vd vr Hxd Hxr Okr) as (Okd & Hch & Hst).
    simpl. rewrite Okd. simpl. split; [exact F1|].
    intros r. unfold deps_match in *. cbn [forallb fst snd]. rewrite (F3 r). f_equal.
    destruct (lookup x (r_deps r)) as [prev|]; [|reflexivity].
    rewrite <- Hch. destruct (v_changed vd) eqn:E; simpl.
    + rewrite !andb_false_r. reflexivity.
    + rewrite (Hst eq_refl). reflexivity.
Qed.

Lemma dep_visits_dom pr w sd sr dl :
  psim pr w sd sr -> (dep_visits (b_vis sd) dl = None <-> dep_visits (b_vis sr) dl = None).
Proof.
  intros P. induction dl as [|x dl IH]; simpl; [split; discriminate|].
  pose proof (ps_dom _ _ _ _ P x) as Hx.
  destruct (lookup x (b_vis sd)) as [vd|] eqn:Hd; destruct (lookup x (b_vis sr)) as [vr|] eqn:Hr.
  - destruct (dep_visits (b_vis sd) dl), (dep_visits (b_vis sr) dl); try (split; discriminate); try tauto.
    + destruct IH as [_ IH2]. specialize (IH2 eq_refl). discriminate.
    + destruct IH as [IH1 _]. specialize (IH1 eq_refl). discriminate.
  - destruct Hx as [_ Hx]. specialize (Hx eq_refl). discriminate.
  - destruct Hx as [Hx _]. specialize (Hx eq_refl). discriminate.
  - tauto.
Qed.

(** the decision of one target, in any uncrashed mode *)
Definition skip_cond (c : bcfg) (w : world) (d : tdef) (r : rec) (vs : list (label * visit)) : bool :=
  negb (c_always c) && deps_up_to_date r vs && up_to_date w d r && negb (r_rerun r || is_always d).

Lemma step_target_cases c w l d r vs w' v evs ran :
  c_crashed c = false -> first_failure vs = None ->
  step_target c w l d r vs = (w', v, evs, ran) ->
  (skip_cond c w d r vs = true /\ w' = w /\ v = mkVisit false (r_data r) (r_run r) ROk /\ evs = [EUpToDate l]) \/
  (skip_cond c w d r vs = false /\ In (EEvaluating l) evs /\
   (c_dry c = true -> w' = w /\ v = mkVisit true (r_data r) (r_run r) ROk) /\
   (v_res v = ROk -> v_changed v = true)).
Proof.
  intros Hcr Hff. unfold step_target, skip_cond. rewrite Hff, Hcr. cbn [andb].
  fold (is_always d).
  destruct (negb (c_always c) && deps_up_to_date r vs && up_to_date w d r && negb (r_rerun r || is_always d)).
  { intros Hst; inversion Hst; subst. left. repeat split. }
  destruct (c_dry c).
  { intros Hst; inversion Hst; subst. right. split; [reflexivity|]. split; [simpl; auto|].
    split; [intros _; split; reflexivity|reflexivity]. }
  destruct d as [deps srcs gens env k alw|p].
  - destruct (mem l (c_fail c)); intros Hst; inversion Hst; subst; right; (split; [reflexivity|]);
      (split; [simpl; auto|split; [discriminate|simpl; try discriminate; reflexivity]]).
  - intros Hst; inversion Hst; subst. right. split; [reflexivity|]. split; [simpl; auto|]. split; [discriminate|reflexivity].
Qed.

Lemma forallb_ext_in' {A} (f g : A -> bool) l : (forall x, In x l -> f x = g x) -> forallb f l = forallb g l.
Proof.
  induction l as [|x l IH]; intros H; simpl; [reflexivity|].
  rewrite (H x (or_introl eq_refl)), IH; [reflexivity|]. intros y Hy. apply H; right; exact Hy.
Qed.

Lemma mem_In_rev x l : In x l -> mem x l = true.
Proof. intros H. unfold mem. apply existsb_exists. exists x. split; [exact H|apply N.eqb_refl]. Qed.

(** the two worlds give the same up-to-date answer for an unvisited target whose dependencies are all unchanged *)
Lemma up_to_date_psim pr w sd sr l d vsr :
  psim pr w sd sr -> link_ok pr = true -> gens_unique pr ->
  lookup l pr = Some d -> lookup l (b_vis sr) = None ->
  dep_visits (b_vis sr) (deps_of pr d) = Some vsr ->
  (forall dl vd, In (dl, vd) vsr -> v_changed vd = false) ->
  up_to_date (b_w sr) d (rec_of w l) = up_to_date w d (rec_of w l).
Proof.
  intros P Hlink Hgu Hd Hl Hvs Hunch.
  unfold up_to_date. destruct d as [deps srcs gens env k alw|p].
  - destruct alw; [reflexivity|]. destruct (r_data (rec_of w l)); try reflexivity. f_equal.
    unfold gens_exist. apply forallb_ext_in'. intros q Hq.
    destruct (ps_files _ _ _ _ P q) as [->|(l' & d' & vr & Hl' & Hmem & Hv & _)]; [reflexivity|].
    exfalso. assert (E : l' = l).
    { apply (Hgu l' l d' (Fn deps srcs gens env k false) q Hl' Hd Hmem). simpl. apply mem_In_rev. exact Hq. }
    subst l'. congruence.
  - unfold file_sum.
    destruct (ps_files _ _ _ _ P p) as [->|(l' & d' & vr & Hl' & Hmem & Hv & Hch)]; [reflexivity|].
    exfalso. pose proof (generator_unique pr l' d' l p Hlink Hd Hl' Hmem) as Hg.
    rewrite Hg in Hvs. cbn [dep_visits] in Hvs. rewrite Hv in Hvs. inversion Hvs; subst.
    specialize (Hunch l' vr (or_introl eq_refl)). congruence.
Qed.

Lemma psim_witness_persist pr sr l v p :
  lookup l (b_vis sr) = None ->
  (exists l' d' vr, lookup l' pr = Some d' /\ mem p (def_gens d') = true /\
                    lookup l' (b_vis sr) = Some vr /\ v_changed vr = true) ->
  exists l' d' vr, lookup l' pr = Some d' /\ mem p (def_gens d') = true /\
                   lookup l' (update l v (b_vis sr)) = Some vr /\ v_changed vr = true.
Proof.
  intros Hl (l' & d' & vr & H1 & H2 & H3 & H4). exists l', d', vr. repeat split; try assumption.
  rewrite lookup_update_other; [exact H3|]. intros ->. congruence.
Qed.

Lemma in_evaluating_other l x evs rest :
  (forall e, In e evs -> ev_label e = l) -> x <> l ->
  (In (EEvaluating x) (evs ++ rest) <-> In (EEvaluating x) rest).
Proof.
  intros Hlab Hne. split; [|intros H; apply in_or_app; right; exact H].
  intros H. apply in_app_or in H. destruct H as [H|H]; [|exact H].
  exfalso. apply Hne. exact (Hlab _ H).
Qed.

Lemma step_target_depfail c w l d r vs f w' v evs ran :
  first_failure vs = Some f -> step_target c w l d r vs = (w', v, evs, ran) ->
  w' = w /\ (v_res v = RFailDep \/ v_res v = RCut).
Proof.
  unfold step_target. intros ->. destruct f; intros H; inversion H; subst; split; try reflexivity; simpl; auto.
Qed.

Lemma step_target_files_fail c w l d r vs w' v evs ran :
  c_crashed c = false -> step_target c w l d r vs = (w', v, evs, ran) -> v_res v <> ROk -> w_files w' = w_files w.
Proof.
  intros Hcr. unfold step_target. rewrite Hcr. cbn [andb].
  destruct (first_failure vs) as [[]|]; try (intros H _; inversion H; subst; reflexivity).
  destruct (negb (c_always c) && deps_up_to_date r vs && up_to_date w d r &&
            negb (r_rerun r || match d with Fn _ _ _ _ _ a => a | Src _ => false end)).
  { intros H _; inversion H; subst; reflexivity. }
  destruct (c_dry c). { intros H _; inversion H; subst; reflexivity. }
  destruct d as [deps srcs gens env k alw|p].
  - destruct (mem l (c_fail c)); intros H Hne; inversion H; subst; [reflexivity|]. simpl in Hne. contradiction.
  - intros H Hne; inversion H; subst. reflexivity.
Qed.

Lemma attempted_update_other vis l v x : x <> l -> (attempted (update l v vis) x <-> attempted vis x).
Proof. intros Hne. unfold attempted. rewrite (lookup_update_other _ _ _ _ Hne). reflexivity. Qed.

Lemma eval1_psim c pr w sd sr l :
  c_dry c = false -> c_crashed c = false -> link_ok pr = true -> gens_unique pr -> w_proj w = pr ->
  psim pr w sd sr ->
  psim pr w (eval1 (dry_of c) sd l) (eval1 c sr l).
Proof.
  intros Hdry Hcr Hlink Hgu Hwpr P.
  destruct (lookup l (b_vis sr)) as [v0|] eqn:Hlr.
  { assert (Hld : lookup l (b_vis sd) <> None).
    { intros E. apply (ps_dom _ _ _ _ P l) in E. congruence. }
    destruct (lookup l (b_vis sd)) as [vd0|] eqn:Hld'; [|contradiction].
    rewrite (eval1_visited _ _ _ _ Hlr), (eval1_visited _ _ _ _ Hld'). exact P. }
  assert (Hld : lookup l (b_vis sd) = None) by (apply (ps_dom _ _ _ _ P l); exact Hlr).
  (* the generic reconstruction of the invariant after a step of [l]: the dry side never changes its world *)
  assert (Hgen : forall vd ed rand wr' vr er ranr,
            w_proj wr' = w_proj (b_w sr) ->
            (forall x, x <> l -> rec_of wr' x = rec_of (b_w sr) x) ->
            (forall p, lookup p (w_files wr') = lookup p (w_files (b_w sr)) \/
                       (mem p (match lookup l pr with Some d => def_gens d | None => [] end) = true /\ v_res vr = ROk /\ v_changed vr = true)) ->
            (forall e, In e ed -> ev_label e = l) -> (forall e, In e er -> ev_label e = l) ->
            (v_res vr = ROk -> v_res vd = ROk /\ v_changed vd = v_changed vr /\ (v_changed vd = false -> stamp_of vd = stamp_of vr)) ->
            (v_res vr = ROk \/ v_res vr = RFailBody -> (In (EEvaluating l) ed <-> In (EEvaluating l) er)) ->
            psim pr w (finish sd w l vd ed rand) (finish sr wr' l vr er ranr)).
  { intros vd ed rand wr' vr er ranr Fproj Frec Ffiles Labd Labr Hv Hev.
    unfold finish. destruct P as [P1 P2 P3 P4 P5 P6 P7 P8].
    constructor; cbn [b_w b_vis b_events b_bad]; try assumption; try reflexivity.
    - rewrite Fproj. exact P2.
    - intros x. destruct (N.eq_dec x l) as [->|Hne].
      + rewrite !lookup_update_same. split; discriminate.
      + rewrite !(lookup_update_other _ _ _ _ Hne). apply P3.
    - intros x vdx vrx. destruct (N.eq_dec x l) as [->|Hne].
      + rewrite !lookup_update_same. intros E1 E2. inversion E1; inversion E2; subst. exact Hv.
      + rewrite !(lookup_update_other _ _ _ _ Hne). apply P4.
    - intros x Hx. destruct (N.eq_dec x l) as [->|Hne]; [rewrite lookup_update_same in Hx; discriminate|].
      rewrite (lookup_update_other _ _ _ _ Hne) in Hx. rewrite (Frec x Hne). apply P5. exact Hx.
    - intros p. destruct (Ffiles p) as [E|(Hmem & Hokr & Hch)].
      + rewrite E. destruct (P6 p) as [E'|Wit]; [left; exact E'|right; apply psim_witness_persist; assumption].
      + right. destruct (lookup l pr) as [d|] eqn:Hd; [|simpl in Hmem; discriminate].
        exists l, d, vr. repeat split; try assumption. apply lookup_update_same.
    - intros x Hx. destruct (N.eq_dec x l) as [->|Hne].
      + assert (Hat : v_res vr = ROk \/ v_res vr = RFailBody) by (apply (Hx vr); apply lookup_update_same).
        specialize (Hev Hat).
        assert (Hno_d : ~ In (EEvaluating l) (b_events sd) -> ~ In (EEvaluating l) (b_events sr) -> True) by auto.
        split; intros H; apply in_app_or in H; apply in_or_app.
        * destruct H as [H|H]; [left; apply Hev; exact H|right; apply (P7 l); [|exact H]].
          intros v Hv0. congruence.
        * destruct H as [H|H]; [left; apply Hev; exact H|right; apply (P7 l); [|exact H]].
          intros v Hv0. congruence.
      + apply (proj1 (attempted_update_other _ l vr x Hne)) in Hx.
        rewrite (in_evaluating_other l x ed _ Labd Hne), (in_evaluating_other l x er _ Labr Hne). apply P7. exact Hx. }
  unfold eval1. rewrite Hlr, Hld, (ps_wd _ _ _ _ P), (ps_pr _ _ _ _ P), Hwpr.
  destruct (lookup l pr) as [d|] eqn:Hd.
  2:{ apply Hgen.
      - reflexivity.
      - intros x _. reflexivity.
      - intros p; left; reflexivity.
      - intros e [].
      - intros e [].
      - simpl. discriminate.
      - simpl. intros [H|H]; discriminate. }
  pose proof (dep_visits_dom pr w sd sr (deps_of pr d) P) as Hdom.
  destruct (dep_visits (b_vis sd) (deps_of pr d)) as [vsd|] eqn:Hvsd;
    destruct (dep_visits (b_vis sr) (deps_of pr d)) as [vsr|] eqn:Hvsr.
  2:{ destruct Hdom as [_ Hx]. specialize (Hx eq_refl). discriminate. }
  2:{ destruct Hdom as [Hx _]. specialize (Hx eq_refl). discriminate. }
  2:{ destruct P. constructor; cbn [b_w b_vis b_events b_bad]; try assumption; try reflexivity. }
  rewrite (ps_rec _ _ _ _ P l Hlr).
  set (r := rec_of w l).
  destruct (step_target (dry_of c) w l d r vsd) as [[[wd' vd] ed] rand] eqn:Hsd.
  destruct (step_target c (b_w sr) l d r vsr) as [[[wr' vr] er] ranr] eqn:Hsr.
  assert (Hwd : wd' = w) by (apply (step_target_dry (dry_of c) w l d r vsd wd' vd ed rand eq_refl Hsd)).
  subst wd'.
  pose proof (step_target_shape _ _ _ _ _ _ _ _ _ _ Hsd) as Shd.
  pose proof (step_target_shape _ _ _ _ _ _ _ _ _ _ Hsr) as Shr.
  pose proof (shape_labels _ _ _ Shd) as Labd. pose proof (shape_labels _ _ _ Shr) as Labr.
  destruct (step_target_frame _ _ _ _ _ _ _ _ _ _ Hsr) as (Fproj & Frec & Ffiles).
  destruct (first_failure vsr) as [f|] eqn:Ffr.
  { (* a dependency failed in the real run: [l] is cut off there *)
    destruct (step_target_depfail _ _ _ _ _ _ _ _ _ _ _ Ffr Hsr) as [-> Hres].
    apply Hgen.
    - reflexivity.
    - intros x _. reflexivity.
    - intros p; left; reflexivity.
    - exact Labd.
    - exact Labr.
    - intros Hok. destruct Hres as [E|E]; rewrite E in Hok; discriminate.
    - intros [Hok|Hok]; destruct Hres as [E|E]; rewrite E in Hok; discriminate. }
  destruct (dep_visits_psim pr w sd sr _ _ _ P Hvsd Hvsr Ffr) as (Ffd & Hdu).
  (* the two runs take the same decision *)
  assert (Hcond : skip_cond (dry_of c) w d r vsd = skip_cond c (b_w sr) d r vsr).
  { unfold skip_cond, r. cbn [dry_of c_always]. rewrite (Hdu (rec_of w l)).
    destruct (deps_up_to_date (rec_of w l) vsr) eqn:Hdur; [|rewrite !andb_false_r; reflexivity].
    assert (Hunch : forall dl vd0, In (dl, vd0) vsr -> v_changed vd0 = false).
    { intros dl vd0 Hin. unfold deps_up_to_date in Hdur. apply andb_prop in Hdur. destruct Hdur as [Hdur _].
      unfold deps_match in Hdur. rewrite forallb_forall in Hdur.
      specialize (Hdur (dl, vd0) Hin). cbn [fst snd] in Hdur.
      destruct (lookup dl (r_deps (rec_of w l))); [|discriminate].
      apply andb_prop in Hdur. destruct Hdur as [_ Hn]. apply negb_true_iff in Hn. exact Hn. }
    rewrite (up_to_date_psim pr w sd sr l d vsr P Hlink Hgu Hd Hlr Hvsr Hunch). reflexivity. }
  destruct (step_target_cases (dry_of c) w l d r vsd w vd ed rand eq_refl Ffd Hsd)
    as [(Cd & _ & Evd0 & Eed)|(Cd & Evd & Dryd & _)];
  destruct (step_target_cases c (b_w sr) l d r vsr wr' vr er ranr Hcr Ffr Hsr)
    as [(Cr & Ewr & Evr0 & Eer)|(Cr & Evr & _ & Chr)]; try congruence.
  - (* both up to date *)
    subst. apply Hgen.
    + reflexivity.
    + intros x _. reflexivity.
    + intros p; left; reflexivity.
    + exact Labd.
    + exact Labr.
    + intros _. cbn [v_res v_changed stamp_of v_data v_run]. repeat split.
    + intros _. reflexivity.
  - (* both evaluate; the real body may fail *)
    destruct (Dryd eq_refl) as [_ ->].
    apply Hgen.
    + exact Fproj.
    + exact Frec.
    + intros p. destruct (result_ok (v_res vr)) eqn:Hrk.
      * assert (Hokr : v_res vr = ROk) by (destruct (v_res vr); simpl in Hrk; try discriminate; reflexivity).
        destruct (Ffiles p) as [E|[Hmem _]]; [left; exact E|]. right.
        split; [exact Hmem|split; [exact Hokr|apply Chr; exact Hokr]].
      * left. rewrite (step_target_files_fail c (b_w sr) l d r vsr wr' vr er ranr Hcr Hsr); [reflexivity|].
        intros E. rewrite E in Hrk. discriminate.
    + exact Labd.
    + exact Labr.
    + intros Hokr. cbn [v_res v_changed]. split; [reflexivity|split; [symmetry; apply Chr; exact Hokr|discriminate]].
    + intros _. split; intros _; assumption.
Qed.

Lemma fold_psim c pr w order : forall sd sr,
  c_dry c = false -> c_crashed c = false -> link_ok pr = true -> gens_unique pr -> w_proj w = pr ->
  psim pr w sd sr ->
  psim pr w (fold_left (eval1 (dry_of c)) order sd) (fold_left (eval1 c) order sr).
Proof.
  induction order as [|l order IH]; intros sd sr Hdry Hcr Hlink Hgu Hw P; simpl; [exact P|].
  apply IH; try assumption. apply eval1_psim; assumption.
Qed.

(** C13: the dry run reports 'evaluating' for exactly the targets the real build of the same tree attempts -- for every
    target that the real build did not cut off because one of its dependencies failed (it succeeded, or its own body
    failed, or it is outside the closure). Targets downstream of a failure are the only ones on which the two differ. *)
Theorem dry_run_predicts_attempted c w l :
  c_dry c = false -> c_crashed c = false -> link_ok (w_proj w) = true -> gens_unique (w_proj w) ->
  let real := build c w l in
  let dry := build (dry_of c) w l in
  forall x, attempted (o_vis real) x ->
    (In (EEvaluating x) (o_events dry) <-> In (EEvaluating x) (o_events real)).
Proof.
  intros Hdry Hcr Hlink Hgu. cbv zeta. unfold build. rewrite load_proj, Hlink.
  rewrite (premark_nocrash c _ Hcr), (premark_dry (dry_of c) _ eq_refl).
  unfold run_order; cbn [o_vis o_events]. intros x Hx.
  assert (P0 : psim (w_proj w) (load w) (mkB (load w) [] [] [] false) (mkB (load w) [] [] [] false)).
  { constructor; cbn [b_w b_vis b_events b_bad]; try reflexivity.
    - intros y vd vr H. simpl in H. discriminate.
    - intros p. left. reflexivity. }
  pose proof (fold_psim c (w_proj w) (load w) (order_of (w_proj w) l) _ _ Hdry Hcr Hlink Hgu (load_proj w) P0) as P.
  rewrite <- !in_rev. apply (ps_ev _ _ _ _ P x). exact Hx.
Qed.

(** ... in particular, when the real build visits every target successfully, for every target *)
Theorem dry_run_predicts c w l :
  c_dry c = false -> c_crashed c = false -> link_ok (w_proj w) = true -> gens_unique (w_proj w) ->
  let real := build c w l in
  let dry := build (dry_of c) w l in
  (forall x v, lookup x (o_vis real) = Some v -> v_res v = ROk) ->
  forall x, In (EEvaluating x) (o_events dry) <-> In (EEvaluating x) (o_events real).
Proof.
  intros Hdry Hcr Hlink Hgu real dry Hok x.
  apply (dry_run_predicts_attempted c w l Hdry Hcr Hlink Hgu x). intros v Hv. left. apply (Hok x v Hv).
Qed.
