(** C13: a dry run reports exactly the targets a real build of the same tree attempts (when the real build succeeds). *)
From Dawn Require Import Build.Model Build.Proofs Build.Proofs_Fresh Build.Proofs_Noop.

(** every generated path has one generator *)
Definition gens_unique (pr : project) : Prop :=
  forall l1 l2 d1 d2 p, lookup l1 pr = Some d1 -> lookup l2 pr = Some d2 ->
    mem p (def_gens d1) = true -> mem p (def_gens d2) = true -> l1 = l2.

(** visits persist *)
Lemma eval1_vis_persist c s l0 l v : lookup l (b_vis s) = Some v -> lookup l (b_vis (eval1 c s l0)) = Some v.
Proof.
  intros H. destruct (lookup l0 (b_vis s)) as [v0|] eqn:Hv0.
  { rewrite (eval1_visited _ _ _ _ Hv0). exact H. }
  destruct (eval1_shape c s l0 Hv0) as [->|(w' & v' & evs & ran & -> & _)]; [exact H|].
  unfold finish; cbn [b_vis]. rewrite lookup_update_other; [exact H|]. intros ->. congruence.
Qed.

Lemma fold_vis_persist c order s l v :
  lookup l (b_vis s) = Some v -> lookup l (b_vis (fold_left (eval1 c) order s)) = Some v.
Proof.
  revert s; induction order as [|l0 order IH]; intros s H; simpl; [exact H|]. apply IH, eval1_vis_persist, H.
Qed.

Definition dry_of (c : bcfg) : bcfg := mkCfg (c_always c) true (c_fail c) false [] [].

Record psim (pr : project) (w : world) (sd sr : bstate) : Prop := {
  ps_wd : b_w sd = w;
  ps_pr : w_proj (b_w sr) = pr;
  ps_dom : forall l, lookup l (b_vis sd) = None <-> lookup l (b_vis sr) = None;
  ps_vis : forall l vd vr, lookup l (b_vis sd) = Some vd -> lookup l (b_vis sr) = Some vr ->
             v_res vd = ROk /\ v_res vr = ROk /\ v_changed vd = v_changed vr /\
             (v_changed vd = false -> stamp_of vd = stamp_of vr);
  ps_rec : forall l, lookup l (b_vis sr) = None -> rec_of (b_w sr) l = rec_of w l;
  ps_files : forall p, lookup p (w_files (b_w sr)) = lookup p (w_files w) \/
               exists l d vr, lookup l pr = Some d /\ mem p (def_gens d) = true /\
                              lookup l (b_vis sr) = Some vr /\ v_changed vr = true;
  ps_ev : forall l, In (EEvaluating l) (b_events sd) <-> In (EEvaluating l) (b_events sr);
  ps_bad : b_bad sd = b_bad sr
}.

(** dependency visits of the two runs correspond *)
Lemma dep_visits_psim pr w sd sr dl vsd vsr :
  psim pr w sd sr ->
  dep_visits (b_vis sd) dl = Some vsd -> dep_visits (b_vis sr) dl = Some vsr ->
  first_failure vsd = None /\ first_failure vsr = None /\
  forall r, deps_up_to_date r vsd = deps_up_to_date r vsr.
Proof.
  intros P. revert vsd vsr. induction dl as [|x dl IH]; intros vsd vsr Hd Hr; simpl in Hd, Hr.
  - inversion Hd; inversion Hr; subst. repeat split; reflexivity.
  - destruct (lookup x (b_vis sd)) as [vd|] eqn:Hxd; [|discriminate].
    destruct (lookup x (b_vis sr)) as [vr|] eqn:Hxr; [|discriminate].
    destruct (dep_visits (b_vis sd) dl) as [vsd'|]; [|discriminate].
    destruct (dep_visits (b_vis sr) dl) as [vsr'|]; [|discriminate].
    inversion Hd; inversion Hr; subst.
    destruct (IH vsd' vsr' eq_refl eq_refl) as (F1 & F2 & F3).
    destruct (ps_vis _ _ _ _ P x vd vr Hxd Hxr) as (Okd & Okr & Hch & Hst).
    simpl. rewrite Okd, Okr. simpl. split; [exact F1|split; [exact F2|]].
    intros r. unfold deps_up_to_date in *. cbn [forallb fst snd]. rewrite (F3 r). f_equal.
    destruct (lookup x (r_deps r)) as [prev|]; [|reflexivity].
    rewrite <- Hch. destruct (v_changed vd) eqn:E; simpl.
    + rewrite !andb_false_r. reflexivity.
    + rewrite (Hst eq_refl). reflexivity.
Qed.

Lemma dep_visits_dom pr w sd sr dl :
  psim pr w sd sr -> (dep_visits (b_vis sd) dl = None <-> dep_visits (b_vis sr) dl = None).
Proof.
  intros P. induction dl as [|x dl IH]; simpl; [split; discriminate|].
  pose proof (ps_dom _ _ _ _ P x) as Hx.
  destruct (lookup x (b_vis sd)) as [vd|] eqn:Hd; destruct (lookup x (b_vis sr)) as [vr|] eqn:Hr.
  - destruct (dep_visits (b_vis sd) dl), (dep_visits (b_vis sr) dl); try (split; discriminate); try tauto.
    + destruct IH as [_ IH2]. specialize (IH2 eq_refl). discriminate.
    + destruct IH as [IH1 _]. specialize (IH1 eq_refl). discriminate.
  - destruct Hx as [_ Hx]. specialize (Hx eq_refl). discriminate.
  - destruct Hx as [Hx _]. specialize (Hx eq_refl). discriminate.
  - tauto.
Qed.
