From Dawn Require Import Base.Bytes Build.Model Build.Proofs Build.LineWriter.
From Dawn Require Import Build.Stream.

Lemma expand_no_run_done out ran evs : forallb (fun s => negb (is_run_done s)) (expand out ran evs) = true.
Proof.
  induction evs as [|e evs IH]; simpl; [reflexivity|].
  destruct e; simpl; try exact IH.
  rewrite forallb_app, IH, andb_true_r. destruct (ran l); [|reflexivity].
  induction (snd (lw_run [] (out l))) as [|x xs IHx]; simpl; [reflexivity|exact IHx].
Qed.

(** run-done is delivered exactly once, as the very last event, and carries the result of the requested target *)
Lemma run_done_once_last out c w l :
  exists pre, run_stream out c w l = pre ++ [SRunDone (o_res (build c w l))] /\
              forallb (fun s => negb (is_run_done s)) pre = true.
Proof.
  unfold run_stream. eexists. split; [reflexivity|apply expand_no_run_done].
Qed.

Lemma sevents_of_app x a b : sevents_of x (a ++ b) = sevents_of x a ++ sevents_of x b.
Proof. unfold sevents_of. apply filter_app. Qed.

Lemma sevents_of_prints_same x lines : sevents_of x (map (SPrint x) lines) = map (SPrint x) lines.
Proof.
  unfold sevents_of. induction lines as [|a ls IH]; simpl; [reflexivity|]. rewrite N.eqb_refl, IH. reflexivity.
Qed.

Lemma sevents_of_prints_other x l lines : l <> x -> sevents_of x (map (SPrint l) lines) = [].
Proof.
  intros Hne. unfold sevents_of. induction lines as [|a ls IH]; simpl; [reflexivity|].
  destruct (N.eqb_spec l x); [contradiction|exact IH].
Qed.

(** projecting the stream on one label is expanding that label's events *)
Lemma sevents_of_expand out ran x evs :
  sevents_of x (expand out ran evs) = expand out ran (events_of x evs).
Proof.
  induction evs as [|e evs IH]; simpl; [reflexivity|].
  destruct e as [l|l|l|l]; unfold events_of in *; cbn [filter ev_label]; destruct (N.eqb_spec l x) as [->|Hne];
    cbn [expand]; try (unfold sevents_of at 1; cbn [filter sev_label]; rewrite N.eqb_refl; fold (sevents_of x (expand out ran evs));
                       rewrite IH; reflexivity);
    try (unfold sevents_of at 1; cbn [filter sev_label]; destruct (N.eqb_spec l x); [contradiction|];
         fold (sevents_of x (expand out ran evs)); exact IH).
  - (* evaluating x *)
    unfold sevents_of at 1. cbn [filter sev_label]. rewrite N.eqb_refl.
    fold (sevents_of x ((if ran x then map (SPrint x) (snd (lw_run [] (out x))) else []) ++ expand out ran evs)).
    rewrite sevents_of_app, IH. f_equal. f_equal. destruct (ran x); [apply sevents_of_prints_same|reflexivity].
  - (* evaluating another label *)
    unfold sevents_of at 1. cbn [filter sev_label]. destruct (N.eqb_spec l x); [contradiction|].
    fold (sevents_of x ((if ran l then map (SPrint l) (snd (lw_run [] (out l))) else []) ++ expand out ran evs)).
    rewrite sevents_of_app, IH. destruct (ran l); [rewrite (sevents_of_prints_other x l _ Hne)|]; reflexivity.
Qed.

(** C18, output: in every build that is not killed, the stream of one label is nothing, one up-to-date event, a lone failed
    event, or evaluating -- then, iff the body ran, exactly the lines of what the body wrote (whatever the chunking), each
    once, in order -- then exactly one completion event.  Nothing of the label follows its completion. *)
Lemma output_inside_window out c w l0 x :
  c_crashed c = false ->
  let o := build c w l0 in
  let lines := if mem x (o_ran o) then map (SPrint x) (lines_of (concat (out x))) else [] in
  sevents_of x (run_stream out c w l0) = [] \/
  sevents_of x (run_stream out c w l0) = [SEv (EUpToDate x)] \/
  sevents_of x (run_stream out c w l0) = [SEv (EFailed x)] \/
  sevents_of x (run_stream out c w l0) = SEv (EEvaluating x) :: lines ++ [SEv (ESucceeded x)] \/
  sevents_of x (run_stream out c w l0) = SEv (EEvaluating x) :: lines ++ [SEv (EFailed x)].
Proof.
  intros Hcr. cbv zeta. unfold run_stream. rewrite sevents_of_app.
  assert (E : sevents_of x [SRunDone (o_res (build c w l0))] = []) by reflexivity.
  rewrite E, app_nil_r, sevents_of_expand.
  pose proof (per_label_shape c w l0 x) as Hsh.
  destruct Hsh as [| | | | |Hc]; cbn [expand].
  - left; reflexivity.
  - right; left; reflexivity.
  - right; right; right; left. rewrite lines_chunking_invariant. cbn [snd].
    destruct (mem x (o_ran (build c w l0))); reflexivity.
  - right; right; right; right. rewrite lines_chunking_invariant. cbn [snd].
    destruct (mem x (o_ran (build c w l0))); reflexivity.
  - right; right; left; reflexivity.
  - congruence.
Qed.
