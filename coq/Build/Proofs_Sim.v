(** Builds read the persisted state only through the records of labels that exist: two worlds that agree on the
    project, the files, the run-ID counter and those records build identically (used for C14 and C02). *)
From Dawn Require Import Build.Model Build.Proofs.

Definition sim (w1 w2 : world) : Prop :=
  w_proj w1 = w_proj w2 /\ w_files w1 = w_files w2 /\ w_nextrun w1 = w_nextrun w2 /\
  (forall l, live w1 l = true -> rec_of w1 l = rec_of w2 l).

Lemma sim_refl w : sim w w.
Proof. repeat split; reflexivity. Qed.

Lemma up_to_date_files w1 w2 d r : w_files w1 = w_files w2 -> up_to_date w1 d r = up_to_date w2 d r.
Proof.
  intros Hf. unfold up_to_date, gens_exist, file_sum. rewrite Hf. reflexivity.
Qed.

Lemma body_inputs_sim w1 w2 deps srcs :
  w_proj w1 = w_proj w2 -> w_files w1 = w_files w2 -> body_inputs w1 deps srcs = body_inputs w2 deps srcs.
Proof. intros Hp Hf. unfold body_inputs. rewrite Hp, Hf. reflexivity. Qed.

Lemma rec_of_set_rec w l r l' : rec_of (set_rec w l r) l' = if l' =? l then r else rec_of w l'.
Proof.
  unfold rec_of, set_rec; cbn [w_recs]. destruct (N.eqb_spec l' l) as [->|Hne].
  - rewrite lookup_update_same. reflexivity.
  - rewrite (lookup_update_other _ _ _ _ Hne). reflexivity.
Qed.

Lemma live_proj w1 w2 l : w_proj w1 = w_proj w2 -> live w1 l = live w2 l.
Proof. intros H; unfold live; rewrite H; reflexivity. Qed.

Lemma sim_set_rec w1 w2 l r : sim w1 w2 -> sim (set_rec w1 l r) (set_rec w2 l r).
Proof.
  intros (Hp & Hf & Hn & Hr). repeat split; simpl; try assumption.
  intros l' Hl. rewrite !rec_of_set_rec. destruct (l' =? l); [reflexivity|]. apply Hr. exact Hl.
Qed.

Lemma sim_exec w1 w2 files l r n s1 s2 la1 la2 c1 c2 :
  sim w1 w2 ->
  sim (mkWorld (w_proj w1) files (update l r (w_recs w1)) n s1 la1 c1)
      (mkWorld (w_proj w2) files (update l r (w_recs w2)) n s2 la2 c2).
Proof.
  intros (Hp & Hf & Hn & Hr). repeat split; simpl; try assumption; try congruence.
  intros l' Hl. unfold rec_of; cbn [w_recs]. destruct (N.eq_dec l' l) as [->|Hne].
  - rewrite !lookup_update_same. reflexivity.
  - rewrite !(lookup_update_other _ _ _ _ Hne). apply Hr. exact Hl.
Qed.

Lemma sim_files w1 w2 files n s1 s2 :
  sim w1 w2 ->
  sim (mkWorld (w_proj w1) files (w_recs w1) n s1 (w_last w1) (w_count w1))
      (mkWorld (w_proj w2) files (w_recs w2) n s2 (w_last w2) (w_count w2)).
Proof.
  intros (Hp & Hf & Hn & Hr). repeat split; simpl; try assumption. Qed.

Ltac fin := split; [reflexivity|split; [reflexivity|split; [reflexivity|]]].

Lemma step_target_sim c w1 w2 l d r vs :
  sim w1 w2 ->
  match step_target c w1 l d r vs, step_target c w2 l d r vs with
  | (w1', v1, e1, b1), (w2', v2, e2, b2) => v1 = v2 /\ e1 = e2 /\ b1 = b2 /\ sim w1' w2'
  end.
Proof.
  intros Hs. pose proof Hs as (Hp & Hf & Hn & Hr).
  unfold step_target.
  rewrite (up_to_date_files w1 w2 d r Hf).
  destruct (first_failure vs) as [[]|]; try (fin; assumption).
  destruct (negb (c_always c) && deps_up_to_date r vs && up_to_date w2 d r &&
            negb (r_rerun r || match d with Fn _ _ _ _ _ a => a | Src _ => false end)).
  { fin; assumption. }
  destruct (c_dry c). { fin; assumption. }
  destruct d as [deps srcs gens env k alw|p].
  - destruct (c_crashed c && negb (mem l (c_ran c))). { fin; assumption. }
    destruct (mem l (c_fail c)).
    + destruct (c_crashed c && negb (mem l (c_recorded c))); fin; try assumption.
      apply sim_set_rec; assumption.
    + rewrite (body_inputs_sim w1 w2 deps srcs Hp Hf), Hf, Hn.
      destruct (c_crashed c && negb (mem l (c_recorded c))); fin.
      * apply sim_files; assumption.
      * apply sim_exec; assumption.
  - unfold file_sum. rewrite Hf.
    destruct (c_crashed c && negb (mem l (c_recorded c))); fin; try assumption.
    apply sim_set_rec; assumption.
Qed.

Definition bsim (s1 s2 : bstate) : Prop :=
  sim (b_w s1) (b_w s2) /\ b_vis s1 = b_vis s2 /\ b_events s1 = b_events s2 /\ b_ran s1 = b_ran s2 /\
  b_bad s1 = b_bad s2.

Lemma eval1_sim c s1 s2 l : bsim s1 s2 -> bsim (eval1 c s1 l) (eval1 c s2 l).
Proof.
  intros (Hs & Hv & He & Hr & Hb). pose proof Hs as (Hp & Hf & Hn & Hrec).
  unfold eval1. rewrite <- Hv.
  destruct (lookup l (b_vis s1)). { repeat split; assumption. }
  rewrite <- Hp. destruct (lookup l (w_proj (b_w s1))) as [d|] eqn:Hd.
  2:{ unfold finish, bsim; cbn [b_w b_vis b_events b_ran b_bad]. rewrite He, Hr, Hb, <- ?Hv. split; [assumption|]. repeat split; reflexivity. }
  destruct (dep_visits (b_vis s1) (deps_of (w_proj (b_w s1)) d)) as [vs|].
  2:{ repeat split; simpl; assumption. }
  assert (Hl : live (b_w s1) l = true) by (unfold live; rewrite Hd; reflexivity).
  rewrite <- (Hrec l Hl).
  pose proof (step_target_sim c (b_w s1) (b_w s2) l d (rec_of (b_w s1) l) vs Hs) as Hst.
  destruct (step_target c (b_w s1) l d (rec_of (b_w s1) l) vs) as [[[w1' v1] e1] b1].
  destruct (step_target c (b_w s2) l d (rec_of (b_w s1) l) vs) as [[[w2' v2] e2] b2].
  destruct Hst as (-> & -> & -> & Hs').
  unfold finish, bsim; cbn [b_w b_vis b_events b_ran b_bad]. rewrite He, Hr, Hb, <- ?Hv. split; [assumption|]. repeat split; reflexivity.
Qed.

Lemma fold_eval1_sim c order s1 s2 :
  bsim s1 s2 -> bsim (fold_left (eval1 c) order s1) (fold_left (eval1 c) order s2).
Proof.
  revert s1 s2; induction order as [|l order IH]; intros s1 s2 H; simpl; [exact H|].
  apply IH, eval1_sim, H.
Qed.

Lemma run_order_sim c w1 w2 order l :
  sim w1 w2 ->
  let o1 := run_order c w1 order l in
  let o2 := run_order c w2 order l in
  o_events o1 = o_events o2 /\ o_ran o1 = o_ran o2 /\ o_res o1 = o_res o2 /\ o_bad o1 = o_bad o2 /\
  sim (o_w o1) (o_w o2).
Proof.
  intros Hs. unfold run_order; simpl.
  assert (H0 : bsim (mkB w1 [] [] [] false) (mkB w2 [] [] [] false)) by (split; [exact Hs|repeat split; reflexivity]).
  destruct (fold_eval1_sim c order _ _ H0) as (Hw & Hv & He & Hr & Hb).
  rewrite Hv, He, Hr, Hb.
  split; [reflexivity|split; [reflexivity|split; [reflexivity|split; [reflexivity|exact Hw]]]].
Qed.

Lemma load_sim w1 w2 : sim w1 w2 -> sim (load w1) (load w2).
Proof.
  intros (Hp & Hf & Hn & Hr). repeat split; simpl; try assumption.
  intros l Hl. rewrite !rec_of_load. apply Hr. exact Hl.
Qed.

Lemma sim_mark w1 w2 l : sim w1 w2 -> live w1 l = true \/ True ->
  sim (set_rec w1 l (mark_rec (rec_of w1 l))) (set_rec w2 l (mark_rec (rec_of w1 l))).
Proof. intros H _. apply sim_set_rec. exact H. Qed.

(** the re-run marks of a killed build are applied identically in [sim]-related worlds, as far as any build can tell:
    marks on labels that exist use equal records; marks on labels that do not exist are invisible to [sim] *)
Lemma premark_sim c w1 w2 : sim w1 w2 -> sim (premark c w1) (premark c w2).
Proof.
  intros Hs. unfold premark. destruct (c_crashed c && negb (c_dry c)); [|exact Hs].
  revert w1 w2 Hs. induction (c_premarked c) as [|l pm IH]; intros w1 w2 Hs; simpl; [exact Hs|].
  apply IH. destruct (mem l (c_recorded c)); [exact Hs|].
  destruct Hs as (Hp & Hf & Hn & Hr). split; [exact Hp|split; [exact Hf|split; [exact Hn|]]].
  intros x Hx. rewrite !rec_of_set_rec. destruct (N.eqb_spec x l) as [->|Hne]; [|apply Hr; exact Hx].
  unfold live in Hx. cbn [set_rec w_proj] in Hx. fold (live w1 l) in Hx. rewrite (Hr l Hx). reflexivity.
Qed.

Lemma build_sim c w1 w2 l :
  sim w1 w2 ->
  let o1 := build c w1 l in
  let o2 := build c w2 l in
  o_events o1 = o_events o2 /\ o_ran o1 = o_ran o2 /\ o_res o1 = o_res o2 /\ o_bad o1 = o_bad o2 /\
  sim (o_w o1) (o_w o2).
Proof.
  intros Hs. pose proof (load_sim _ _ Hs) as Hl. pose proof Hl as (Hp & _).
  unfold build. rewrite <- Hp. destruct (link_ok (w_proj (load w1))).
  - destruct (run_order_sim c (load w1) (load w2) (order_of (w_proj (load w1)) l) l Hl) as (H1 & H2 & H3 & H4 & H5).
    cbn [o_events o_ran o_res o_bad o_w].
    split; [exact H1|split; [exact H2|split; [exact H3|split; [exact H4|apply premark_sim; exact H5]]]].
  - simpl. split; [reflexivity|split; [reflexivity|split; [reflexivity|split; [reflexivity|exact Hl]]]].
Qed.

(** C14: a collected world builds exactly like the uncollected one *)
Lemma gc_sim w : sim (gc w) w.
Proof.
  repeat split; try reflexivity.
  intros l Hl. apply gc_keeps_live_records. exact Hl.
Qed.

Lemma gc_build_equiv c w l :
  let o1 := build c (gc w) l in
  let o2 := build c w l in
  o_events o1 = o_events o2 /\ o_ran o1 = o_ran o2 /\ o_res o1 = o_res o2 /\ sim (o_w o1) (o_w o2).
Proof.
  destruct (build_sim c (gc w) w l (gc_sim w)) as (H1 & H2 & H3 & _ & H5).
  split; [exact H1|split; [exact H2|split; [exact H3|exact H5]]].
Qed.
