(** What a successful run leaves behind: every visited target's record is "fresh" (it names the present stamps of
    its dependencies, its own data matches its environment / content, its outputs exist).  Used for C02 (a rebuild of
    the unchanged tree executes nothing) and C01 (every target of the closure is current). *)
From Dawn Require Import Build.Model Build.Proofs.

(** ** equality tests are reflexive *)
Lemma content_eqb_refl : forall c, content_eqb c c = true.
Proof.
  fix IH 1. intros [n|t k ins]; simpl.
  - apply N.eqb_refl.
  - rewrite !N.eqb_refl. simpl.
    induction ins as [|[x|] ins IHl]; simpl; auto. rewrite IH. exact IHl.
Qed.

Lemma data_eqb_refl d : data_eqb d d = true.
Proof. destruct d; simpl; [reflexivity|apply N.eqb_refl|apply content_eqb_refl]. Qed.

Lemma stamp_eqb_refl s : stamp_eqb s s = true.
Proof. unfold stamp_eqb. rewrite data_eqb_refl, N.eqb_refl. reflexivity. Qed.

(** ** dependency visits *)
Lemma dep_visits_in vis dl vs d vd :
  dep_visits vis dl = Some vs -> In (d, vd) vs -> lookup d vis = Some vd /\ In d dl.
Proof.
  revert vs; induction dl as [|x dl IH]; intros vs H Hin; simpl in H.
  - inversion H; subst. destruct Hin.
  - destruct (lookup x vis) as [vx|] eqn:Hx; [|discriminate].
    destruct (dep_visits vis dl) as [vs'|]; [|discriminate]. inversion H; subst.
    destruct Hin as [E|Hin].
    + inversion E; subst. split; [exact Hx|left; reflexivity].
    + destruct (IH vs' eq_refl Hin) as [H1 H2]. split; [exact H1|right; exact H2].
Qed.

Lemma dep_visits_labels vis dl vs : dep_visits vis dl = Some vs -> map fst vs = dl.
Proof.
  revert vs; induction dl as [|x dl IH]; intros vs H; simpl in H.
  - inversion H; reflexivity.
  - destruct (lookup x vis) as [vx|]; [|discriminate].
    destruct (dep_visits vis dl) as [vs'|]; [|discriminate]. inversion H; subst. simpl. rewrite (IH vs' eq_refl). reflexivity.
Qed.

Lemma dep_visits_all vis dl vs : dep_visits vis dl = Some vs -> forall d, In d dl -> lookup d vis <> None.
Proof.
  revert vs; induction dl as [|x dl IH]; intros vs H d Hd; simpl in H; [destruct Hd|].
  destruct (lookup x vis) as [vx|] eqn:Hx; [|discriminate].
  destruct (dep_visits vis dl) as [vs'|]; [|discriminate].
  destruct Hd as [<-|Hd]; [rewrite Hx; discriminate|]. apply (IH vs' eq_refl d Hd).
Qed.

Lemma dep_visits_update vis dl l v :
  lookup l vis = None -> dep_visits vis dl <> None -> dep_visits (update l v vis) dl = dep_visits vis dl.
Proof.
  intros Hl. induction dl as [|x dl IH]; intros H; cbn [dep_visits] in *; [reflexivity|].
  destruct (lookup x vis) as [vx|] eqn:Hx; [|contradiction].
  assert (Hne : x <> l) by (intros ->; congruence).
  rewrite (lookup_update_other _ _ _ _ Hne), Hx.
  destruct (dep_visits vis dl) as [vs'|] eqn:Hd; [|contradiction].
  rewrite IH by discriminate. reflexivity.
Qed.

Lemma lookup_dep_data (vs : list (label * visit)) d vd :
  (forall d' v1 v2, In (d', v1) vs -> In (d', v2) vs -> v1 = v2) ->
  In (d, vd) vs ->
  lookup d (map (fun lv => (fst lv, stamp_of (snd lv))) vs) = Some (stamp_of vd).
Proof.
  induction vs as [|[x vx] vs IH]; intros Hf Hin; [destruct Hin|]. simpl.
  destruct (N.eqb_spec d x) as [->|Hne].
  - rewrite (Hf x vx vd (or_introl eq_refl) Hin). reflexivity.
  - destruct Hin as [E|Hin]; [inversion E; congruence|].
    apply IH; [|exact Hin]. intros d' v1 v2 H1 H2. apply (Hf d'); right; assumption.
Qed.

Lemma dep_visits_functional vis dl vs d v1 v2 :
  dep_visits vis dl = Some vs -> In (d, v1) vs -> In (d, v2) vs -> v1 = v2.
Proof.
  intros H H1 H2. destruct (dep_visits_in _ _ _ _ _ H H1) as [E1 _].
  destruct (dep_visits_in _ _ _ _ _ H H2) as [E2 _]. congruence.
Qed.

(** ** files only grow, and only the evaluated target's outputs change *)
Lemma lookup_write_files fs ps c p :
  lookup p (write_files fs ps c) = if mem p ps then Some c else lookup p fs.
Proof.
  unfold write_files. revert fs; induction ps as [|x ps IH]; intros fs; simpl; [reflexivity|].
  rewrite IH. destruct (N.eqb_spec p x) as [->|Hne]; simpl.
  - destruct (mem x ps); [reflexivity|]. apply lookup_update_same.
  - destruct (mem p ps); [reflexivity|]. apply lookup_update_other; assumption.
Qed.

Definition def_gens (d : tdef) : list path := match d with Fn _ _ gens _ _ _ => gens | Src _ => [] end.

(** the effect of one target's step on the world, for every mode *)
Lemma step_target_frame c w l d r vs w' v evs ran :
  step_target c w l d r vs = (w', v, evs, ran) ->
  w_proj w' = w_proj w /\
  (forall l', l' <> l -> rec_of w' l' = rec_of w l') /\
  (forall p, lookup p (w_files w') = lookup p (w_files w) \/
             (mem p (def_gens d) = true /\ lookup p (w_files w') <> None)).
Proof.
  unfold step_target.
  assert (Hsame : w_proj w = w_proj w /\ (forall l', l' <> l -> rec_of w l' = rec_of w l') /\
                  (forall p, lookup p (w_files w) = lookup p (w_files w) \/
                             (mem p (def_gens d) = true /\ lookup p (w_files w) <> None))).
  { split; [reflexivity|split; [reflexivity|]]. intros p; left; reflexivity. }
  assert (Hset : forall r', w_proj (set_rec w l r') = w_proj w /\
                  (forall l', l' <> l -> rec_of (set_rec w l r') l' = rec_of w l') /\
                  (forall p, lookup p (w_files (set_rec w l r')) = lookup p (w_files w) \/
                             (mem p (def_gens d) = true /\ lookup p (w_files (set_rec w l r')) <> None))).
  { intros r'. split; [reflexivity|split].
    - intros l' Hne. unfold rec_of, set_rec; cbn [w_recs]. rewrite (lookup_update_other _ _ _ _ Hne). reflexivity.
    - intros p; left; reflexivity. }
  destruct (first_failure vs) as [[]|]; try (intros H; inversion H; subst; exact Hsame).
  destruct (negb (c_always c) && deps_up_to_date r vs && up_to_date w d r &&
            negb (r_rerun r || match d with Fn _ _ _ _ _ a => a | Src _ => false end)).
  { intros H; inversion H; subst; exact Hsame. }
  destruct (c_dry c). { intros H; inversion H; subst; exact Hsame. }
  destruct d as [deps srcs gens env k alw|p0].
  - destruct (c_crashed c && negb (mem l (c_ran c))). { intros H; inversion H; subst; exact Hsame. }
    destruct (mem l (c_fail c)).
    + destruct (c_crashed c && negb (mem l (c_recorded c))); intros H; inversion H; subst; [exact Hsame|apply Hset].
    + assert (Hfiles : forall p, lookup p (write_files (w_files w) gens (CGen l k (body_inputs w deps srcs))) =
                                  lookup p (w_files w) \/
                                  (mem p gens = true /\
                                   lookup p (write_files (w_files w) gens (CGen l k (body_inputs w deps srcs))) <> None)).
      { intros p. rewrite lookup_write_files. destruct (mem p gens); [right; split; [reflexivity|discriminate]|left; reflexivity]. }
      destruct (c_crashed c && negb (mem l (c_recorded c))); intros H; inversion H; subst; cbn [w_proj w_files def_gens].
      * split; [reflexivity|split; [intros l' Hne; reflexivity|exact Hfiles]].
      * split; [reflexivity|split; [|exact Hfiles]].
        intros l' Hne. unfold rec_of; cbn [w_recs]. rewrite (lookup_update_other _ _ _ _ Hne). reflexivity.
  - destruct (c_crashed c && negb (mem l (c_recorded c))); intros H; inversion H; subst; [exact Hsame|apply Hset].
Qed.

(** ** freshness *)
Definition rstamp (w : world) (l : label) : stamp := (r_data (rec_of w l), r_run (rec_of w l)).

(** up_to_date without the always shortcut *)
Definition utd_core (w : world) (d : tdef) (r : rec) : bool :=
  match d with
  | Fn _ _ gens env _ _ => match r_data r with DEnv e => (e =? env) && gens_exist w gens | _ => false end
  | Src p => data_eqb (r_data r) (file_sum w p)
  end.

Definition is_always (d : tdef) : bool := match d with Fn _ _ _ _ _ a => a | Src _ => false end.

(** [fresh pr w vis l d v]: what holds of a successfully visited target *)
Definition fresh (pr : project) (w : world) (vis : list (label * visit)) (l : label) (d : tdef) (v : visit) : Prop :=
  stamp_of v = rstamp w l /\
  r_rerun (rec_of w l) = false /\
  (exists vs, dep_visits vis (deps_of pr d) = Some vs /\
              forall dl vd, In (dl, vd) vs ->
                exists prev, lookup dl (r_deps (rec_of w l)) = Some prev /\ stamp_eqb prev (stamp_of vd) = true) /\
  utd_core w d (rec_of w l) = true /\
  (* since fix 9a22738: the record holds no stamp for a dependency that is not declared *)
  forallb (fun ls => mem (fst ls) (deps_of pr d)) (r_deps (rec_of w l)) = true.

Lemma gens_exist_write w gens c : gens_exist (mkWorld (w_proj w) (write_files (w_files w) gens c) (w_recs w) (w_nextrun w) (w_stray w) (w_last w) (w_count w)) gens = true.
Proof.
  unfold gens_exist; cbn [w_files]. apply forallb_forall. intros p Hp.
  rewrite lookup_write_files.
  assert (E : mem p gens = true).
  { unfold mem. apply existsb_exists. exists p. split; [exact Hp|apply N.eqb_refl]. }
  rewrite E. reflexivity.
Qed.

Lemma rec_of_update_same w files l r n s la co :
  rec_of (mkWorld (w_proj w) files (update l r (w_recs w)) n s la co) l = r.
Proof. unfold rec_of; cbn [w_recs]. rewrite lookup_update_same. reflexivity. Qed.

Lemma no_removed_dep_data (vs : list (label * visit)) dt rn rr :
  no_removed_deps (mkRec (map (fun lv => (fst lv, stamp_of (snd lv))) vs) dt rn rr) vs = true.
Proof.
  unfold no_removed_deps. cbn [r_deps]. apply forallb_forall. intros [dl st] Hin. cbn [fst].
  apply in_map_iff in Hin. destruct Hin as ([dl' vd] & E & Hin). cbn [fst snd] in E. injection E as E1 _.
  unfold mem. apply existsb_exists. exists dl. split; [|apply N.eqb_refl].
  apply in_map_iff. exists (dl', vd). split; [exact E1|exact Hin].
Qed.

(** the step of a target in a normal (not dry, not crashed) run establishes freshness when it succeeds *)
Lemma step_target_fresh_g c w l d vs w' v evs ran vis :
  c_dry c = false ->
  dep_visits vis (deps_of (w_proj w) d) = Some vs ->
  step_target c w l d (rec_of w l) vs = (w', v, evs, ran) ->
  v_res v = ROk ->
  stamp_of v = rstamp w' l /\
  r_rerun (rec_of w' l) = false /\
  (forall dl vd, In (dl, vd) vs ->
     exists prev, lookup dl (r_deps (rec_of w' l)) = Some prev /\ stamp_eqb prev (stamp_of vd) = true) /\
  utd_core w' d (rec_of w' l) = true /\
  no_removed_deps (rec_of w' l) vs = true.
Proof.
  intros Hdry Hvs. unfold step_target. rewrite Hdry.
  destruct (first_failure vs) as [[]|]; try (intros H; inversion H; subst; simpl; discriminate).
  destruct (negb (c_always c) && deps_up_to_date (rec_of w l) vs && up_to_date w d (rec_of w l) &&
            negb (r_rerun (rec_of w l) || is_always d)) eqn:Hcond.
  - (* up to date *)
    fold (is_always d). rewrite Hcond.
    intros H; inversion H; subst. intros _.
    apply andb_prop in Hcond. destruct Hcond as [Hcond Hrr].
    apply andb_prop in Hcond. destruct Hcond as [Hcond Hutd].
    apply andb_prop in Hcond. destruct Hcond as [_ Hdeps].
    unfold deps_up_to_date in Hdeps. apply andb_prop in Hdeps. destruct Hdeps as [Hdeps Hnrm].
    apply negb_true_iff in Hrr. apply orb_false_iff in Hrr. destruct Hrr as [Hrr Halw].
    split; [reflexivity|split; [exact Hrr|split; [|split; [|exact Hnrm]]]].
    + intros dl vd Hin. unfold deps_match in Hdeps. rewrite forallb_forall in Hdeps.
      specialize (Hdeps (dl, vd) Hin). cbn [fst snd] in Hdeps.
      destruct (lookup dl (r_deps (rec_of w' l))) as [prev|]; [|discriminate].
      apply andb_prop in Hdeps. destruct Hdeps as [Hst _]. exists prev. split; [reflexivity|exact Hst].
    + unfold up_to_date in Hutd. unfold utd_core. destruct d as [deps srcs gens env k alw|p]; [|exact Hutd].
      simpl in Halw. subst alw. exact Hutd.
  - fold (is_always d). rewrite Hcond.
    assert (Hdd : forall dl vd, In (dl, vd) vs ->
              lookup dl (map (fun lv => (fst lv, stamp_of (snd lv))) vs) = Some (stamp_of vd)).
    { intros dl vd Hin. apply lookup_dep_data; [|exact Hin].
      intros d' v1 v2. apply (dep_visits_functional _ _ _ _ _ _ Hvs). }
    destruct d as [deps srcs gens env k alw|p].
    + destruct (c_crashed c && negb (mem l (c_ran c))). { intros H; inversion H; subst; simpl; discriminate. }
      destruct (mem l (c_fail c)).
      { destruct (c_crashed c && negb (mem l (c_recorded c))); intros H; inversion H; subst; simpl; discriminate. }
      destruct (c_crashed c && negb (mem l (c_recorded c))). { intros H; inversion H; subst; simpl; discriminate. }
      intros H; inversion H; subst. intros _.
      unfold rstamp. rewrite rec_of_update_same. cbn [r_data r_run r_rerun r_deps stamp_of v_data v_run].
      split; [reflexivity|split; [reflexivity|split; [|split]]].
      * intros dl vd Hin. exists (stamp_of vd). split; [apply Hdd; exact Hin|apply stamp_eqb_refl].
      * unfold utd_core. cbn [r_data]. rewrite N.eqb_refl. cbn [andb]. apply gens_exist_write.
      * apply no_removed_dep_data.
    + destruct (c_crashed c && negb (mem l (c_recorded c))). { intros H; inversion H; subst; simpl; discriminate. }
      intros H; inversion H; subst. intros _.
      unfold rstamp, set_rec. rewrite rec_of_update_same. cbn [r_data r_run r_rerun r_deps stamp_of v_data v_run].
      split; [reflexivity|split; [reflexivity|split; [|split]]].
      * intros dl vd Hin. exists (stamp_of vd). split; [apply Hdd; exact Hin|apply stamp_eqb_refl].
      * unfold utd_core, file_sum. cbn [r_data w_files]. apply data_eqb_refl.
      * apply no_removed_dep_data.
Qed.

Lemma step_target_fresh c w l d vs w' v evs ran vis :
  c_dry c = false -> c_crashed c = false ->
  dep_visits vis (deps_of (w_proj w) d) = Some vs ->
  step_target c w l d (rec_of w l) vs = (w', v, evs, ran) ->
  v_res v = ROk ->
  stamp_of v = rstamp w' l /\
  r_rerun (rec_of w' l) = false /\
  (forall dl vd, In (dl, vd) vs ->
     exists prev, lookup dl (r_deps (rec_of w' l)) = Some prev /\ stamp_eqb prev (stamp_of vd) = true) /\
  utd_core w' d (rec_of w' l) = true /\
  no_removed_deps (rec_of w' l) vs = true.
Proof. intros Hdry _. apply step_target_fresh_g; exact Hdry. Qed.

(** [no_removed_deps] only looks at the labels of the visits, which are the declared dependencies *)
Lemma no_removed_declared vis dl vs r :
  dep_visits vis dl = Some vs ->
  no_removed_deps r vs = forallb (fun ls => mem (fst ls) dl) (r_deps r).
Proof. intros H. unfold no_removed_deps. rewrite (dep_visits_labels _ _ _ H). reflexivity. Qed.

(** ** the invariant of a normal run *)
Definition finv (pr : project) (s : bstate) : Prop :=
  w_proj (b_w s) = pr /\
  forall l v, lookup l (b_vis s) = Some v -> v_res v = ROk ->
    exists d, lookup l pr = Some d /\ fresh pr (b_w s) (b_vis s) l d v.

Lemma lookup_in {A} k (v : A) m : lookup k m = Some v -> In (k, v) m.
Proof.
  induction m as [|[a x] m IH]; simpl; [discriminate|].
  destruct (N.eqb_spec k a) as [->|]; intros H; [inversion H; left; reflexivity|right; apply IH; exact H].
Qed.

Lemma generator_unique pr l0 d0 l p :
  link_ok pr = true -> lookup l pr = Some (Src p) -> lookup l0 pr = Some d0 -> mem p (def_gens d0) = true ->
  deps_of pr (Src p) = [l0].
Proof.
  intros Hlink Hl Hl0 Hmem.
  assert (Hin : In l0 (generators pr p)).
  { unfold generators. apply in_map_iff. exists (l0, d0). split; [reflexivity|].
    apply filter_In. split; [apply lookup_in; exact Hl0|]. simpl.
    destruct d0; simpl in Hmem; [exact Hmem|discriminate]. }
  unfold link_ok in Hlink. rewrite forallb_forall in Hlink.
  specialize (Hlink (l, Src p) (lookup_in _ _ _ Hl)). simpl in Hlink.
  simpl. destruct (generators pr p) as [|g [|g' gs]].
  - destruct Hin.
  - destruct Hin as [->|[]]. reflexivity.
  - simpl in Hlink. exfalso. apply N.leb_le in Hlink. lia.
Qed.

Lemma fresh_preserved pr w w' vis l0 d0 v0 l d v :
  link_ok pr = true ->
  lookup l0 vis = None -> l <> l0 ->
  lookup l pr = Some d -> lookup l0 pr = Some d0 ->
  w_proj w' = w_proj w ->
  (forall l', l' <> l0 -> rec_of w' l' = rec_of w l') ->
  (forall p, lookup p (w_files w') = lookup p (w_files w) \/
             (mem p (def_gens d0) = true /\ lookup p (w_files w') <> None)) ->
  fresh pr w vis l d v -> fresh pr w' (update l0 v0 vis) l d v.
Proof.
  intros Hlink Hl0 Hne Hd Hd0 Hproj Hrec Hfiles (Hst & Hrr & (vs & Hvs & Hdeps) & Hutd & Hdecl).
  unfold fresh, rstamp. rewrite (Hrec l Hne).
  split; [exact Hst|split; [exact Hrr|split; [|split; [|exact Hdecl]]]].
  - exists vs. split; [|exact Hdeps].
    rewrite dep_visits_update; [exact Hvs|exact Hl0|rewrite Hvs; discriminate].
  - unfold utd_core in *. destruct d as [deps srcs gens env k alw|p].
    + destruct (r_data (rec_of w l)); try discriminate.
      apply andb_prop in Hutd. destruct Hutd as [He Hg]. rewrite He. cbn [andb].
      unfold gens_exist in *. rewrite forallb_forall in *. intros q Hq. specialize (Hg q Hq).
      destruct (Hfiles q) as [->|[_ Hsome]]; [exact Hg|].
      destruct (lookup q (w_files w')); [reflexivity|contradiction].
    + unfold file_sum in *. destruct (Hfiles p) as [->|[Hmem _]]; [exact Hutd|].
      exfalso. pose proof (generator_unique pr l0 d0 l p Hlink Hd Hd0 Hmem) as Hg.
      rewrite Hg in Hvs. cbn [dep_visits] in Hvs. rewrite Hl0 in Hvs. discriminate.
Qed.

Lemma eval1_finv_g c pr s l0 :
  c_dry c = false -> link_ok pr = true ->
  finv pr s -> finv pr (eval1 c s l0).
Proof.
  intros Hdry Hlink [Hpr Hinv].
  unfold eval1.
  destruct (lookup l0 (b_vis s)) as [v0|] eqn:Hv0; [split; assumption|].
  rewrite Hpr.
  destruct (lookup l0 pr) as [d0|] eqn:Hd0.
  - destruct (dep_visits (b_vis s) (deps_of pr d0)) as [vs|] eqn:Hvs; [|split; assumption].
    destruct (step_target c (b_w s) l0 d0 (rec_of (b_w s) l0) vs) as [[[w' v0] evs] ran] eqn:Hst.
    destruct (step_target_frame _ _ _ _ _ _ _ _ _ _ Hst) as (Hproj & Hrec & Hfiles).
    unfold finish. split; cbn [b_w b_vis]; [rewrite Hproj; exact Hpr|].
    intros l v Hl Hok. destruct (N.eq_dec l l0) as [->|Hne].
    + rewrite lookup_update_same in Hl. inversion Hl; subst v0.
      exists d0. split; [exact Hd0|].
      rewrite <- Hpr in Hvs.
      destruct (step_target_fresh_g c (b_w s) l0 d0 vs w' v evs ran (b_vis s) Hdry Hvs Hst Hok)
        as (H1 & H2 & H3 & H4 & H5).
      rewrite Hpr in Hvs.
      split; [exact H1|split; [exact H2|split; [|split; [exact H4|]]]].
      * exists vs. split; [|exact H3].
        rewrite dep_visits_update; [exact Hvs|exact Hv0|rewrite Hvs; discriminate].
      * rewrite <- (no_removed_declared _ _ _ _ Hvs). exact H5.
    + rewrite (lookup_update_other _ _ _ _ Hne) in Hl.
      destruct (Hinv l v Hl Hok) as (d & Hd & Hfresh). exists d. split; [exact Hd|].
      apply (fresh_preserved pr (b_w s) w' (b_vis s) l0 d0 v0 l d v); try assumption.
  - unfold finish. split; cbn [b_w b_vis]; [exact Hpr|].
    intros l v Hl Hok. destruct (N.eq_dec l l0) as [->|Hne].
    + rewrite lookup_update_same in Hl. inversion Hl; subst v. simpl in Hok. discriminate.
    + rewrite (lookup_update_other _ _ _ _ Hne) in Hl.
      destruct (Hinv l v Hl Hok) as (d & Hd & (Hst & Hrr & (vs & Hvs & Hdeps) & Hutd & Hdecl)).
      exists d. split; [exact Hd|]. split; [exact Hst|split; [exact Hrr|split; [|split; [exact Hutd|exact Hdecl]]]].
      exists vs. split; [|exact Hdeps].
      rewrite dep_visits_update; [exact Hvs|exact Hv0|rewrite Hvs; discriminate].
Qed.

Lemma eval1_finv c pr s l0 :
  c_dry c = false -> c_crashed c = false -> link_ok pr = true ->
  finv pr s -> finv pr (eval1 c s l0).
Proof. intros Hdry _. apply eval1_finv_g; exact Hdry. Qed.

Lemma fold_finv_g c pr order s :
  c_dry c = false -> link_ok pr = true ->
  finv pr s -> finv pr (fold_left (eval1 c) order s).
Proof.
  intros Hdry Hlink. revert s; induction order as [|l order IH]; intros s H; simpl; [exact H|].
  apply IH, eval1_finv_g; assumption.
Qed.

Lemma fold_finv c pr order s :
  c_dry c = false -> c_crashed c = false -> link_ok pr = true ->
  finv pr s -> finv pr (fold_left (eval1 c) order s).
Proof. intros Hdry _. apply fold_finv_g; exact Hdry. Qed.

(** ** the second run: everything is up to date *)
Fixpoint topo_ok (pr : project) (seen : list label) (order : list label) : bool :=
  match order with
  | [] => true
  | l :: rest =>
      match lookup l pr with
      | Some d => forallb (fun dep => mem dep seen) (deps_of pr d)
      | None => true
      end && topo_ok pr (l :: seen) rest
  end.

Definition quiet (v1 : visit) : visit := mkVisit false (v_data v1) (v_run v1) ROk.

Definition inv2 (w : world) (vis1 : list (label * visit)) (seen : list label) (s : bstate) : Prop :=
  b_w s = w /\ b_ran s = [] /\ b_bad s = false /\
  (forall e, In e (b_events s) -> exists l, e = EUpToDate l) /\
  (forall l, In l seen -> lookup l (b_vis s) <> None) /\
  (forall l v2, lookup l (b_vis s) = Some v2 -> exists v1, lookup l vis1 = Some v1 /\ v2 = quiet v1).

Lemma mem_In x l : mem x l = true -> In x l.
Proof.
  unfold mem. intros H. apply existsb_exists in H. destruct H as (y & Hy & E).
  apply N.eqb_eq in E. subst. exact Hy.
Qed.

Lemma dep_visits_some vis dl : (forall d, In d dl -> lookup d vis <> None) -> dep_visits vis dl <> None.
Proof.
  induction dl as [|x dl IH]; intros H; simpl; [discriminate|].
  destruct (lookup x vis) eqn:Hx; [|exfalso; apply (H x); [left; reflexivity|exact Hx]].
  destruct (dep_visits vis dl) eqn:Hd; [discriminate|].
  exfalso. apply IH; [|reflexivity]. intros d Hd'. apply H; right; exact Hd'.
Qed.

Lemma first_failure_all_ok vs : (forall d v, In (d, v) vs -> v_res v = ROk) -> first_failure vs = None.
Proof.
  induction vs as [|[d v] vs IH]; intros H; simpl; [reflexivity|].
  rewrite (H d v (or_introl eq_refl)). simpl. apply IH. intros d' v' Hin. apply (H d'); right; exact Hin.
Qed.

Lemma eval1_second c0 pr w vis1 seen s l :
  c_always c0 = false -> c_dry c0 = false -> c_crashed c0 = false ->
  w_proj w = pr ->
  (forall l v1, lookup l vis1 = Some v1 ->
      v_res v1 = ROk /\ exists d, lookup l pr = Some d /\ is_always d = false /\ fresh pr w vis1 l d v1) ->
  lookup l vis1 <> None ->
  (forall d, lookup l pr = Some d -> forall dep, In dep (deps_of pr d) -> In dep seen) ->
  inv2 w vis1 seen s -> inv2 w vis1 (l :: seen) (eval1 c0 s l).
Proof.
  intros Hal Hdry Hcr Hpr Hfirst Hl1 Hdeps (Hw & Hran & Hbad & Hev & Hseen & Hvis).
  destruct (lookup l vis1) as [v1|] eqn:Ev1; [|contradiction].
  destruct (Hfirst l v1 Ev1) as (Hok1 & d & Hd & Halw & (Hst & Hrr & (vs1 & Hvs1 & Hprev) & Hutd & Hdecl)).
  unfold eval1. destruct (lookup l (b_vis s)) as [v2|] eqn:Hv2.
  { (* already visited *)
    split; [exact Hw|split; [exact Hran|split; [exact Hbad|split; [exact Hev|split; [|exact Hvis]]]]].
    intros x [<-|Hx]; [rewrite Hv2; discriminate|apply Hseen; exact Hx]. }
  rewrite Hw, Hpr, Hd.
  assert (Hsome : dep_visits (b_vis s) (deps_of pr d) <> None).
  { apply dep_visits_some. intros dep Hdep. apply Hseen. apply (Hdeps d Hd dep Hdep). }
  destruct (dep_visits (b_vis s) (deps_of pr d)) as [vs2|] eqn:Hvs2; [|contradiction].
  (* every dependency visit of the second run is the quiet version of its first-run visit *)
  assert (Hq : forall dl vd2, In (dl, vd2) vs2 -> exists vd1, In (dl, vd1) vs1 /\ vd2 = quiet vd1).
  { intros dl vd2 Hin. destruct (dep_visits_in _ _ _ _ _ Hvs2 Hin) as [Hl2 Hindl].
    destruct (Hvis dl vd2 Hl2) as (vd1 & Hl1' & ->). exists vd1. split; [|reflexivity].
    clear - Hvs1 Hindl Hl1'. revert vs1 Hvs1. induction (deps_of pr d) as [|x dl' IH]; intros vs1 Hvs1; [destruct Hindl|].
    simpl in Hvs1. destruct (lookup x vis1) as [vx|] eqn:Hx; [|discriminate].
    destruct (dep_visits vis1 dl') as [vs'|] eqn:Hd'; [|discriminate]. inversion Hvs1; subst.
    destruct Hindl as [->|Hindl]; [left; congruence|right; apply (IH Hindl vs' eq_refl)]. }
  assert (Hff : first_failure vs2 = None).
  { apply first_failure_all_ok. intros dl vd2 Hin. destruct (Hq dl vd2 Hin) as (vd1 & _ & ->). reflexivity. }
  assert (Hdu : deps_up_to_date (rec_of w l) vs2 = true).
  { unfold deps_up_to_date. apply andb_true_intro. split.
    - unfold deps_match. apply forallb_forall. intros [dl vd2] Hin. cbn [fst snd].
      destruct (Hq dl vd2 Hin) as (vd1 & Hin1 & ->).
      destruct (Hprev dl vd1 Hin1) as (prev & Hlk & Heq). rewrite Hlk.
      unfold quiet, stamp_of in *. cbn [v_data v_run v_changed]. rewrite Heq. reflexivity.
    - rewrite (no_removed_declared _ _ _ _ Hvs2). exact Hdecl. }
  assert (Hu : up_to_date w d (rec_of w l) = true).
  { unfold up_to_date. unfold utd_core in Hutd. destruct d as [deps srcs gens env k alw|p]; [|exact Hutd].
    simpl in Halw. subst alw. exact Hutd. }
  unfold step_target. rewrite Hff, Hal, Hdu, Hu, Hrr. fold (is_always d). rewrite Halw. cbn [negb andb orb].
  unfold inv2, finish. cbn [b_w b_vis b_events b_ran b_bad].
  split; [reflexivity|split; [rewrite Hran; reflexivity|split; [exact Hbad|split; [|split]]]].
  - intros e [<-|He]; [exists l; reflexivity|apply Hev; exact He].
  - intros x [<-|Hx]; [rewrite lookup_update_same; discriminate|].
    destruct (N.eq_dec x l) as [->|Hne]; [rewrite lookup_update_same; discriminate|].
    rewrite (lookup_update_other _ _ _ _ Hne). apply Hseen; exact Hx.
  - intros x v2 Hx. destruct (N.eq_dec x l) as [->|Hne].
    + rewrite lookup_update_same in Hx. inversion Hx; subst v2. exists v1. split; [exact Ev1|].
      unfold quiet. unfold stamp_of, rstamp in Hst. inversion Hst. reflexivity.
    + rewrite (lookup_update_other _ _ _ _ Hne) in Hx. apply Hvis; exact Hx.
Qed.

Lemma fold_second c0 pr w vis1 order seen s :
  c_always c0 = false -> c_dry c0 = false -> c_crashed c0 = false ->
  w_proj w = pr ->
  (forall l v1, lookup l vis1 = Some v1 ->
      v_res v1 = ROk /\ exists d, lookup l pr = Some d /\ is_always d = false /\ fresh pr w vis1 l d v1) ->
  (forall l, In l order -> lookup l vis1 <> None) ->
  topo_ok pr seen order = true ->
  inv2 w vis1 seen s -> exists seen', inv2 w vis1 seen' (fold_left (eval1 c0) order s).
Proof.
  intros Hal Hdry Hcr Hpr Hfirst. revert seen s.
  induction order as [|l order IH]; intros seen s Hdom Htopo Hinv; simpl; [exists seen; exact Hinv|].
  simpl in Htopo. apply andb_prop in Htopo. destruct Htopo as [Hdeps Htopo].
  apply (IH (l :: seen)); [intros x Hx; apply Hdom; right; exact Hx|exact Htopo|].
  apply (eval1_second c0 pr w vis1 seen s l); try assumption.
  - apply Hdom; left; reflexivity.
  - intros d Hd dep Hdep. rewrite Hd in Hdeps. rewrite forallb_forall in Hdeps.
    apply mem_In. apply Hdeps. exact Hdep.
Qed.

(** C02: after a run in which every target of the order was visited successfully, running the same order again on the
    resulting world -- without always-run, with no always-targets -- executes no body, changes nothing and reports every
    target up to date. *)
Lemma noop_rerun c c0 w order (l' : N) :
  c_dry c = false -> c_crashed c = false ->
  c_always c0 = false -> c_dry c0 = false -> c_crashed c0 = false ->
  link_ok (w_proj w) = true ->
  topo_ok (w_proj w) [] order = true ->
  (forall x d, lookup x (w_proj w) = Some d -> is_always d = false) ->
  let s1 := fold_left (eval1 c) order (mkB w [] [] [] false) in
  (forall x, In x order -> exists v, lookup x (b_vis s1) = Some v) ->
  (forall x v, lookup x (b_vis s1) = Some v -> v_res v = ROk) ->
  let o2 := run_order c0 (b_w s1) order l' in
  o_ran o2 = [] /\ o_w o2 = b_w s1 /\ o_bad o2 = false /\
  (forall e, In e (o_events o2) -> exists x, e = EUpToDate x).
Proof.
  intros Hdry Hcr Hal0 Hdry0 Hcr0 Hlink Htopo Hnoalw s1 Hdom Hallok o2.
  assert (Hf : finv (w_proj w) s1).
  { apply fold_finv; try assumption. split; [reflexivity|]. intros x v Hx. simpl in Hx. discriminate. }
  destruct Hf as [Hpr Hfresh].
  assert (Hfirst : forall x v1, lookup x (b_vis s1) = Some v1 ->
            v_res v1 = ROk /\ exists d, lookup x (w_proj w) = Some d /\ is_always d = false /\
                                        fresh (w_proj w) (b_w s1) (b_vis s1) x d v1).
  { intros x v1 Hx. pose proof (Hallok x v1 Hx) as Hok. split; [exact Hok|].
    destruct (Hfresh x v1 Hx Hok) as (d & Hd & Hfr). exists d. split; [exact Hd|split; [|exact Hfr]].
    apply (Hnoalw x d Hd). }
  assert (Hinv0 : inv2 (b_w s1) (b_vis s1) [] (mkB (b_w s1) [] [] [] false)).
  { unfold inv2; cbn [b_w b_vis b_events b_ran b_bad]. repeat split; try reflexivity.
    - intros e [].
    - intros x [].
    - intros x v2 Hx. simpl in Hx. discriminate. }
  assert (Hdom' : forall x, In x order -> lookup x (b_vis s1) <> None).
  { intros x Hx. destruct (Hdom x Hx) as (v & Hv). rewrite Hv. discriminate. }
  destruct (fold_second c0 (w_proj w) (b_w s1) (b_vis s1) order [] _ Hal0 Hdry0 Hcr0 Hpr Hfirst
              Hdom' Htopo Hinv0) as (seen' & Hw & Hran & Hbad & Hev & _ & _).
  unfold o2, run_order; cbn [o_ran o_w o_bad o_events].
  rewrite Hran, Hw, Hbad. split; [reflexivity|split; [reflexivity|split; [reflexivity|]]].
  intros e He. apply in_rev in He. apply Hev. exact He.
Qed.
