(** C18: the complete event stream of one build -- target events, the output lines of the bodies that ran, and the final
    run-done -- over the engine model.  What a body writes is a parameter ([out]: label -> chunks written, in order): the
    statements hold for every body output and every chunking.  Transcribes target.go (TargetEvaluating; function.evaluate
    with its line writer and the deferred Flush; TargetSucceeded/TargetFailed) and Project.Run (RunDone after runner.Run). *)
From Dawn Require Import Base.Bytes Build.Model Build.LineWriter.

Inductive sev :=
| SEv (e : event)
| SPrint (l : label) (line : str)
| SRunDone (r : result).

(** a body that runs delivers, right after its evaluating event, the lines its line writer makes of the chunks it wrote
    (the deferred Flush delivers an unterminated last line before the completion event, also when the body fails) *)
Fixpoint expand (out : label -> list str) (ran : label -> bool) (evs : list event) : list sev :=
  match evs with
  | [] => []
  | EEvaluating l :: rest =>
      SEv (EEvaluating l) :: (if ran l then map (SPrint l) (snd (lw_run [] (out l))) else []) ++ expand out ran rest
  | e :: rest => SEv e :: expand out ran rest
  end.

Definition run_stream (out : label -> list str) (c : bcfg) (w : world) (l : label) : list sev :=
  let o := build c w l in
  expand out (fun x => mem x (o_ran o)) (o_events o) ++ [SRunDone (o_res o)].

Definition sev_label (s : sev) : option label :=
  match s with
  | SEv (EUpToDate l) | SEv (EEvaluating l) | SEv (ESucceeded l) | SEv (EFailed l) => Some l
  | SPrint l _ => Some l
  | SRunDone _ => None
  end.

Definition sevents_of (x : label) (ss : list sev) : list sev :=
  filter (fun s => match sev_label s with Some l => l =? x | None => false end) ss.

Definition is_run_done (s : sev) : bool := match s with SRunDone _ => true | _ => false end.
