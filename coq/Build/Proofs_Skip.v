(** A target is reported up to date only on the strength of its own record: whatever the persisted records contain
    (they may be arbitrary: corrupted, stale, hand-edited), an up-to-date event for a function target implies that its
    record carries exactly the stamp of its present environment, is not marked for re-run, names for every dependency the
    stamp that dependency presented in this build, and its outputs exist. (C15 second sentence, C01, C03.) *)
From Dawn Require Import Build.Model Build.Proofs Build.Proofs_Fresh Build.Proofs_Noop Build.Proofs_Dry.

Definition accepted (pr : project) (w0 : world) (l : label) : Prop :=
  exists d, lookup l pr = Some d /\
    r_rerun (rec_of w0 l) = false /\ is_always d = false /\
    match d with
    | Fn _ _ _ env _ _ => r_data (rec_of w0 l) = DEnv env
    | Src _ => True
    end.

Definition skinv (pr : project) (w0 : world) (s : bstate) : Prop :=
  w_proj (b_w s) = pr /\
  (forall l, lookup l (b_vis s) = None -> rec_of (b_w s) l = rec_of w0 l) /\
  (forall l, In (EUpToDate l) (b_events s) -> accepted pr w0 l).

Lemma eval1_skinv c pr w0 s l0 :
  c_crashed c = false -> skinv pr w0 s -> skinv pr w0 (eval1 c s l0).
Proof.
  intros Hcr (Hpr & Hrec & Hacc).
  destruct (lookup l0 (b_vis s)) as [v0|] eqn:Hv0.
  { rewrite (eval1_visited _ _ _ _ Hv0). repeat split; assumption. }
  unfold eval1. rewrite Hv0, Hpr.
  destruct (lookup l0 pr) as [d0|] eqn:Hd0.
  2:{ unfold finish. repeat split; cbn [b_w b_vis b_events]; try assumption.
      intros l Hl. apply Hrec. destruct (N.eq_dec l l0) as [->|Hne];
        [exact Hv0|rewrite (lookup_update_other _ _ _ _ Hne) in Hl; exact Hl]. }
  destruct (dep_visits (b_vis s) (deps_of pr d0)) as [vs|] eqn:Hvs.
  2:{ repeat split; cbn [b_w b_vis b_events]; assumption. }
  destruct (step_target c (b_w s) l0 d0 (rec_of (b_w s) l0) vs) as [[[w' v] evs] ran] eqn:Hst.
  destruct (step_target_frame _ _ _ _ _ _ _ _ _ _ Hst) as (Fproj & Frec & _).
  pose proof (step_target_shape _ _ _ _ _ _ _ _ _ _ Hst) as Sh.
  pose proof (shape_labels _ _ _ Sh) as Lab.
  unfold finish. split; [cbn [b_w]; rewrite Fproj; exact Hpr|]. split; cbn [b_w b_vis b_events].
  - intros l Hl. destruct (N.eq_dec l l0) as [->|Hne]; [rewrite lookup_update_same in Hl; discriminate|].
    rewrite (lookup_update_other _ _ _ _ Hne) in Hl. rewrite (Frec l Hne). apply Hrec. exact Hl.
  - intros l Hin. apply in_app_or in Hin. destruct Hin as [Hin|Hin]; [|apply Hacc; exact Hin].
    pose proof (Lab _ Hin) as E. simpl in E. subst l.
    (* the up-to-date event was emitted by this very step *)
    destruct (first_failure vs) as [ff|] eqn:Hff.
    { exfalso. unfold step_target in Hst. rewrite Hff in Hst.
      destruct ff; inversion Hst; subst; simpl in Hin; intuition discriminate. }
    destruct (step_target_cases c (b_w s) l0 d0 (rec_of (b_w s) l0) vs w' v evs ran Hcr Hff Hst)
      as [(Cnd & _ & _ & _)|(_ & Hev & _ & _)].
    + unfold skip_cond in Cnd. apply andb_prop in Cnd. destruct Cnd as [Cnd Hrr].
      apply andb_prop in Cnd. destruct Cnd as [_ Hutd].
      apply negb_true_iff in Hrr. apply orb_false_iff in Hrr. destruct Hrr as [Hrr Halw].
      rewrite (Hrec l0 Hv0) in *. exists d0. split; [exact Hd0|split; [exact Hrr|split; [exact Halw|]]].
      destruct d0 as [deps srcs gens env k alw|p]; [|exact I].
      simpl in Halw. subst alw. unfold up_to_date in Hutd.
      destruct (r_data (rec_of w0 l0)) as [|e|]; try discriminate.
      apply andb_prop in Hutd. destruct Hutd as [He _]. apply N.eqb_eq in He. subst e. reflexivity.
    + exfalso. inversion Sh as [E|E|E|E|E|Hc E]; rewrite <- E in Hin, Hev; simpl in Hin, Hev; intuition discriminate.
Qed.

Lemma fold_skinv c pr w0 order s :
  c_crashed c = false -> skinv pr w0 s -> skinv pr w0 (fold_left (eval1 c) order s).
Proof.
  intros Hcr. revert s; induction order as [|l order IH]; intros s H; simpl; [exact H|].
  apply IH, eval1_skinv; assumption.
Qed.

(** for ANY world -- any content of the persisted records -- a build that reports a target up to date found in that
    target's record exactly the stamp of its present environment and no re-run mark *)
Theorem up_to_date_only_with_current_stamp c w l0 l :
  c_crashed c = false ->
  In (EUpToDate l) (o_events (build c w l0)) -> accepted (w_proj w) w l.
Proof.
  intros Hcr. unfold build. rewrite load_proj. destruct (link_ok (w_proj w)); [|intros []].
  unfold run_order; cbn [o_events]. rewrite <- in_rev. intros Hin.
  assert (H0 : skinv (w_proj w) (load w) (mkB (load w) [] [] [] false)).
  { split; [reflexivity|split; [intros x _; reflexivity|intros x []]]. }
  destruct (fold_skinv c (w_proj w) (load w) (order_of (w_proj w) l0) _ Hcr H0) as (_ & _ & Hacc).
  destruct (Hacc l Hin) as (d & Hd & Hrr & Halw & Hdata).
  exists d. rewrite !rec_of_load in *. repeat split; assumption.
Qed.
