(** The boolean check of [incremental_eq_clean]'s hypotheses (Build/CleanCheck.v) is sound. *)
From Dawn Require Import Build.Model Build.CleanCheck Build.Proofs Build.Proofs_Fresh Build.Proofs_Clean.

Lemma list_eqb_eq {A} (eqb : A -> A -> bool) :
  (forall x y, eqb x y = true -> x = y) -> forall a b, list_eqb eqb a b = true -> a = b.
Proof.
  intros H. induction a as [|x a IH]; intros [|y b]; simpl; try discriminate; [reflexivity|].
  intros E. apply andb_prop in E. destruct E as [E1 E2]. rewrite (H x y E1), (IH b E2). reflexivity.
Qed.

Lemma pair_eqb_eq a b : pair_eqb a b = true -> a = b.
Proof.
  destruct a as [a1 a2], b as [b1 b2]. unfold pair_eqb; simpl. intros E. apply andb_prop in E. destruct E as [E1 E2].
  apply N.eqb_eq in E1. apply N.eqb_eq in E2. subst. reflexivity.
Qed.

Lemma entry_eqb_eq a b : entry_eqb a b = true -> a = b.
Proof.
  destruct a as [[k1 r1] g1], b as [[k2 r2] g2]. unfold entry_eqb; simpl. intros E.
  apply andb_prop in E. destruct E as [E E3]. apply andb_prop in E. destruct E as [E1 E2].
  apply N.eqb_eq in E1. apply (list_eqb_eq pair_eqb pair_eqb_eq) in E2.
  apply (list_eqb_eq N.eqb (fun x y H => proj1 (N.eqb_eq x y) H)) in E3. subst. reflexivity.
Qed.

Lemma conformsb_ok T pr : conformsb T pr = true -> conforms T pr.
Proof.
  unfold conformsb. rewrite forallb_forall. intros H l deps srcs gens e k a Hl.
  specialize (H (l, Fn deps srcs gens e k a) (lookup_in _ _ _ Hl)). cbn [fst] in H. rewrite Hl in H.
  apply entry_eqb_eq in H. exact H.
Qed.

Lemma table_of_dom prs l e : snd (table_of prs l e) <> [] -> In (l, e) (dom prs).
Proof.
  induction prs as [|pr prs IH]; simpl; [intros H; contradiction|].
  intros H. apply in_or_app.
  destruct (lookup l pr) as [[deps srcs gens e' k a|p]|] eqn:Hl; try (right; apply IH; exact H).
  destruct (N.eqb_spec e' e) as [->|Hne]; [|right; apply IH; exact H].
  left. unfold dom1. apply in_flat_map. exists (l, Fn deps srcs gens e k a). split; [apply lookup_in; exact Hl|].
  simpl. left. reflexivity.
Qed.

Lemma mem_nonempty p g : mem p g = true -> g <> [].
Proof. destruct g; [discriminate|discriminate]. Qed.

Lemma owner_uniqueb_ok prs : owner_uniqueb prs = true -> owner_unique (table_of prs).
Proof.
  unfold owner_uniqueb. rewrite forallb_forall. intros H l1 e1 l2 e2 p H1 H2. unfold tgens in *.
  pose proof (table_of_dom prs l1 e1 (mem_nonempty _ _ H1)) as D1.
  pose proof (table_of_dom prs l2 e2 (mem_nonempty _ _ H2)) as D2.
  specialize (H (l1, e1) D1). rewrite forallb_forall in H. specialize (H (l2, e2) D2). cbn [fst snd] in H.
  apply orb_prop in H. destruct H as [H|H]; [apply N.eqb_eq; exact H|].
  exfalso. unfold disjointb in H. rewrite forallb_forall in H. specialize (H p (mem_In _ _ H1)).
  rewrite H2 in H. discriminate.
Qed.

Lemma unownedb_ok prs p : unownedb prs p = true -> unowned (table_of prs) p.
Proof.
  unfold unownedb. rewrite forallb_forall. intros H y e. unfold tgens.
  destruct (mem p (snd (table_of prs y e))) eqn:Hm; [|reflexivity].
  specialize (H (y, e) (table_of_dom prs y e (mem_nonempty _ _ Hm))). cbn [fst snd] in H. rewrite Hm in H. discriminate.
Qed.

Lemma crash_wfb_ok c : crash_wfb c = true -> crash_wf c.
Proof.
  unfold crash_wfb. rewrite forallb_forall. intros H x HS.
  assert (Hran : In x (c_ran c)).
  { unfold Sc in HS. apply andb_prop in HS. destruct HS as [HS _]. apply andb_prop in HS. destruct HS as [_ Hr].
    apply mem_In. exact Hr. }
  specialize (H x Hran). rewrite HS in H. exact H.
Qed.

Lemma op_okb_ok prs o : op_okb prs o = true -> op_ok (table_of prs) o.
Proof.
  destruct o as [pr|p [c|]|c l|]; simpl; intros H.
  - apply conformsb_ok; exact H.
  - apply unownedb_ok; exact H.
  - exact I.
  - apply crash_wfb_ok; exact H.
  - exact I.
Qed.

Lemma hist_okb_ok h :
  hist_okb h = true -> owner_unique (table_of (projects_of h)) /\ Forall (op_ok (table_of (projects_of h))) h.
Proof.
  unfold hist_okb. intros H. apply andb_prop in H. destruct H as [H1 H2]. split; [apply owner_uniqueb_ok; exact H1|].
  rewrite forallb_forall in H2. apply Forall_forall. intros o Ho. apply op_okb_ok. apply H2. exact Ho.
Qed.

(** C01, incremental = clean, with decidable hypotheses about the history *)
Theorem incremental_eq_clean_checked h c l :
  hist_okb h = true ->
  let w := run_history h in
  c_dry c = false -> c_crashed c = false -> link_ok (w_proj w) = true ->
  topo_ok (w_proj w) [] (order_of (w_proj w) l) = true ->
  let o := build c w l in
  (forall x, In x (order_of (w_proj w) l) -> exists v, lookup x (o_vis o) = Some v) ->
  (forall x v, lookup x (o_vis o) = Some v -> v_res v = ROk) ->
  let o' := build cfg0 (wipe (o_w o)) l in
  (forall p, lookup p (w_files (o_w o')) = lookup p (w_files (o_w o))) /\
  (forall x v, lookup x (o_vis o') = Some v -> v_res v = ROk) /\
  (forall x d, In x (order_of (w_proj w) l) -> lookup x (w_proj w) = Some d -> is_fn d = true -> In x (o_ran o')) /\
  o_bad o' = false.
Proof.
  intros H. destruct (hist_okb_ok h H) as [Hown Hall].
  exact (incremental_eq_clean (table_of (projects_of h)) h c l Hown Hall).
Qed.
