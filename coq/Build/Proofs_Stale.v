(** C01: after a successful build every target of the closure is current with respect to the ghost history of
    recorded executions. *)
From Dawn Require Import Build.Model Build.Proofs Build.Proofs_Fresh.

(** ** the equality tests are sound *)
Lemma content_eqb_eq : forall a b, content_eqb a b = true -> a = b.
Proof.
  fix IH 1. intros [n|t k ins] [m|t' k' ins']; simpl; try discriminate.
  - intros H; apply N.eqb_eq in H; subst; reflexivity.
  - intros H. apply andb_prop in H. destruct H as [H Hins]. apply andb_prop in H. destruct H as [Ht Hk].
    apply N.eqb_eq in Ht. apply N.eqb_eq in Hk. subst. f_equal.
    revert ins' Hins. induction ins as [|[x|] ins IHl]; intros [|[y|] ins'] H; simpl in H;
      try discriminate; try reflexivity.
    + apply andb_prop in H. destruct H as [Hx Hr]. rewrite (IH x y Hx), (IHl ins' Hr). reflexivity.
    + rewrite (IHl ins' H). reflexivity.
Qed.

Lemma data_eqb_eq a b : data_eqb a b = true -> a = b.
Proof.
  destruct a, b; simpl; try discriminate; intros H.
  - reflexivity.
  - apply N.eqb_eq in H; subst; reflexivity.
  - apply content_eqb_eq in H; subst; reflexivity.
Qed.

Lemma stamp_eqb_eq a b : stamp_eqb a b = true -> a = b.
Proof.
  destruct a as [d1 r1], b as [d2 r2]. unfold stamp_eqb; simpl. intros H.
  apply andb_prop in H. destruct H as [Hd Hr]. apply data_eqb_eq in Hd. apply N.eqb_eq in Hr. subst. reflexivity.
Qed.

(** ** ghost history and records agree *)
Definition ginv (w : world) : Prop :=
  forall l r e, lookup l (w_recs w) = Some r -> r_data r = DEnv e ->
    lookup l (w_last w) = Some (mkSnap e (r_run r) (r_deps r)).

Lemma ginv_init : ginv init_world.
Proof. intros l r e H; simpl in H; discriminate. Qed.

Lemma ginv_set_rec w l r : (forall e, r_data r <> DEnv e) -> ginv w -> ginv (set_rec w l r).
Proof.
  intros Hne G l' r' e Hl He. unfold set_rec in *; cbn [w_recs w_last] in *.
  destruct (N.eq_dec l' l) as [->|Hn].
  - rewrite lookup_update_same in Hl. inversion Hl; subst. exfalso. apply (Hne e He).
  - rewrite (lookup_update_other _ _ _ _ Hn) in Hl. apply (G l' r' e Hl He).
Qed.

Lemma step_target_ginv c w l d r vs w' v evs ran :
  step_target c w l d r vs = (w', v, evs, ran) -> ginv w -> ginv w'.
Proof.
  unfold step_target. intros H G.
  destruct (first_failure vs) as [[]|]; try (inversion H; subst; exact G).
  destruct (negb (c_always c) && deps_up_to_date r vs && up_to_date w d r &&
            negb (r_rerun r || match d with Fn _ _ _ _ _ a => a | Src _ => false end)).
  { inversion H; subst; exact G. }
  destruct (c_dry c). { inversion H; subst; exact G. }
  destruct d as [deps srcs gens env k alw|p].
  - destruct (c_crashed c && negb (mem l (c_ran c))). { inversion H; subst; exact G. }
    destruct (mem l (c_fail c)).
    + destruct (c_crashed c && negb (mem l (c_recorded c))); inversion H; subst; [exact G|].
      apply ginv_set_rec; [intros e; simpl; discriminate|exact G].
    + destruct (c_crashed c && negb (mem l (c_recorded c))); inversion H; subst.
      * intros l' r' e Hl He. cbn [w_recs w_last] in *. apply (G l' r' e Hl He).
      * intros l' r' e Hl He. cbn [w_recs w_last] in *.
        destruct (N.eq_dec l' l) as [->|Hn].
        -- rewrite lookup_update_same in Hl. inversion Hl; subst. simpl in He. inversion He; subst.
           rewrite lookup_update_same. reflexivity.
        -- rewrite (lookup_update_other _ _ _ _ Hn) in Hl. rewrite (lookup_update_other _ _ _ _ Hn).
           apply (G l' r' e Hl He).
  - destruct (c_crashed c && negb (mem l (c_recorded c))); inversion H; subst; [exact G|].
    apply ginv_set_rec; [|exact G]. intros e. unfold file_sum; simpl.
    destruct (lookup p (w_files w)); discriminate.
Qed.

Lemma eval1_ginv c s l : ginv (b_w s) -> ginv (b_w (eval1 c s l)).
Proof.
  intros G. unfold eval1.
  destruct (lookup l (b_vis s)); [exact G|].
  destruct (lookup l (w_proj (b_w s))) as [d|]; [|exact G].
  destruct (dep_visits (b_vis s) (deps_of (w_proj (b_w s)) d)) as [vs|]; [|exact G].
  destruct (step_target c (b_w s) l d (rec_of (b_w s) l) vs) as [[[w' v] evs] ran] eqn:Hst.
  exact (step_target_ginv _ _ _ _ _ _ _ _ _ _ Hst G).
Qed.

Lemma fold_ginv c order s : ginv (b_w s) -> ginv (b_w (fold_left (eval1 c) order s)).
Proof.
  revert s; induction order as [|l order IH]; intros s G; simpl; [exact G|].
  apply IH, eval1_ginv, G.
Qed.

Lemma load_ginv w : ginv w -> ginv (load w).
Proof.
  intros G l r e Hl He. rewrite load_recs, fold_load_lookup in Hl.
  destruct (lookup l (w_recs w)) as [r0|] eqn:Hr.
  - inversion Hl; subst. exact (G l r e Hr He).
  - destruct (existsb _ _); [|discriminate]. inversion Hl; subst. simpl in He. discriminate.
Qed.

Lemma mark_ginv w l : ginv w -> ginv (set_rec w l (mark_rec (rec_of w l))).
Proof.
  intros G l' r' e Hl He. unfold set_rec in *; cbn [w_recs w_last] in *.
  destruct (N.eq_dec l' l) as [->|Hn].
  - rewrite lookup_update_same in Hl. inversion Hl; subst. cbn [mark_rec r_data r_run r_deps] in *.
    unfold rec_of in *. destruct (lookup l (w_recs w)) as [r0|] eqn:E; [|simpl in He; discriminate].
    exact (G l r0 e E He).
  - rewrite (lookup_update_other _ _ _ _ Hn) in Hl. apply (G l' r' e Hl He).
Qed.

Lemma build_ginv c w l : ginv w -> ginv (o_w (build c w l)).
Proof.
  intros G. unfold build. destruct (link_ok _).
  - cbn [o_w]. apply premark_inv; [|intros w' l0 H; apply mark_ginv; exact H].
    unfold run_order; cbn [o_w]. apply fold_ginv. apply load_ginv, G.
  - apply load_ginv, G.
Qed.

Lemma gc_ginv w : ginv w -> ginv (gc w).
Proof.
  intros G l r e Hl He. unfold gc in Hl; cbn [w_recs] in Hl.
  pose proof (lookup_filter_key (fun k => match lookup k (w_proj (load w)) with Some _ => true | None => false end)
                l (w_recs (load w))) as Hf.
  cbn beta in Hf. rewrite Hf in Hl. destruct (lookup l (w_proj (load w))); [|discriminate].
  exact (load_ginv w G l r e Hl He).
Qed.

(** every reachable world satisfies the ghost invariant, whatever the history (edits, builds of any kind incl. failed and
    killed ones, collections) *)
Lemma apply_op_ginv w o : ginv w -> ginv (apply_op w o).
Proof.
  intros G. destruct o as [pr|p [c|]|c l|]; simpl.
  - exact G.
  - exact G.
  - exact G.
  - apply build_ginv, G.
  - apply gc_ginv, G.
Qed.

Lemma history_ginv h : ginv (run_history h).
Proof.
  unfold run_history. assert (H : forall w, ginv w -> ginv (fold_left apply_op h w)).
  { induction h as [|o h IH]; intros w G; simpl; [exact G|]. apply IH, apply_op_ginv, G. }
  apply H, ginv_init.
Qed.

(** ** current *)
(** [l]'s last recorded execution ran with [l]'s present environment, its outputs exist, it saw every function
    dependency exactly as that dependency's own last recorded execution left it (same environment, same run ID: the
    dependency has not executed since) and every source with its present content. *)
Definition current (w : world) (l : label) : Prop :=
  match lookup l (w_proj w) with
  | Some (Fn deps srcs gens env k alw) =>
      exists sn, lookup l (w_last w) = Some sn /\ s_env sn = env /\ gens_exist w gens = true /\
        forall dep, In dep (deps ++ srcs) ->
          match lookup dep (w_proj w) with
          | Some (Fn _ _ _ _ _ _) =>
              exists sd, lookup dep (w_last w) = Some sd /\
                         lookup dep (s_seen sn) = Some (DEnv (s_env sd), s_run sd)
          | Some (Src p) => exists run, lookup dep (s_seen sn) = Some (file_sum w p, run)
          | None => False
          end
  | _ => True
  end.

Lemma fresh_current pr w vis l v :
  w_proj w = pr -> ginv w ->
  (forall x vx, lookup x vis = Some vx -> v_res vx = ROk ->
      exists d, lookup x pr = Some d /\ fresh pr w vis x d vx) ->
  (forall x vx, lookup x vis = Some vx -> v_res vx = ROk) ->
  lookup l vis = Some v -> current w l.
Proof.
  intros Hpr G Hfresh Hallok Hl. unfold current. rewrite Hpr.
  destruct (Hfresh l v Hl (Hallok l v Hl)) as (d & Hd & (Hst & Hrr & (vs & Hvs & Hprev) & Hutd & _)).
  rewrite Hd. destruct d as [deps srcs gens env k alw|p]; [|exact I].
  unfold utd_core in Hutd. destruct (r_data (rec_of w l)) as [|e|] eqn:Hdata; try discriminate.
  apply andb_prop in Hutd. destruct Hutd as [He Hg]. apply N.eqb_eq in He. subst e.
  (* the record exists and is a success record, so the ghost agrees with it *)
  assert (Hrec : lookup l (w_recs w) = Some (rec_of w l)).
  { unfold rec_of in *. destruct (lookup l (w_recs w)); [reflexivity|simpl in Hdata; discriminate]. }
  pose proof (G l (rec_of w l) env Hrec Hdata) as Hlast.
  eexists. split; [exact Hlast|]. cbn [s_env s_seen]. split; [reflexivity|split; [exact Hg|]].
  intros dep Hdep. cbn [deps_of] in Hvs.
  (* the visit of the dependency *)
  assert (Hvd : exists vd, In (dep, vd) vs).
  { clear - Hvs Hdep. revert vs Hvs. induction (deps ++ srcs) as [|x dl IH]; intros vs Hvs; [destruct Hdep|].
    simpl in Hvs. destruct (lookup x vis) as [vx|]; [|discriminate].
    destruct (dep_visits vis dl) as [vs'|]; [|discriminate]. inversion Hvs; subst.
    destruct Hdep as [->|Hdep]; [exists vx; left; reflexivity|].
    destruct (IH Hdep vs' eq_refl) as (vd & Hin). exists vd. right; exact Hin. }
  destruct Hvd as (vd & Hin).
  destruct (Hprev dep vd Hin) as (prev & Hlk & Heq). apply stamp_eqb_eq in Heq. subst prev.
  destruct (dep_visits_in _ _ _ _ _ Hvs Hin) as [Hvis _].
  destruct (Hfresh dep vd Hvis (Hallok dep vd Hvis)) as (dd & Hdd & (Hstd & _ & _ & Hutdd & _)).
  rewrite Hdd. unfold rstamp in Hstd. rewrite Hstd in Hlk.
  destruct dd as [deps' srcs' gens' env' k' alw'|p'].
  - unfold utd_core in Hutdd. destruct (r_data (rec_of w dep)) as [|e'|] eqn:Hdata'; try discriminate.
    assert (Hrec' : lookup dep (w_recs w) = Some (rec_of w dep)).
    { unfold rec_of in *. destruct (lookup dep (w_recs w)); [reflexivity|simpl in Hdata'; discriminate]. }
    pose proof (G dep (rec_of w dep) e' Hrec' Hdata') as Hlast'.
    eexists. split; [exact Hlast'|]. cbn [s_env s_run]. exact Hlk.
  - unfold utd_core in Hutdd. apply data_eqb_eq in Hutdd. rewrite Hutdd in Hlk.
    exists (r_run (rec_of w dep)). exact Hlk.
Qed.

(** ** never stale *)
Lemma never_stale_run c w order :
  c_dry c = false -> c_crashed c = false -> link_ok (w_proj w) = true -> ginv w ->
  let s1 := fold_left (eval1 c) order (mkB w [] [] [] false) in
  (forall x v, lookup x (b_vis s1) = Some v -> v_res v = ROk) ->
  forall x v, lookup x (b_vis s1) = Some v -> current (b_w s1) x.
Proof.
  intros Hdry Hcr Hlink G s1 Hallok x v Hx.
  assert (Hf : finv (w_proj w) s1).
  { apply fold_finv; try assumption. split; [reflexivity|]. intros y vy Hy. simpl in Hy. discriminate. }
  destruct Hf as [Hpr Hfresh].
  apply (fresh_current (w_proj w) (b_w s1) (b_vis s1) x v Hpr); try assumption.
  unfold s1. apply fold_ginv. exact G.
Qed.

(** C01: after ANY history of edits, builds (full, partial, failing, killed, dry, always) and collections, a build that
    visits every target of the requested closure successfully leaves every one of them current. *)
Theorem never_stale h c l :
  let w := run_history h in
  c_dry c = false -> c_crashed c = false -> link_ok (w_proj w) = true ->
  let o := build c w l in
  (forall x v, lookup x (o_vis o) = Some v -> v_res v = ROk) ->
  forall x v, lookup x (o_vis o) = Some v -> current (o_w o) x.
Proof.
  intros w Hdry Hcr Hlink. cbv zeta.
  assert (Eb : build c w l = run_order c (load w) (order_of (w_proj w) l) l) by (apply build_nocrash; assumption).
  rewrite Eb. clear Eb. intros Hallok x v Hx.
  apply (never_stale_run c (load w) (order_of (w_proj w) l) Hdry Hcr) with (v := v); try assumption.
  apply load_ginv, history_ginv.
Qed.

(** ** run IDs identify executions: every ID a snapshot holds or has seen is below the counter, and each recorded
    execution takes the counter's value -- so a dependency that executes again gets an ID no snapshot has seen *)
Lemma executed_run_is_fresh c w l deps srcs gens env k alw vs w' v evs :
  step_target c w l (Fn deps srcs gens env k alw) (rec_of w l) vs = (w', v, evs, true) ->
  v_res v = ROk ->
  lookup l (w_last w') = Some (mkSnap env (w_nextrun w) (map (fun lv => (fst lv, stamp_of (snd lv))) vs)) /\
  w_nextrun w' = w_nextrun w + 1.
Proof.
  unfold step_target.
  destruct (first_failure vs) as [[]|]; try (intros H0; inversion H0; fail).
  destruct (negb (c_always c) && deps_up_to_date (rec_of w l) vs && up_to_date w (Fn deps srcs gens env k alw) (rec_of w l) &&
            negb (r_rerun (rec_of w l) || alw)). { intros H0; inversion H0. }
  destruct (c_dry c). { intros H0; inversion H0. }
  destruct (c_crashed c && negb (mem l (c_ran c))). { intros H0; inversion H0. }
  destruct (mem l (c_fail c)).
  { destruct (c_crashed c && negb (mem l (c_recorded c))); intros H0; inversion H0; subst; simpl; discriminate. }
  destruct (c_crashed c && negb (mem l (c_recorded c))); intros H0; inversion H0; subst; cbn [v_res w_last w_nextrun]; [discriminate|].
  intros _. rewrite lookup_update_same. split; reflexivity.
Qed.

(** every run ID the ghost history holds is below the counter (so the ID taken by the next execution is new) *)
Definition runs_below (w : world) : Prop :=
  forall l sn, lookup l (w_last w) = Some sn -> s_run sn < w_nextrun w.

Lemma step_target_runs c w l d r vs w' v evs ran :
  step_target c w l d r vs = (w', v, evs, ran) -> runs_below w -> runs_below w' /\ w_nextrun w <= w_nextrun w'.
Proof.
  unfold step_target. intros H R.
  assert (Hsame : runs_below w /\ w_nextrun w <= w_nextrun w) by (split; [exact R|lia]).
  destruct (first_failure vs) as [[]|]; try (inversion H; subst; exact Hsame).
  destruct (negb (c_always c) && deps_up_to_date r vs && up_to_date w d r &&
            negb (r_rerun r || match d with Fn _ _ _ _ _ a => a | Src _ => false end)).
  { inversion H; subst; exact Hsame. }
  destruct (c_dry c). { inversion H; subst; exact Hsame. }
  destruct d as [deps srcs gens env k alw|p].
  - destruct (c_crashed c && negb (mem l (c_ran c))). { inversion H; subst; exact Hsame. }
    destruct (mem l (c_fail c)).
    + destruct (c_crashed c && negb (mem l (c_recorded c))); inversion H; subst; exact Hsame.
    + destruct (c_crashed c && negb (mem l (c_recorded c))); inversion H; subst.
      * split; [|cbn [w_nextrun]; lia]. intros l' sn Hl. cbn [w_last w_nextrun] in *. apply (R l' sn Hl).
      * split; [|cbn [w_nextrun]; lia]. intros l' sn Hl. cbn [w_last w_nextrun] in *.
        destruct (N.eq_dec l' l) as [->|Hn].
        -- rewrite lookup_update_same in Hl. inversion Hl; subst. cbn [s_run]. lia.
        -- rewrite (lookup_update_other _ _ _ _ Hn) in Hl. pose proof (R l' sn Hl). lia.
  - destruct (c_crashed c && negb (mem l (c_recorded c))); inversion H; subst; exact Hsame.
Qed.

Lemma eval1_runs c s l : runs_below (b_w s) -> runs_below (b_w (eval1 c s l)).
Proof.
  intros R. unfold eval1.
  destruct (lookup l (b_vis s)); [exact R|].
  destruct (lookup l (w_proj (b_w s))) as [d|]; [|exact R].
  destruct (dep_visits (b_vis s) (deps_of (w_proj (b_w s)) d)) as [vs|]; [|exact R].
  destruct (step_target c (b_w s) l d (rec_of (b_w s) l) vs) as [[[w' v] evs] ran] eqn:Hst.
  exact (proj1 (step_target_runs _ _ _ _ _ _ _ _ _ _ Hst R)).
Qed.

Lemma fold_runs c order s : runs_below (b_w s) -> runs_below (b_w (fold_left (eval1 c) order s)).
Proof.
  revert s; induction order as [|l order IH]; intros s R; simpl; [exact R|]. apply IH, eval1_runs, R.
Qed.

Lemma history_runs_below h : runs_below (run_history h).
Proof.
  unfold run_history.
  assert (H : forall w, runs_below w -> runs_below (fold_left apply_op h w)).
  { induction h as [|o h IH]; intros w R; simpl; [exact R|]. apply IH.
    destruct o as [pr|p [c|]|c l|]; simpl; try exact R.
    unfold build. destruct (link_ok _); [|exact R].
    cbn [o_w]. apply premark_inv; [|intros w' l0 H; exact H].
    unfold run_order; cbn [o_w]. apply fold_runs. exact R. }
  apply H. intros l sn Hl. simpl in Hl. discriminate.
Qed.
