(** Model of lineWriter.go (Write / Flush) and its chunking invariant (C18). *)
From Dawn Require Import Base.Bytes.

Definition nl : N := 10.

(** Write(b): every '\n' delivers the buffered line (the Go code prints b[:newline] directly when the buffer is empty
    and buffer+b[:newline] otherwise -- the same line), bytes after the last '\n' stay buffered *)
Fixpoint lw_write (buf : str) (b : str) : str * list str :=
  match b with
  | [] => (buf, [])
  | c :: r => if c =? nl then let (buf', ls) := lw_write [] r in (buf', buf :: ls)
              else lw_write (buf ++ [c]) r
  end.

(** Flush(): deliver a non-empty partial line and reset the buffer *)
Definition lw_flush (buf : str) : str * list str :=
  match buf with [] => ([], []) | _ => ([], [buf]) end.

(** a sequence of Write calls followed by Flush *)
Fixpoint lw_writes (buf : str) (chunks : list str) : str * list str :=
  match chunks with
  | [] => (buf, [])
  | c :: r => let (b1, l1) := lw_write buf c in
              let (b2, l2) := lw_writes b1 r in (b2, l1 ++ l2)
  end.

Definition lw_run (buf : str) (chunks : list str) : str * list str :=
  let (b1, l1) := lw_writes buf chunks in
  let (b2, l2) := lw_flush b1 in (b2, l1 ++ l2).

(** specification: the lines of a byte stream: the pieces between '\n's, the last one only when non-empty *)
Definition lines_of (s : str) : list str :=
  let ps := split_on nl s in
  removelast ps ++ match last ps [] with [] => [] | p => [p] end.

(** ** proofs *)
Lemma lw_write_app buf a b :
  lw_write buf (a ++ b) =
  let (b1, l1) := lw_write buf a in let (b2, l2) := lw_write b1 b in (b2, l1 ++ l2).
Proof.
  revert buf; induction a as [|c a IH]; intros buf; simpl.
  - destruct (lw_write buf b); reflexivity.
  - destruct (c =? nl).
    + rewrite IH. destruct (lw_write [] a) as [b1 l1]. destruct (lw_write b1 b) as [b2 l2]. reflexivity.
    + apply IH.
Qed.

Lemma lw_writes_concat buf chunks : lw_writes buf chunks = lw_write buf (concat chunks).
Proof.
  revert buf; induction chunks as [|c r IH]; intros buf; simpl; [reflexivity|].
  rewrite lw_write_app. destruct (lw_write buf c) as [b1 l1]. rewrite IH. reflexivity.
Qed.

Lemma split_on_nonempty c s : split_on c s <> [].
Proof.
  induction s as [|x s IH]; simpl; [discriminate|].
  destruct (split_on c s); [contradiction|]. destruct (x =? c); discriminate.
Qed.

(** what Write leaves and delivers, in terms of the pieces of buf ++ b *)
Lemma lw_write_spec buf b :
  (forall x, In x buf -> x <> nl) ->
  lw_write buf b = (last (split_on nl (buf ++ b)) [], removelast (split_on nl (buf ++ b))).
Proof.
  revert buf; induction b as [|c r IH]; intros buf Hbuf.
  - rewrite app_nil_r. simpl.
    assert (H : split_on nl buf = [buf]).
    { induction buf as [|x buf IHb]; simpl; [reflexivity|].
      rewrite IHb by (intros y Hy; apply Hbuf; right; exact Hy).
      destruct (N.eqb_spec x nl) as [E|_]; [exfalso; apply (Hbuf x); [left; reflexivity|exact E]|reflexivity]. }
    rewrite H. reflexivity.
  - simpl. destruct (N.eqb_spec c nl) as [->|Hc].
    + rewrite (IH [] (fun x (H : In x []) => match H with end)). simpl.
      assert (H : split_on nl (buf ++ nl :: r) = buf :: split_on nl r).
      { clear IH. induction buf as [|x buf IHb]; simpl.
        - destruct (split_on nl r) eqn:E; [exfalso; exact (split_on_nonempty _ _ E)|reflexivity].
        - rewrite IHb by (intros y Hy; apply Hbuf; right; exact Hy).
          destruct (N.eqb_spec x nl) as [E|_]; [exfalso; apply (Hbuf x); [left; reflexivity|exact E]|reflexivity]. }
      rewrite H. destruct (split_on nl r) eqn:E; [exfalso; exact (split_on_nonempty _ _ E)|]. reflexivity.
    + rewrite IH.
      * rewrite <- app_assoc. reflexivity.
      * intros x Hx. apply in_app_or in Hx. destruct Hx as [Hx|[<-|[]]]; [apply Hbuf; exact Hx|exact Hc].
Qed.

(** C18: whatever the chunking, a fresh writer delivers exactly the lines of the concatenated stream, each once, in order,
    and is left empty *)
Lemma lines_chunking_invariant chunks : lw_run [] chunks = ([], lines_of (concat chunks)).
Proof.
  unfold lw_run. rewrite lw_writes_concat.
  rewrite (lw_write_spec [] (concat chunks) (fun x (H : In x []) => match H with end)). simpl.
  unfold lines_of, lw_flush. destruct (last (split_on nl (concat chunks)) []); reflexivity.
Qed.

(** Flush leaves the buffer empty, so a second Flush, or a later use of the same writer, repeats nothing *)
Lemma flush_leaves_empty buf : fst (lw_flush buf) = [] /\ lw_flush (fst (lw_flush buf)) = ([], []).
Proof. destruct buf; split; reflexivity. Qed.

Lemma lw_run_twice c1 c2 :
  let (b1, l1) := lw_run [] c1 in
  lw_run b1 c2 = ([], lines_of (concat c2)).
Proof. rewrite lines_chunking_invariant. apply lines_chunking_invariant. Qed.
