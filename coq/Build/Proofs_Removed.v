(** Since fix 9a22738 a record that holds a stamp for a dependency which is no longer declared makes its target out of
    date: proofs for the statements in Build/Props_C01.v. *)
From Dawn Require Import Build.Model Build.Proofs Build.Proofs_Fresh.

Ltac no_utd :=
  let Hin := fresh "Hin" in
  intros Hin; simpl in Hin; repeat (destruct Hin as [Hin|Hin]; [discriminate|]); destruct Hin.

Lemma skipped_has_no_removed_deps c w l d r vs w' v evs ran :
  step_target c w l d r vs = (w', v, evs, ran) -> In (EUpToDate l) evs ->
  deps_match r vs = true /\ no_removed_deps r vs = true /\ ran = false /\ w' = w.
Proof.
  unfold step_target.
  destruct (first_failure vs) as [r0|]; [destruct r0; intros H; inversion H; subst; no_utd|].
  destruct (negb (c_always c) && deps_up_to_date r vs && up_to_date w d r &&
            negb (r_rerun r || match d with Fn _ _ _ _ _ a => a | Src _ => false end)) eqn:Hcond.
  - intros H; inversion H; subst. intros _.
    apply andb_prop in Hcond. destruct Hcond as [Hcond _].
    apply andb_prop in Hcond. destruct Hcond as [Hcond _].
    apply andb_prop in Hcond. destruct Hcond as [_ Hdeps].
    unfold deps_up_to_date in Hdeps. apply andb_prop in Hdeps. destruct Hdeps as [H1 H2].
    repeat split; assumption.
  - destruct (c_dry c).
    { intros H; inversion H; subst. no_utd. }
    destruct d as [deps srcs gens env k alw|p].
    + destruct (c_crashed c && negb (mem l (c_ran c))).
      { intros H; inversion H; subst. no_utd. }
      destruct (mem l (c_fail c)).
      { intros H; inversion H; subst. no_utd. }
      destruct (c_crashed c && negb (mem l (c_recorded c))).
      { intros H; inversion H; subst. no_utd. }
      intros H; inversion H; subst. no_utd.
    + destruct (c_crashed c && negb (mem l (c_recorded c))).
      { intros H; inversion H; subst. no_utd. }
      intros H; inversion H; subst. no_utd.
Qed.

(** in terms of the declared list: every label the record has a stamp for is a declared dependency *)
Lemma skipped_record_names_declared_only c w l d vis vs w' v evs ran :
  dep_visits vis (deps_of (w_proj w) d) = Some vs ->
  step_target c w l d (rec_of w l) vs = (w', v, evs, ran) -> In (EUpToDate l) evs ->
  forall dl st, In (dl, st) (r_deps (rec_of w l)) -> In dl (deps_of (w_proj w) d).
Proof.
  intros Hvs Hst Hev dl st Hin.
  destruct (skipped_has_no_removed_deps _ _ _ _ _ _ _ _ _ _ Hst Hev) as (_ & Hn & _ & _).
  rewrite (no_removed_declared _ _ _ _ Hvs) in Hn. rewrite forallb_forall in Hn.
  specialize (Hn (dl, st) Hin). cbn [fst] in Hn. apply mem_In. exact Hn.
Qed.
