(** Proofs about the engine model: map lemmas, the structure of [eval1], dry runs (C13),
    event protocol (C18), garbage collection (C14). *)
From Dawn Require Import Build.Model.

(** ** association lists *)
Lemma lookup_update_same {A} k (v : A) m : lookup k (update k v m) = Some v.
Proof. unfold update; simpl; rewrite N.eqb_refl; reflexivity. Qed.

Lemma lookup_filter_ne {A} k k' (m : list (N * A)) :
  k <> k' -> lookup k (filter (fun kv => negb (fst kv =? k')) m) = lookup k m.
Proof.
  intros Hne; induction m as [|[a v] m IH]; simpl; [reflexivity|].
  destruct (N.eqb_spec a k') as [->|Hak]; simpl.
  - destruct (N.eqb_spec k k'); [contradiction|]. exact IH.
  - destruct (N.eqb_spec k a); [reflexivity|exact IH].
Qed.

Lemma lookup_update_other {A} k k' (v : A) m : k <> k' -> lookup k (update k' v m) = lookup k m.
Proof.
  intros Hne; unfold update; simpl.
  destruct (N.eqb_spec k k'); [contradiction|]. apply lookup_filter_ne; assumption.
Qed.

Lemma lookup_filter_same {A} k (m : list (N * A)) :
  lookup k (filter (fun kv => negb (fst kv =? k)) m) = None.
Proof.
  induction m as [|[a v] m IH]; simpl; [reflexivity|].
  destruct (N.eqb_spec a k) as [->|Hak]; simpl; [exact IH|].
  destruct (N.eqb_spec k a); [congruence|exact IH].
Qed.

(** ** [eval1] touches only the evaluated label's visit and emits only its events *)
Definition ev_label (e : event) : label :=
  match e with EUpToDate l | EEvaluating l | ESucceeded l | EFailed l => l end.

Definition events_of (l : label) (evs : list event) : list event :=
  filter (fun e => ev_label e =? l) evs.

(** *** [step_target]: shape of the emitted events *)
Inductive shape (c : bcfg) (l : label) : list event -> Prop :=
| sh_none : shape c l []
| sh_utd : shape c l [EUpToDate l]
| sh_ok : shape c l [ESucceeded l; EEvaluating l]
| sh_fail : shape c l [EFailed l; EEvaluating l]
| sh_lone : shape c l [EFailed l]
| sh_cut : c_crashed c = true -> shape c l [EEvaluating l].

Lemma step_target_shape c w l d r vs w' v evs ran :
  step_target c w l d r vs = (w', v, evs, ran) -> shape c l evs.
Proof.
  unfold step_target.
  destruct (first_failure vs) as [[]|].
  all: try (intros H; inversion H; subst; constructor).
  destruct (negb (c_always c) && deps_up_to_date r vs && up_to_date w d r &&
            negb (r_rerun r || match d with Fn _ _ _ _ _ a => a | Src _ => false end)).
  { intros H; inversion H; subst; constructor. }
  destruct (c_dry c).
  { intros H; inversion H; subst; constructor. }
  destruct d as [deps srcs gens env k alw|p].
  - destruct (c_crashed c) eqn:Hc; simpl.
    + destruct (negb (mem l (c_ran c))).
      { intros H; inversion H; subst; constructor; assumption. }
      destruct (mem l (c_fail c)).
      { intros H; inversion H; subst; constructor. }
      destruct (negb (mem l (c_recorded c))); intros H; inversion H; subst; constructor; assumption.
    + destruct (mem l (c_fail c)); intros H; inversion H; subst; constructor.
  - destruct (c_crashed c) eqn:Hc; simpl.
    + destruct (negb (mem l (c_recorded c))); intros H; inversion H; subst; constructor; assumption.
    + intros H; inversion H; subst; constructor.
Qed.

Lemma shape_labels c l evs : shape c l evs -> forall e, In e evs -> ev_label e = l.
Proof.
  intros H e He; inversion H; subst; simpl in He;
    repeat (destruct He as [<-|He]; [reflexivity|]); contradiction.
Qed.

(** *** a dry run changes nothing and runs no body *)
Lemma step_target_dry c w l d r vs w' v evs ran :
  c_dry c = true -> step_target c w l d r vs = (w', v, evs, ran) -> w' = w /\ ran = false.
Proof.
  intros Hdry. unfold step_target. rewrite Hdry.
  destruct (first_failure vs) as [[]|].
  all: try (intros H; inversion H; subst; split; reflexivity).
  destruct (negb (c_always c) && deps_up_to_date r vs && up_to_date w d r &&
            negb (r_rerun r || match d with Fn _ _ _ _ _ a => a | Src _ => false end));
    intros H; inversion H; subst; split; reflexivity.
Qed.

Lemma eval1_visited c s l v : lookup l (b_vis s) = Some v -> eval1 c s l = s.
Proof. intros H; unfold eval1; rewrite H; reflexivity. Qed.

(** *** the shape of [eval1] *)
Lemma eval1_shape c s l :
  lookup l (b_vis s) = None ->
  (eval1 c s l = mkB (b_w s) (b_vis s) (b_events s) (b_ran s) true) \/
  exists w' v evs ran,
    eval1 c s l = finish s w' l v evs ran /\ shape c l evs.
Proof.
  intros Hn. unfold eval1. rewrite Hn.
  destruct (lookup l (w_proj (b_w s))) as [d|].
  2:{ right. do 4 eexists. split; [reflexivity|constructor]. }
  destruct (dep_visits (b_vis s) (deps_of (w_proj (b_w s)) d)) as [vs|].
  2:{ left; reflexivity. }
  destruct (step_target c (b_w s) l d (rec_of (b_w s) l) vs) as [[[w' v] evs] ran] eqn:Hst.
  right. do 4 eexists. split; [reflexivity|]. eapply step_target_shape; eassumption.
Qed.

Lemma eval1_dry c s l : c_dry c = true -> b_w (eval1 c s l) = b_w s /\ b_ran (eval1 c s l) = b_ran s.
Proof.
  intros Hdry. unfold eval1.
  destruct (lookup l (b_vis s)); [split; reflexivity|].
  destruct (lookup l (w_proj (b_w s))) as [d|]; [|split; reflexivity].
  destruct (dep_visits (b_vis s) (deps_of (w_proj (b_w s)) d)) as [vs|]; [|split; reflexivity].
  destruct (step_target c (b_w s) l d (rec_of (b_w s) l) vs) as [[[w' v] evs] ran] eqn:Hst.
  destruct (step_target_dry _ _ _ _ _ _ _ _ _ _ Hdry Hst) as [-> ->]. split; reflexivity.
Qed.

Lemma fold_eval1_dry c order s :
  c_dry c = true ->
  b_w (fold_left (eval1 c) order s) = b_w s /\ b_ran (fold_left (eval1 c) order s) = b_ran s.
Proof.
  intros Hdry; revert s; induction order as [|l order IH]; intros s; simpl; [split; reflexivity|].
  destruct (IH (eval1 c s l)) as [-> ->]. apply eval1_dry; assumption.
Qed.

(** C13, first half, for the run itself *)
Lemma dry_run_no_effects c w order l :
  c_dry c = true -> o_w (run_order c w order l) = w /\ o_ran (run_order c w order l) = [].
Proof.
  intros Hdry. unfold run_order; simpl.
  destruct (fold_eval1_dry c order (mkB w [] [] [] false) Hdry) as [-> ->]. split; reflexivity.
Qed.

(** *** load is idempotent and touches only records *)
Lemma load_proj w : w_proj (load w) = w_proj w.  Proof. reflexivity. Qed.
Lemma load_files w : w_files (load w) = w_files w.  Proof. reflexivity. Qed.

Definition load_step (acc : list (label * rec)) (lt : label * tdef) : list (label * rec) :=
  match snd lt with
  | Fn _ _ _ _ _ _ => match lookup (fst lt) acc with Some _ => acc | None => acc ++ [(fst lt, empty_rec)] end
  | Src _ => acc
  end.

Lemma lookup_app_none {A} k (m1 m2 : list (N * A)) :
  lookup k (m1 ++ m2) = match lookup k m1 with Some v => Some v | None => lookup k m2 end.
Proof.
  induction m1 as [|[a v] m1 IH]; simpl; [reflexivity|].
  destruct (k =? a); [reflexivity|exact IH].
Qed.

(** after [load], a label has a record iff it had one before or it is a function target; existing records are unchanged *)
Lemma load_step_lookup acc lt l :
  lookup l (load_step acc lt) =
  match lookup l acc with
  | Some r => Some r
  | None => if (l =? fst lt) && is_fn (snd lt) then Some empty_rec else None
  end.
Proof.
  unfold load_step. destruct lt as [k d]; simpl. destruct d; simpl.
  - destruct (lookup k acc) eqn:Hk.
    + destruct (lookup l acc) eqn:Hl; [reflexivity|].
      destruct (N.eqb_spec l k) as [->|]; [congruence|reflexivity].
    + rewrite lookup_app_none. destruct (lookup l acc); [reflexivity|]. simpl.
      rewrite andb_true_r. destruct (l =? k); reflexivity.
  - rewrite andb_false_r. destruct (lookup l acc); reflexivity.
Qed.

Lemma fold_load_lookup pr acc l :
  lookup l (fold_left load_step pr acc) =
  match lookup l acc with
  | Some r => Some r
  | None => if existsb (fun lt => (l =? fst lt) && is_fn (snd lt)) pr then Some empty_rec else None
  end.
Proof.
  revert acc; induction pr as [|lt pr IH]; intros acc; simpl.
  - destruct (lookup l acc); reflexivity.
  - rewrite IH, load_step_lookup. destruct (lookup l acc); [reflexivity|].
    destruct ((l =? fst lt) && is_fn (snd lt)); reflexivity.
Qed.

Lemma load_recs w : w_recs (load w) = fold_left load_step (w_proj w) (w_recs w).
Proof. reflexivity. Qed.

(** the record a build reads is the same before and after the load's refresh (an absent record reads as empty) *)
Lemma rec_of_load w l : rec_of (load w) l = rec_of w l.
Proof.
  unfold rec_of. rewrite load_recs, fold_load_lookup.
  destruct (lookup l (w_recs w)); [reflexivity|].
  destruct (existsb _ _); reflexivity.
Qed.

(** *** load is idempotent *)
Lemma fold_load_fixed pr acc :
  (forall lt, In lt pr -> is_fn (snd lt) = true -> lookup (fst lt) acc <> None) ->
  fold_left load_step pr acc = acc.
Proof.
  revert acc; induction pr as [|lt pr IH]; intros acc H; simpl; [reflexivity|].
  assert (Hs : load_step acc lt = acc).
  { unfold load_step. destruct (snd lt) eqn:Hd; [|reflexivity].
    destruct (lookup (fst lt) acc) eqn:Hl; [reflexivity|].
    exfalso. apply (H lt); [left; reflexivity| rewrite Hd; reflexivity | exact Hl]. }
  rewrite Hs. apply IH. intros lt' Hin. apply H. right; exact Hin.
Qed.

Lemma load_idem w : load (load w) = load w.
Proof.
  unfold load at 1. fold (load_step).
  change (fold_left _ (w_proj (load w)) (w_recs (load w))) with
         (fold_left load_step (w_proj w) (w_recs (load w))).
  rewrite fold_load_fixed.
  - destruct (load w); reflexivity.
  - intros lt Hin Hfn. rewrite load_recs, fold_load_lookup.
    destruct (lookup (fst lt) (w_recs w)); [discriminate|].
    assert (E : existsb (fun lt0 => (fst lt =? fst lt0) && is_fn (snd lt0)) (w_proj w) = true).
    { apply existsb_exists. exists lt. split; [exact Hin|]. rewrite N.eqb_refl, Hfn; reflexivity. }
    rewrite E; discriminate.
Qed.

(** *** the re-run marks of a killed build *)
Lemma premark_dry c w : c_dry c = true -> premark c w = w.
Proof. intros H. unfold premark. rewrite H, andb_false_r. reflexivity. Qed.

Lemma premark_nocrash c w : c_crashed c = false -> premark c w = w.
Proof. intros H. unfold premark. rewrite H. reflexivity. Qed.

Lemma premark_fold_inv (P : world -> Prop) rc pm w :
  P w -> (forall w' l, P w' -> P (set_rec w' l (mark_rec (rec_of w' l)))) ->
  P (fold_left (fun w l => if mem l rc then w else set_rec w l (mark_rec (rec_of w l))) pm w).
Proof.
  intros H0 Hstep. revert w H0. induction pm as [|l pm IH]; intros w H0; simpl; [exact H0|].
  apply IH. destruct (mem l rc); [exact H0|apply Hstep; exact H0].
Qed.

Lemma premark_inv (P : world -> Prop) c w :
  P w -> (forall w' l, P w' -> P (set_rec w' l (mark_rec (rec_of w' l)))) -> P (premark c w).
Proof.
  intros H0 Hstep. unfold premark. destruct (c_crashed c && negb (c_dry c)); [|exact H0].
  apply premark_fold_inv; assumption.
Qed.

Lemma premark_proj c w : w_proj (premark c w) = w_proj w.
Proof. apply (premark_inv (fun w' => w_proj w' = w_proj w)); [reflexivity|intros w' l H; exact H]. Qed.

Lemma premark_files c w : w_files (premark c w) = w_files w.
Proof. apply (premark_inv (fun w' => w_files w' = w_files w)); [reflexivity|intros w' l H; exact H]. Qed.

Lemma build_unfold c w l :
  link_ok (w_proj w) = true ->
  build c w l = let o := run_order c (load w) (order_of (w_proj w) l) l in
                mkOut (premark c (o_w o)) (o_events o) (o_ran o) (o_res o) (o_bad o) (o_vis o).
Proof. intros H. unfold build. rewrite load_proj, H. reflexivity. Qed.

Lemma build_nocrash c w l :
  c_crashed c = false -> link_ok (w_proj w) = true ->
  build c w l = run_order c (load w) (order_of (w_proj w) l) l.
Proof.
  intros Hc Hl. rewrite (build_unfold c w l Hl). cbv zeta. rewrite (premark_nocrash _ _ Hc).
  unfold run_order. reflexivity.
Qed.

(** C13: a dry build leaves exactly the state a load leaves, and runs no body *)
Lemma dry_build_no_effects c w l :
  c_dry c = true -> o_w (build c w l) = load w /\ o_ran (build c w l) = [].
Proof.
  intros Hdry. unfold build. destruct (link_ok (w_proj (load w))).
  - cbn [o_w o_ran]. rewrite (premark_dry _ _ Hdry). apply dry_run_no_effects; assumption.
  - split; reflexivity.
Qed.

(** C13: a dry run never changes what the next build does *)
Lemma dry_run_transparent c c' w l l' :
  c_dry c = true -> build c' (o_w (build c w l)) l' = build c' w l'.
Proof.
  intros Hdry. destruct (dry_build_no_effects c w l Hdry) as [-> _].
  unfold build. rewrite load_idem. reflexivity.
Qed.

(** *** C18: per-label event protocol *)
Lemma events_of_app l a b : events_of l (a ++ b) = events_of l a ++ events_of l b.
Proof. unfold events_of. apply filter_app. Qed.

Lemma events_of_all l evs : (forall e, In e evs -> ev_label e = l) -> events_of l evs = evs.
Proof.
  induction evs as [|e evs IH]; intros H; simpl; [reflexivity|].
  rewrite (H e (or_introl eq_refl)), N.eqb_refl. f_equal. apply IH. intros e' He'. apply H; right; exact He'.
Qed.

Lemma events_of_none l l' evs : l <> l' -> (forall e, In e evs -> ev_label e = l') -> events_of l evs = [].
Proof.
  intros Hne. induction evs as [|e evs IH]; intros H; simpl; [reflexivity|].
  rewrite (H e (or_introl eq_refl)). destruct (N.eqb_spec l' l); [congruence|].
  apply IH. intros e' He'. apply H; right; exact He'.
Qed.

Definition ev_inv (c : bcfg) (s : bstate) : Prop :=
  forall l, shape c l (events_of l (b_events s)) /\
            (lookup l (b_vis s) = None -> events_of l (b_events s) = []).

Lemma eval1_ev_inv c s l0 : ev_inv c s -> ev_inv c (eval1 c s l0).
Proof.
  intros Inv. destruct (lookup l0 (b_vis s)) as [v|] eqn:Hv.
  { rewrite (eval1_visited _ _ _ _ Hv). exact Inv. }
  destruct (eval1_shape c s l0 Hv) as [->|(w' & v & evs & ran & -> & Hsh)].
  { intros l; exact (Inv l). }
  intros l. unfold finish. cbn [b_vis b_events]. rewrite events_of_app.
  destruct (N.eq_dec l l0) as [->|Hne].
  - destruct (Inv l0) as [_ Hnil]. rewrite (Hnil Hv), app_nil_r.
    rewrite (events_of_all l0 evs (shape_labels _ _ _ Hsh)). split; [exact Hsh|].
    rewrite lookup_update_same; discriminate.
  - rewrite (events_of_none l l0 evs Hne (shape_labels _ _ _ Hsh)); cbn [app].
    rewrite (lookup_update_other _ _ _ _ Hne). exact (Inv l).
Qed.

Lemma fold_ev_inv c order s : ev_inv c s -> ev_inv c (fold_left (eval1 c) order s).
Proof.
  revert s; induction order as [|l order IH]; intros s H; simpl; [exact H|].
  apply IH, eval1_ev_inv, H.
Qed.

(** the shapes, in delivery order *)
Inductive shape_fwd (c : bcfg) (l : label) : list event -> Prop :=
| shf_none : shape_fwd c l []
| shf_utd : shape_fwd c l [EUpToDate l]
| shf_ok : shape_fwd c l [EEvaluating l; ESucceeded l]
| shf_fail : shape_fwd c l [EEvaluating l; EFailed l]
| shf_lone : shape_fwd c l [EFailed l]
| shf_cut : c_crashed c = true -> shape_fwd c l [EEvaluating l].

Lemma events_of_rev l evs : events_of l (rev evs) = rev (events_of l evs).
Proof.
  unfold events_of. induction evs as [|e evs IH]; simpl; [reflexivity|].
  rewrite filter_app, IH; simpl. destruct (ev_label e =? l); simpl; [reflexivity|apply app_nil_r].
Qed.

Lemma per_label_shape_run c w order l0 l :
  shape_fwd c l (events_of l (o_events (run_order c w order l0))).
Proof.
  unfold run_order; simpl. rewrite events_of_rev.
  assert (H0 : ev_inv c (mkB w [] [] [] false)).
  { intros l'; simpl; split; [constructor|reflexivity]. }
  destruct (fold_ev_inv c order _ H0 l) as [Hsh _].
  destruct Hsh; simpl; constructor; assumption.
Qed.

Lemma per_label_shape c w l0 l : shape_fwd c l (events_of l (o_events (build c w l0))).
Proof.
  unfold build. destruct (link_ok _); [cbn [o_events]; apply per_label_shape_run|constructor].
Qed.

(** *** C14: garbage collection *)
Lemma lookup_filter_key {A} (p : N -> bool) k (m : list (N * A)) :
  lookup k (filter (fun kv => p (fst kv)) m) = if p k then lookup k m else None.
Proof.
  induction m as [|[a v] m IH]; simpl; [destruct (p k); reflexivity|].
  destruct (p a) eqn:Hpa; simpl.
  - destruct (N.eqb_spec k a) as [->|]; [rewrite Hpa; reflexivity|exact IH].
  - destruct (N.eqb_spec k a) as [->|]; [rewrite Hpa in IH |- *; exact IH|exact IH].
Qed.

Definition live (w : world) (l : label) : bool :=
  match lookup l (w_proj w) with Some _ => true | None => false end.

Lemma gc_recs w l :
  lookup l (w_recs (gc w)) = if live w l then lookup l (w_recs (load w)) else None.
Proof.
  unfold gc; simpl. unfold live.
  exact (lookup_filter_key (fun k => match lookup k (w_proj w) with Some _ => true | None => false end) l _).
Qed.

(** the complete record of every label that exists is kept *)
Lemma gc_keeps_live_records w l : live w l = true -> rec_of (gc w) l = rec_of w l.
Proof.
  intros H. unfold rec_of at 1. rewrite gc_recs, H. fold (rec_of (load w) l). apply rec_of_load.
Qed.

(** the records of labels that no longer exist are removed, and so are the temporaries *)
Lemma gc_removes_dead w l : live w l = false -> lookup l (w_recs (gc w)) = None.
Proof. intros H. rewrite gc_recs, H. reflexivity. Qed.

Lemma gc_no_stray w : w_stray (gc w) = 0.
Proof. reflexivity. Qed.

(** nothing outside the build-state directory changes *)
Lemma gc_confined w : w_proj (gc w) = w_proj w /\ w_files (gc w) = w_files w.
Proof. split; reflexivity. Qed.
