#!/usr/bin/env python3
"""Re-run the registered checks against every seeded change, on /repo's CURRENT HEAD.

usage: seed_rerun.py [-j N] [NAME ...]        (default: every directory under /verif/seeded)

For each seeded change: a scratch worktree of /repo HEAD under /tmp/seedrr/<slot>, `git apply` (falling back to
--3way) of its patch.diff, `go build ./...`, then the quick tier of the property's own check -- and of the other checks
that caught it before -- with DAWN_REPO pointing at the worktree. The outcome is stored in meta.json as `final_run`
(and `caught_by_final`). Worktrees are removed at the end. Nothing is ever applied to /repo itself.
NOTE: the checks write /verif/evidence/<id>.json; re-run the checks on the clean tree afterwards.
"""
import json
import os
import re
import subprocess
import sys
import time
from concurrent.futures import ThreadPoolExecutor

import threading
LOCKS = {}
LOCKS_GUARD = threading.Lock()


def lock_for(c):
    with LOCKS_GUARD:
        return LOCKS.setdefault(c, threading.Lock())


ENV = dict(os.environ, GOFLAGS="-mod=mod", GOPROXY="off", GOSUMDB="off", GOTOOLCHAIN="local")
SEEDED = "/verif/seeded"
BASE = "/tmp/seedrr"


def sh(cmd, cwd, timeout=3600, env=None):
    p = subprocess.run(cmd, cwd=cwd, shell=True, env=env or ENV, stdout=subprocess.PIPE, stderr=subprocess.STDOUT, text=True, timeout=timeout)
    return p.returncode, p.stdout


def one(name, slot):
    d = os.path.join(SEEDED, name)
    mp = os.path.join(d, "meta.json")
    meta = json.load(open(mp))
    prop = meta["property"]
    wt = os.path.join(BASE, "wt%d" % slot)
    sh("git reset -q --hard && git clean -fdq", wt)
    rc, o = sh("git apply %s" % os.path.join(d, "patch.diff"), wt)
    how = "git apply"
    if rc != 0:
        rc, o = sh("git apply --3way %s" % os.path.join(d, "patch.diff"), wt)
        how = "git apply --3way"
    res = {"repo_head": sh("git rev-parse --short HEAD", "/repo")[1].strip(), "applies": rc == 0, "how": how, "checks": {}}
    if rc == 0:
        rcb, ob = sh("go build ./... 2>&1 | tail -3", wt)
        res["builds"] = ob.strip() == ""
    if rc == 0 and res.get("builds"):
        checks = [prop] + [c for c in (meta.get("checks_run") or {}) if c != prop and meta["checks_run"][c].get("caught")]
        for c in checks:
            lk = lock_for(c)
            lk.acquire()
            t0 = time.time()
            # evidence of concurrent runs of the same check would collide: one private evidence dir per slot is not supported by
            # ./check, so the replay is read right after the run
            rcc, oc = sh("./check %s --tier quick 2>&1 | tail -8" % c, "/verif", env=dict(ENV, DAWN_REPO=wt))
            viol = [l for l in oc.splitlines() if l.startswith("VIOLATION")]
            r = {"caught": bool(viol), "lines": viol[:2] or oc.splitlines()[-1:], "wall_s": round(time.time() - t0, 1)}
            if viol:
                m = re.search(r"replay=(\S+)", viol[0])
                if m and os.path.exists(m.group(1)):
                    try:
                        rp = json.load(open(m.group(1)))
                        r["what"] = rp.get("what", "")[:300]
                        r["found_failing_input"] = rp.get("found_failing_input")
                    except Exception:
                        pass
            res["checks"][c] = r
            lk.release()
    sh("git reset -q --hard && git clean -fdq", wt)
    meta["final_run"] = res
    meta["caught_by_final"] = sorted(c for c, r in res["checks"].items() if r["caught"])
    json.dump(meta, open(mp, "w"), indent=1)
    return name, res


def main():
    args = sys.argv[1:]
    j = 4
    if args[:1] == ["-j"]:
        j = int(args[1])
        args = args[2:]
    names = args or sorted(os.listdir(SEEDED))
    os.makedirs(BASE, exist_ok=True)
    for s in range(j):
        wt = os.path.join(BASE, "wt%d" % s)
        if not os.path.exists(wt):
            sh("git -C /repo worktree add --detach %s HEAD -f" % wt, "/repo")
        else:
            sh("git checkout -q --detach $(git -C /repo rev-parse HEAD) && git checkout -q -- . && git clean -fdq", wt)
    # checks of the same property must not run concurrently (they share evidence/replay file names): group by property
    byprop = {}
    for n in names:
        byprop.setdefault(n.split("-")[0], []).append(n)
    groups = list(byprop.values())
    import queue
    slots = queue.Queue()
    for s in range(j):
        slots.put(s)

    def run_group(g):
        s = slots.get()
        out = []
        try:
            for n in g:
                out.append(one(n, s))
        finally:
            slots.put(s)
        return out

    with ThreadPoolExecutor(max_workers=j) as ex:
        for out in ex.map(run_group, groups):
            for name, res in out:
                print(name, "applies" if res["applies"] else "DOES-NOT-APPLY", res.get("builds"),
                      {c: (r["caught"], r.get("found_failing_input")) for c, r in res["checks"].items()}, flush=True)
    for s in range(j):
        sh("git -C /repo worktree remove --force %s" % os.path.join(BASE, "wt%d" % s), "/repo")
    sh("rm -rf %s" % BASE, "/tmp")


main()
