#!/usr/bin/env python3
"""Confirm a seeded change and run the checks against it.

usage: seed_eval.py <PROP> <mutant_dir> <worktree> <demo_dest_relpath> <name> [check,check,...]

1. in the scratch worktree (clean): the demo passes
2. with patch.diff applied: go build ok, full suite passes, the demo fails
3. the registered checks (quick tier) run with DAWN_REPO=<worktree> (patch applied, demo removed); outcome recorded
4. worktree restored; everything stored under /verif/seeded/<name>/ (patch.diff, demo, notes, meta.json)
"""
import json
import os
import re
import shutil
import subprocess
import sys
import time

ENV = dict(os.environ, GOFLAGS="-mod=mod", GOPROXY="off", GOSUMDB="off", GOTOOLCHAIN="local")


def sh(cmd, cwd, timeout=1800, env=None):
    p = subprocess.run(cmd, cwd=cwd, shell=True, env=env or ENV, stdout=subprocess.PIPE, stderr=subprocess.STDOUT, text=True, timeout=timeout)
    return p.returncode, p.stdout


def main():
    prop, mdir, wt, dest, name = sys.argv[1:6]
    checks = sys.argv[6].split(",") if len(sys.argv) > 6 else [prop]
    out = os.path.join("/verif/seeded", name)
    os.makedirs(out, exist_ok=True)
    meta = {"property": prop, "name": name, "checks_run": {}, "confirmed": {}}
    sh("git checkout -- . && git clean -fdq", wt)
    demo_src = os.path.join(mdir, "demo_test.go")
    demo_dst = os.path.join(wt, dest)
    pkg = "./" + (os.path.dirname(dest) or ".")
    tests = "|".join(re.findall(r"^func (Test\w+)\(", open(demo_src).read(), re.M))
    run = "go test -vet=off -count=1 -run '^(%s)$' %s 2>&1 | tail -15" % (tests, pkg)
    shutil.copy(demo_src, demo_dst)
    rc, o = sh(run, wt)
    meta["confirmed"]["demo_passes_without_change"] = ("ok " in o or "\nok" in o) and "FAIL" not in o
    rc, o = sh("git apply %s" % os.path.join(mdir, "patch.diff"), wt)
    meta["confirmed"]["patch_applies"] = rc == 0
    rc, o = sh("go build ./... 2>&1 | tail -5", wt)
    meta["confirmed"]["builds"] = o.strip() == ""
    rc, o = sh(run, wt)
    meta["confirmed"]["demo_fails_with_change"] = "FAIL" in o
    meta["demo_output_with_change"] = o[-800:]
    os.remove(demo_dst)
    rc, o = sh("go test -vet=off -count=1 ./... 2>&1 | grep -v 'no test files' | tail -12", wt)
    meta["confirmed"]["suite_passes_with_change"] = "FAIL" not in o and "ok" in o
    # run the checks against the changed tree
    for c in checks:
        t0 = time.time()
        env = dict(ENV, DAWN_REPO=wt)
        rc, o = sh("./check %s --tier quick 2>&1 | tail -6" % c, "/verif", env=env, timeout=3600)
        viol = [l for l in o.splitlines() if l.startswith("VIOLATION")]
        meta["checks_run"][c] = {"caught": bool(viol), "lines": viol[:3] or o.splitlines()[-2:], "wall_s": round(time.time() - t0, 1)}
        if viol:
            m = re.search(r"replay=(\S+)", viol[0])
            if m and os.path.exists(m.group(1)):
                rp = json.load(open(m.group(1)))
                meta["checks_run"][c]["what"] = rp.get("what", "")[:400]
                meta["checks_run"][c]["found_failing_input"] = rp.get("found_failing_input")
    sh("git checkout -- . && git clean -fdq", wt)
    shutil.copy(os.path.join(mdir, "patch.diff"), os.path.join(out, "patch.diff"))
    shutil.copy(demo_src, os.path.join(out, "demo_test.go"))
    if os.path.exists(os.path.join(mdir, "notes.md")):
        shutil.copy(os.path.join(mdir, "notes.md"), os.path.join(out, "notes.md"))
    meta["demo_dest"] = dest
    meta["what_i_ran"] = ["scratch worktree %s at /repo HEAD" % wt, run, "go build ./...", "go test -vet=off -count=1 ./...",
                          "DAWN_REPO=<worktree with patch> ./check <ID> --tier quick  (equivalent to git -C /repo apply; not done in /repo "
                          "because other checks were running against /repo at the time)"]
    json.dump(meta, open(os.path.join(out, "meta.json"), "w"), indent=1)
    print(json.dumps({"name": name, "confirmed": meta["confirmed"], "checks": {k: (v["caught"], v.get("found_failing_input"), v["wall_s"]) for k, v in meta["checks_run"].items()}}))
    for k, v in meta["checks_run"].items():
        print("  ", k, v.get("what", v["lines"]))


main()
