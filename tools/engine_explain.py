#!/usr/bin/env python3
"""Show what the engine model computes at the disagreeing step of a replay file (diagnostics only)."""
import json, os, subprocess, sys, tempfile
sys.path.insert(0, os.path.dirname(os.path.dirname(os.path.abspath(__file__))))
from checks.engine_common import op_terms, HDR
rp = json.load(open(sys.argv[1]))["replay"]
ops = rp["history"]; step = rp["step"]
pairs = []; srcs = []
for op in ops:
    for (a, b) in op_terms(op):
        pairs.append("(%s, %s)" % (a, b)); srcs.append(op)
print("step", step, "components", rp["components"])
for i in range(max(0, step - 6), step + 1):
    o = dict(srcs[i]); 
    if o["op"] == "proj": o["proj"] = [(t["id"], t.get("deps"), t.get("srcs"), t.get("gens"), t.get("env"), t.get("k"), t.get("always"), t.get("path")) for t in o["proj"]]
    print(i, json.dumps(o)[:900])
d = tempfile.mkdtemp()
with open(os.path.join(d, "x.v"), "w") as f:
    f.write(HDR)
    f.write("Definition h := [%s].\n" % ";\n".join(pairs))
    f.write("Definition w := world_at %d%%nat init_world h.\n" % step)
    f.write("Eval vm_compute in (match nth_error h %d%%nat with Some (o, _) => Some (explain w o) | None => None end).\n" % step)
    f.write("Eval vm_compute in (w_recs w).\n")
r = subprocess.run(["coqc", "-Q", "/verif/coq", "Dawn", "x.v"], cwd=d, capture_output=True, text=True)
print(r.stdout[-6000:], r.stderr[-2000:])
