#!/usr/bin/env python3
"""Print the DESIGN.md table of seeded changes from seeded/*/meta.json (final_run = last re-run against /repo HEAD)."""
import json, os
S = "/verif/seeded"
print("| seeded change | needs | first run (when seeded) | final run (all checks as they are now) |")
print("|---|---|---|---|")
def fmt(checks):
    out = []
    for c, r in sorted(checks.items()):
        if r.get("caught"):
            out.append("%s %s" % (c, "input" if r.get("found_failing_input") else "tie"))
    return "; ".join(out) or "missed"
for n in sorted(os.listdir(S)):
    m = json.load(open(os.path.join(S, n, "meta.json")))
    fr = m.get("final_run") or {}
    final = fmt(fr.get("checks", {})) if fr.get("applies") and fr.get("builds") else ("patch no longer applies" if fr and not fr.get("applies") else "-")
    print("| %s %s | %s | %s | %s |" % (n, m.get("change", "").replace("|", "\\|"), m.get("needs_to_manifest", "").replace("|", "\\|"), fmt(m.get("checks_run", {})), final))
