#!/bin/sh
# Build the whole Coq development (full .vo build) and warm the Go build cache. Offline.
set -e
cd "$(dirname "$0")"
export GOFLAGS=-mod=mod GOPROXY=off GOSUMDB=off GOTOOLCHAIN=local
python3 - <<'PY'
import sys
sys.path.insert(0, '.')
from lib import vlib
vlib.coq_project_sync()
PY
(cd coq && timeout 3000 make -k -j16 2>&1 | tail -5)
(cd /repo && go build ./... && go test -vet=off -count=1 -run '^$' ./... >/dev/null 2>&1 || true)
echo setup done
