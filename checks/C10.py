"""C10 — Resolved build list is the minimal-version-selection solution."""
import json
import os
import re
import shutil
import tempfile
from lib.vlib import *

META = {
    "property_id": "C10",
    "technique": "Coq proof over a Gallina model of the MVS work-list exploration (pgavlin/mvs buildList + Graph) and "
                 "dawn's Reqs/BuildList and of the resolver's download cache (FetchProject: stage, rename, tolerate 'exists') "
                 "as a transition system over interleaved calls, faults, kills and damage from outside, of the repository "
                 "lookup with its memo (findProjectRepository) and of the project's own resolution (loadConfigFile) + "
                 "correspondence on generated universes through the package's own fake repository, through "
                 "multi-repository layouts (nested projects, two kinds of host) with fault injection and lookup orders, "
                 "and through dawn.Load on the caches those runs filled, intact and damaged; of the gate LoadConfigBytes applies "
                 "to requirement versions and of cmpVersion on the version STRINGS (Mvs/Gate.v: x/mod semver parse, Canonical, "
                 "Compare) + correspondence on a family of version spellings and on universes that demand one project at two "
                 "versions of equal precedence under both declaration orders; of the normalisation LoadConfigBytes applies to "
                 "requirement PATHS (Mvs/Paths.v: path.Clean, SplitPathVersion, JoinPathVersion, CleanPath) + correspondence on "
                 "a family of path spellings and on universes whose requirements are all written in drawn spellings, one "
                 "project under two of them at two versions, in five cache / order states",
    "level_text": "Theorems (Coq, unbounded): for every processing order of the work list, every finite universe (cycles, "
                  "diamonds, several majors) and every root requirement list, the model's build list is exactly the set of "
                  "reachable paths, each once, at the maximum version over the reachable requirements, sorted by path "
                  "(build_list_spec), an unresolvable reachable requirement is an error under every order, and the answer "
                  "is independent of the processing order and of any permutation of the root requirements "
                  "(build_list_order_independent); the explicit fuel |nodes|+1 always suffices. Download cache: in every world "
                  "reachable by interleaved resolveProject calls of any number of resolvers, failing operations and kills, every "
                  "directory in the cache is a complete download (cache_entries_complete), a call without a failed operation "
                  "returns the project's own configuration (resolve_via_cache), and a build list computed from such answers is "
                  "the build list of the universe (build_list_cache_independent). Answers that are each the project's own "
                  "or an error make a run fail or leave its list unchanged (build_list_fails_or_same); with the damage the "
                  "cache can suffer from outside dawn added to the world, a returned call still answers with the project's "
                  "configuration or an error (resolve_via_damaged_cache), so Load fails or Project.buildList is the MVS "
                  "solution (load_fails_or_solution); the same for the root project read from its own two files, whatever a "
                  "left-over .dawnconfig next to its dawn.toml holds (load_root_fails_or_solution, Mvs/LoadRoot.v; the loadConfig "
                  "of before 15786e0, which let the error of the load decide, is refuted: load_root_former_refuted). "
                  "The repository lookup answers what a memo miss computes whatever "
                  "the resolver looked up before (find_repository_order_independent) and the answer joins to the looked-up "
                  "path (find_repository_sound). On the version strings themselves: no two different strings the "
                  "configuration gate admits are of equal precedence (admitted_versions_never_tie; admitted_version_spelling), "
                  "while valid strings it rejects are, and Reqs.Max then answers with its first argument "
                  "(unadmitted_versions_tie); a project directory with a dawn.toml is configured by it whatever else it holds "
                  "(config_file_precedence, config_file_fallback). On the requirement paths as written: a path with a major "
                  "suffix loads as JoinPathVersion(path.Clean(path), major) (written_path_loads_as), so the redundant suffixes "
                  "'@', '@v0', '@v1' and every slash spelling path.Clean identifies load as ONE string (redundant_major_is_folded), "
                  "the string the repository lists loads as itself (listed_path_is_fixed), the build list of configuration files "
                  "as written is the MVS solution of the loaded graph (written_build_list_spec) and does not depend on the "
                  "spellings (build_list_spelling_independent). The model is tied to "
                  "get.go/reqs.go/resolver.go and the library by running both on generated universes "
                  "(cold cache, warm resolver, warm disk cache, shared cache, shuffled declaration order) and, for the cache "
                  "model, on multi-repository layouts with every delivery point of a download failing once or parked while a "
                  "second resolver runs / the cache directory is copied (the state a kill would leave); on the same layouts "
                  "every cache entry is compared with the tree of its project version, one resolver answers every "
                  "reachable project version as a single-requirement root in a drawn order and in its reverse before the "
                  "case's root, and the repository lookups of resolvers with different histories are compared with each "
                  "other and with Mvs/Locate.v; the caches of the resolvable cases are then loaded as projects by dawn.Load "
                  "(Project.buildList vs the reference and vs Mvs/Load.v), intact and with an entry unreadable or out of reach; "
                  "a third of the repositories with dawn.toml deliver a left-over .dawnconfig next to it (another revision's, "
                  "another project's, one without requirements, not a configuration), half of the loaded root projects "
                  "with dawn.toml have one too. Version spellings: ~290 strings (canonical versions and their derivations) "
                  "through WriteConfigFile/LoadConfigFile vs Mvs/Gate.v, ~1200 cmpVersion pairs vs the model, and 30/300 "
                  "universes in which two tags of equal precedence (build metadata, short forms) of one project are demanded "
                  "by the root / one project / two projects, built under both declaration orders x 3 fresh runs: all "
                  "answers must be the same and a list must select a highest demanded version. Path spellings: ~410 written "
                  "paths (the listed form of 11 project paths x 15 slash spellings x the suffix spellings, ~55 strings that are "
                  "nobody's spelling) through WriteConfigFile/LoadConfigFile and CleanPath vs Mvs/Paths.v, each derivation "
                  "must load as the path it was derived from; 100/1000 universes in which two thirds of all requirements are "
                  "written in a drawn spelling and one project is demanded at two versions under two spellings (root / root "
                  "and a project / two projects), root through the configuration writer and loader, BuildList with a cold "
                  "cache, the same resolver again, a fresh resolver on that cache, a fresh resolver on the cache a plainly "
                  "written build of the same graph filled, and shuffled requirement lists: every answer must be the "
                  "reference of the plainly written universe; the written universe and its cold answer also go to the model.",
    "level_note": "Trusted: Coq kernel; the python rendering of version strings into canonical semver records; the "
                  "model of par.Work as an arbitrary sequential pick order (g.Require runs under the library's mutex); the cache "
                  "theorems assume os.Rename of a directory is atomic, that a complete download holds the project's configuration "
                  "(deliver_sound) and that two requested project versions sharing a cache directory resolve alike (key_sound: "
                  "fails for a requirement path without the major suffix of its version, the recorded observation of DESIGN 5; "
                  "such paths are not generated); the lookup theorems assume that the set of addresses that answer a dial is stable over the "
                  "life of a resolver and that project paths are clean (LoadConfigBytes applies CleanPath: modelled in Mvs/Paths.v and "
                  "checked on path spellings; that CleanPath's results are fixed points of path.Clean is not proved, the graph "
                  "compares the loaded strings); the project-load "
                  "family cannot inject a dialer into dawn.Load (the Dialer interface is sealed), so its repositories are "
                  "either fully cached or unreachable; a copy-instead-of-rename publication could only be seen by parking inside the "
                  "resolver's own copy, which the harness cannot do. "
                  "Requirement versions in the record model (Mvs/Version.v) are canonical; that LoadConfigBytes enforces it is now "
                  "modelled on the strings (Mvs/Gate.v) and checked on version spellings; the python rendering of a GATED string "
                  "into a record stays trusted (no theorem links Gate.v's digit strings to Version.v's numbers).",
    "design_ref": "DESIGN.md §6 C10",
}

HDR = "From Dawn Require Import Mvs.Edit Mvs.Run Mvs.Load Mvs.Locate Mvs.RunLoad Mvs.RunGate Mvs.RunPaths.\nOpen Scope N_scope.\n"
LOAD_BASE, LOC_BASE, GATE_BASE, CMP_BASE, TWIN_BASE = 1000000, 2000000, 3000000, 4000000, 5000000
PCLEAN_BASE, PWRITTEN_BASE, PATHS_END = 6000000, 7000000, 8000000
OVL = "overlay/internal/mvs/"
FILES = ["zz_verif_mvsgen_test.go", "zz_verif_c10_test.go", "zz_verif_c10_cache_test.go", "zz_verif_c11_test.go",
         "zz_verif_c10_spell_test.go", "zz_verif_c10_paths_test.go"]

SEMVER = re.compile(r"^v(0|[1-9]\d*)\.(0|[1-9]\d*)\.(0|[1-9]\d*)(?:-([0-9A-Za-z.-]+))?$")


# --- rendering of harness values as Coq terms -------------------------------------------------------------

def cq_str(s):
    return cq_bytes(s.encode("utf-8"))


def parse_semver(v):
    """canonical semver string -> (major, minor, patch, [ids]) or None"""
    m = SEMVER.match(v)
    if not m:
        return None
    ids = m.group(4).split(".") if m.group(4) is not None else []
    for i in ids:
        if i == "" or (i.isdigit() and len(i) > 1 and i[0] == "0"):
            return None
    return int(m.group(1)), int(m.group(2)), int(m.group(3)), ids


def cq_semver(t):
    ids = ["(PNum %d)" % int(i) if i.isdigit() else "(PStr %s)" % cq_str(i) for i in t[3]]
    return "(mkSV %d %d %d %s)" % (t[0], t[1], t[2], cq_list(ids, "preid"))


def cq_version(v):
    if v == "":
        return "VRoot"
    if v == "none":
        return "VNone"
    t = parse_semver(v)
    if t is None:
        raise ValueError("not a canonical version: %r" % v)
    return "(VSem %s)" % cq_semver(t)


def cq_node(p, v):
    return "(%s, %s)" % (cq_str(p), cq_version(v))


def cq_universe(u):
    tags = cq_list(["(%s, %d)" % (cq_node(t[0], t[1]), int(t[2])) for t in u["tags"]], "(node * N)")
    sums = cq_list(["((%s, %d), mkSum %s %s)" % (cq_str(s[0]), s[1], cq_str(s[2]),
                                                 cq_list([cq_node(*r) for r in s[3]], "node")) for s in u["sums"]],
                   "((str * N) * summary)")
    refs = cq_list(["(%s, %d)" % (cq_str(r[0]), int(r[1])) for r in u["refs"]], "(str * N)")
    segs = cq_list(["(%d, %s)" % (s[0], cq_str(s[1])) for s in u["segs"]], "(N * str)")
    return "(mkU %s %s %s %s %s %s)" % (cq_str(u["repo"]), tags, sums, refs, cq_str(u["default"]), segs)


def cq_config(cfg):
    return cq_list(["(%s, %s)" % (cq_str(n), cq_node(p, v)) for n, p, v in cfg], "(str * node)")


def cq_bl_result(r):
    st = r["st"]
    if st == "ok":
        return "(Ok %s)" % cq_list([cq_node(p, v) for p, v in r["m"]], "(str * version)")
    return {"err": "Err", "panic": "Panic", "hang": "OutOfFuel"}[st]


def harness_files():
    return {f: os.path.join(HARNESS, OVL + f) for f in FILES}


def read_jsonl(path):
    recs = []
    if not os.path.exists(path):
        return recs
    for line in open(path):
        line = line.strip()
        if line:
            try:
                recs.append(json.loads(line))
            except ValueError:
                pass  # truncated last line of a crashed run
    return recs


def crashed_case(recs):
    """the case that was running when the process died (no END record)"""
    if recs and recs[-1].get("t") == "END":
        return None
    starts = [r for r in recs if r.get("t") == "START"]
    return starts[-1]["case"] if starts else 0


def cache_family(ctx, crecs):
    """download-cache states produced by faults, kills and concurrent resolvers, over multi-repository layouts
    (harness/overlay/internal/mvs/zz_verif_c10_cache_test.go): every answer must be the reference build list"""
    cunis = {r["id"]: r for r in crecs if r["t"] == "CU"}
    ccases = [r for r in crecs if r["t"] == "CC"]
    end = [r for r in crecs if r["t"] == "END"]
    if not end or not ccases:
        ctx.violation("the cache-state family of the C10 harness did not run to its end",
                      {"theorem_or_correspondence": "TestVerifC10Cache", "records": len(crecs)}, found_input=False)
        return
    fired = sum(c["fired"] for c in ccases)
    ctx.coverage["evaluations"] += end[0]["runs"]
    ctx.coverage["cache_states"] = {
        "universes": len(cunis), "cases": len(ccases), "fault_scenarios": end[0]["scenarios"], "build_lists": end[0]["runs"],
        "faults_that_fired": fired, "faults_that_did_not_fire": sum(c["not_fired"] for c in ccases),
        "reference_ok": sum(1 for c in ccases if c["want"]["st"] == "ok"),
        "layout": {k: sum(1 for u in cunis.values() for p in u["layout"].values() if sel(p))
                   for k, sel in (("at the root of a repository", lambda p: p["path_in_repository"] == "" ),
                                  ("own repository, subdirectory", lambda p: "/m-" in p["repository"]),
                                  ("shared repository", lambda p: p["repository"].endswith("/u")),
                                  ("nested in the tree of another project", lambda p: p["nested_in_project"] != ""),
                                  ("nested in the project at the repository root",
                                   lambda p: p["nested_in_project"] != "" and p["nested_in_project"] == p["repository"]),
                                  ("repository on the well-known host", lambda p: p["repository"].startswith("github.com/")),
                                  ("repository found by dialing prefixes", lambda p: not p["repository"].startswith("github.com/")))},
        "configuration_files": {k: sum(1 for u in cunis.values() for r in u["repositories"].values() if sel(r))
                                for k, sel in (("dawn.toml alone", lambda r: r["config_file"] == "dawn.toml" and not r.get("left_over_dawnconfig_next_to_dawn_toml")),
                                               (".dawnconfig alone", lambda r: r["config_file"] == ".dawnconfig"),
                                               ("dawn.toml next to a left-over .dawnconfig", lambda r: bool(r.get("left_over_dawnconfig_next_to_dawn_toml"))))},
        "left_over_dawnconfig_holds": {k: sum(1 for u in cunis.values() for r in u["repositories"].values()
                                              if r.get("left_over_dawnconfig_next_to_dawn_toml") == k)
                                       for k in sorted({r.get("left_over_dawnconfig_next_to_dawn_toml") for u in cunis.values()
                                                        for r in u["repositories"].values()} - {"", None})},
        "entries_checked_against_tables": end[0].get("entries_checked_against_tables", 0),
        "exported_to_project_load_family": end[0].get("exported", 0),
        "rule": "generated universes laid out over several repositories (project at a repository root reported as '' "
                "or '.', in a subdirectory, in the shared repository, nested below another project -- also below the "
                "project at the repository root --, whose download then carries the nested trees; repositories on the "
                "well-known host or, a third of the universes, on hosts where the repository is found by dialing prefixes "
                "of the project path; dawn.toml or .dawnconfig next to other files, or -- 4 in 15 repositories -- dawn.toml "
                "next to a left-over .dawnconfig that is not the project's configuration (its own at another revision, "
                "another project's, one without requirements, no configuration at all; the reference takes the "
                "requirements from the tables, i.e. from dawn.toml); a third of the universes each with "
                "no / a fifth / half of the requirements on pseudo-versions); per case the fault-free cold and warm runs, "
                "every cache entry compared with the tree of its project version in the generated tables, and two "
                "lookup orders: one resolver answers a root with a single requirement for every reachable project "
                "version, in a drawn order and in its reverse, then the case's root, then a fresh resolver on the cache "
                "it left; delivery as os.CopyFS does it "
                "(directory, then file by file in lexical order, the configuration file created empty / a well-formed "
                "prefix / the rest); per case 3 downloads of the cold run: every delivery point of the first and two of "
                "each other, plus one of dial / list versions / look up revision; each point x {fails once: same "
                "resolver again, fresh resolver on a copy of the cache the failed run left; parks: second resolver "
                "meanwhile, first resolver once released, fresh resolver on a copy of the cache taken while parked, "
                "fresh resolver after both}",
    }
    if fired == 0:
        ctx.violation("no injected fault fired in the cache-state family (harness defect)",
                      {"theorem_or_correspondence": "TestVerifC10Cache"}, found_input=False)
    seen = set()
    for f in [r for r in crecs if r["t"] == "ORACLE"]:
        if f["name"] in seen:
            continue
        seen.add(f["name"])
        fault = f.get("fault")
        ctx.violation("implementation violates C10 oracle %s%s: BuildList = %s, expected %s" % (
            f["name"], (" (fault %s)" % fault["meaning"]) if fault else "", json.dumps(f["got"])[:300],
            json.dumps(f["want"])[:300]),
            {"oracle": f["name"], "universe_and_layout": cunis[f["u"]], "root_requirements": f["root"], "fault": fault,
             "roots_answered_before_by_the_same_resolver": f.get("before"),
             "got": f["got"], "want": f["want"], "error_text": f.get("error_text", ""),
             "how": "internal/mvs.BuildList over the repositories of harness/overlay/internal/mvs/"
                    "zz_verif_c10_cache_test.go: case %d of VERIF_SEED=%d -run TestVerifC10Cache" % (f["case"], ctx.seed)})
    # the cache model's invariant observed on the implementation (Mvs/Cache.v, theorem cache_entries_complete)
    inv = [r for r in crecs if r["t"] == "INV"]
    ctx.coverage["cache_states"]["cache_entries_inspected"] = sum(c.get("entries_inspected", 0) for c in ccases)
    ctx.coverage["cache_states"]["incomplete_entries"] = len(inv)
    if inv and not seen:
        ctx.violation("cache model and implementation disagree: %d cache directories visible to other resolvers were not "
                      "complete downloads, e.g. %s %s (%s; fault %s)" % (len(inv), inv[0]["entry"], inv[0]["when"],
                                                                     inv[0]["difference"], inv[0]["fault"]["meaning"]),
                      {"theorem_or_correspondence": "correspondence Mvs/Cache.v (cache_entries_complete) <-> "
                                                    "internal/mvs/resolver.go FetchProject",
                       "universe_and_layout": cunis[inv[0]["u"]], "disagreeing_cases": inv[:3]}, found_input=False)


U_REPO = "github.com/verif/u"


def unrename_table(cu):
    """layout path (repository[/path in it]) -> universe path, for one CU record"""
    t = {}
    for d, p in cu["layout"].items():
        lp = p["repository"] + ("/" + p["path_in_repository"] if p["path_in_repository"] else "")
        t[lp] = U_REPO + "/" + d
    return t


def unrename(t, path):
    """a project path of the layout (possibly with an @vN suffix) in the universe's terms"""
    if path == "":
        return ""
    trimmed, at, major = path.partition("@")
    return t[trimmed] + at + major


def load_model_exprs(lrecs, crecs):
    """the project-load family as model cases: per universe (root configuration, damaged cache keys, outcome), all in
    the universe's own paths (the layout only renames projects), results sorted by path again"""
    cunis = {r["id"]: r for r in crecs if r["t"] == "CU"}
    roots = {r["case"]: r for r in crecs if r["t"] == "CC"}
    groups, index = {}, []

    def result(t, res):
        if res["st"] != "ok":
            return cq_bl_result(res)
        m = sorted(([unrename(t, p), v] for p, v in res["m"]), key=lambda e: e[0].encode("utf-8"))
        return cq_bl_result({"st": "ok", "m": m})

    lcs = {r["case"]: r for r in lrecs if r["t"] == "LC"}
    NOFILE, NOTCFG = "(@None (option config))", "(Some (@None config))"

    def files(case, t, root):
        """(dawn.toml, .dawnconfig) of the root directory as Mvs/LoadRoot.v root files (through RunLoad.root_file_of)"""
        lc = lcs.get(case, {})
        own = "(Some (Some %s))" % cq_config(root)
        if lc.get("root_file", "dawn.toml") == ".dawnconfig":
            return "(%s, %s)" % (NOFILE, own)
        lo = lc.get("left_over")
        if not lo:
            return "(%s, %s)" % (own, NOFILE)
        if "root" not in lo:
            return "(%s, %s)" % (own, NOTCFG)
        return "(%s, (Some (Some %s)))" % (own, cq_config([(n, unrename(t, p), v) for n, p, v in lo["root"]]))

    for r in lrecs:
        if r["t"] not in ("LC", "LS"):
            continue
        cu = cunis[r["u"]]
        t = unrename_table(cu)
        root = [(n, unrename(t, p), v) for n, p, v in roots[r["case"]]["root"]]
        if r["t"] == "LC":
            keys, res, ne = [], r["intact"], False
        else:
            path, _, ver = r["entry"].rpartition("@")
            keys, res, ne = [cq_node(t[path], ver)], r["res"], bool(r.get("not_exist"))
        i = LOAD_BASE + len(index)
        index.append(r)
        groups.setdefault(r["u"], []).append("(%s, (%s, (%s, (%s, %s))))" % (cq_N(i), files(r["case"], t, root), cq_list(keys, "node"),
                                                                            cq_bool(ne), result(t, res)))
    exprs, cur, n = [], [], 0
    for uid, items in groups.items():
        cur.append("(%s,\n  %s)" % (cq_universe(cunis[uid]["base"]), cq_list(items)))
        n += len(items)
        if n >= 150:
            exprs.append("mismatches_c10_load_root [\n" + ";\n".join(cur) + "]")
            cur, n = [], 0
    if cur:
        exprs.append("mismatches_c10_load_root [\n" + ";\n".join(cur) + "]")
    return exprs, index


def locate_model_exprs(crecs):
    """the repository lookups observed on the resolvers of the cache-state family, for Mvs/Locate.v"""
    index, groups = [], []
    for r in crecs:
        if r["t"] != "LOCS":
            continue
        items = []
        for pp, st, addr, rel in r["lookups"]:
            i = LOC_BASE + len(index)
            index.append({"u": r["u"], "repositories": r["repositories"], "project_path": pp,
                          "implementation": {"st": st, "repository": addr, "project_path_in_repository": rel}})
            obs = "(Some (%s, %s))" % (cq_str(addr), cq_str(rel)) if st == "ok" else "None"
            items.append("(%s, (%s, %s))" % (cq_N(i), cq_str(pp), obs))
        groups.append("(%s,\n  %s)" % (cq_list([cq_str(a) for a in r["repositories"]], "str"), cq_list(items)))
    exprs = []
    for k in range(0, len(groups), 25):
        exprs.append("mismatches_locate [\n" + ";\n".join(groups[k:k + 25]) + "]")
    return exprs, index


def load_family(ctx, lrecs, crecs, rc, o):
    """the build list as the project resolves it: Load -> loadConfigFile -> Project.buildList on the exported cases of the
    cache-state family, intact and with cache states in which the graph cannot be walked
    (harness/overlay/root/zz_verif_c10_load_test.go)"""
    cunis = {r["id"]: r for r in crecs if r["t"] == "CU"}
    end = [r for r in lrecs if r["t"] == "END"]
    lcases = [r for r in lrecs if r["t"] == "LC"]
    how = "VERIF_SEED=%d: go test -overlay ... -run 'TestVerifC10Cache' ./internal/mvs with VERIF_C10_EXPORT=<dir>, then " \
          "-run TestVerifC10Load . (harness/overlay/root/zz_verif_c10_load_test.go)" % ctx.seed
    if rc != 0 or not end or not lcases:
        cc = crashed_case(lrecs)
        if rc not in (0, None) and lrecs and cc is not None:
            ctx.violation("Load crashed the process on exported case %d of the project-load family" % cc,
                          {"case": cc, "output": (o or "")[-3000:], "how": how})
        else:
            ctx.log((o or "")[-3000:])
            ctx.violation("the project-load family of the C10 harness did not run to its end (exit %s)" % rc,
                          {"theorem_or_correspondence": "TestVerifC10Load", "records": len(lrecs), "output": (o or "")[-3000:]},
                          found_input=False)
        return
    outcomes = {}
    for c in lcases:
        for k, v in c["outcomes"].items():
            outcomes[k] = outcomes.get(k, 0) + v
    ctx.coverage["evaluations"] += end[0]["loads"]
    ctx.coverage["project_load"] = {
        "cases": len(lcases), "loads": end[0]["loads"], "unwalkable_graph_scenarios": end[0]["scenarios"],
        "scenario_kinds": end[0]["kinds"], "outcomes": outcomes,
        "intact_ok": sum(1 for c in lcases if c["intact"]["st"] == "ok"),
        "root_config_file": {k: sum(1 for c in lcases if c["root_config_file"] == k) for k in ("dawn.toml", ".dawnconfig", "dawn.toml next to a left-over .dawnconfig")},
        "damaged_entries_with_both_configuration_files": end[0].get("damaged_entries_with_both_configuration_files", 0),
        "rule": "the cases of the cache-state family whose reference resolves (complete cache filled by the real resolver, "
                "multi-repository layouts, pseudo-versions) loaded as a project by dawn.Load with the cache as "
                "$HOME/.dawn/modules/cache and the root requirements in dawn.toml or .dawnconfig, or in dawn.toml next to a "
                "left-over .dawnconfig (all but one of the requirements / none / not a configuration): Project.buildList must be "
                "the reference; then per case up to 3 (thorough: 6) cache entries x {configuration file torn at the longest / "
                "a middle / the shortest prefix dawn's parser rejects, replaced by other bytes, removed (with the left-over "
                ".dawnconfig of the entry, if it has one); entry is a regular "
                "file; entry missing while no repository can be dialed}: Load must fail or answer with the reference",
    }
    if end[0]["scenarios"] == 0 or outcomes.get("fails", 0) == 0 and outcomes.get("WRONG", 0) == 0:
        ctx.violation("no cache state of the project-load family made the requirement graph unwalkable (harness defect)",
                      {"theorem_or_correspondence": "TestVerifC10Load", "outcomes": outcomes}, found_input=False)
    seen = set()
    for f in [r for r in lrecs if r["t"] == "ORACLE"]:
        if f["name"] in seen:
            continue
        seen.add(f["name"])
        fault = f.get("fault")
        ctx.violation("implementation violates C10 oracle %s%s: Project.buildList after Load = %s, expected %s%s" % (
            f["name"], (" (%s: %s, %s)" % (fault["kind"], fault["cache_entry"], fault["detail"])) if fault else "",
            json.dumps(f["got"])[:300], "failure or " if fault else "", json.dumps(f["want"])[:300]),
            {"oracle": f["name"], "universe_and_layout": cunis.get(f["u"]), "root_requirements": f["root"],
             "root_config_file": f["root_config_file"], "left_over_dawnconfig_of_the_root": f.get("left_over_dawnconfig"),
             "cache_state": fault or "intact: every reachable project version is in "
             "the cache, as the real resolver downloaded it", "got": f["got"], "want": f["want"],
             "error_text": f.get("error_text", ""), "how": how + "; exported case %d" % f["case"]})


def spelling_family(ctx, srecs):
    """fifth family: version strings the version order cannot tell apart (harness/overlay/internal/mvs/
    zz_verif_c10_spell_test.go).  Returns the model expressions (Mvs/RunGate.v) and what their ids stand for."""
    end = [r for r in srecs if r["t"] == "END"]
    gates = [r for r in srecs if r["t"] == "GATE"]
    cmps = [r for r in srecs if r["t"] == "CMP"]
    scs = [r for r in srecs if r["t"] == "SC"]
    how = "VERIF_SEED=%d go test -overlay ... -run ^TestVerifC10Spell$ ./internal/mvs (harness/overlay/internal/mvs/" \
          "zz_verif_c10_spell_test.go)" % ctx.seed
    if not end or not gates or not scs:
        ctx.violation("the version-spelling family of the C10 harness did not run to its end",
                      {"theorem_or_correspondence": "TestVerifC10Spell", "records": len(srecs)}, found_input=False)
        return [], {}
    dist = {}
    for c in scs:
        k = "%s; %s" % (c["kind"], c["where"])
        dist[k] = dist.get(k, 0) + 1
    ctx.coverage["evaluations"] += end[0]["runs"] + len(gates) + len(cmps)
    ctx.coverage["version_spellings"] = {
        "spellings_through_the_configuration_gate": len(gates), "admitted": sum(1 for g in gates if g["admitted"]),
        "admitted_examples": [g["text"] for g in gates if g["admitted"]][:6],
        "rejected_examples": [g["text"] for g in gates if not g["admitted"]][:12],
        "cmpVersion_pairs": len(cmps), "cmpVersion_pairs_that_tie": sum(1 for c in cmps if c["c"] == 0 and c["ta"] != c["tb"]),
        "universes_with_twins": len(scs), "build_lists": end[0]["runs"],
        "twin_universes_by_answer": {k: sum(1 for c in scs if sel(c)) for k, sel in (
            ("the root configuration does not load", lambda c: c["rejected_at_root"]),
            ("BuildList fails (a dependency's configuration does not load)", lambda c: c["first"]["st"] == "err" and not c["rejected_at_root"]),
            ("a build list", lambda c: c["first"]["st"] == "ok"))},
        "distribution": dist,
        "rule": "(A) canonical versions (fixed boundary ones and drawn ones) and ~40 derivations of each -- build metadata, "
                "short forms vMAJOR / vMAJOR.MINOR, leading zeros, empty / malformed identifiers, other prefixes, blanks, "
                "pseudo-versions -- plus fixed strings ('', none, latest, ...): each as the version of a requirement "
                "through WriteConfigFile + LoadConfigFile (the gate), pairs of them through cmpVersion; both compared with "
                "Mvs/Gate.v.  (B) generated universes in which one project gets two tags of equal precedence on different "
                "revisions (build/build, canonical/build, prerelease+build, canonical/short minor, canonical/short major, "
                "short/short, short/build; round-robin) that are both demanded -- by the root, by one project, by two "
                "projects --; the root requirements go through WriteConfigFile + LoadConfigFile as dawn's do; BuildList "
                "under both declaration orders of the twins x 3 runs on fresh resolvers and cold caches: all answers must "
                "be identical (an error is an answer), a list must select for every reachable path a demanded version "
                "that no demanded version exceeds.  On a tree whose gate admits canonical versions only every such "
                "universe is rejected, in every order",
    }
    seen = set()
    for f in [r for r in srecs if r["t"] == "ORACLE"]:
        if f["name"] in seen:
            continue
        seen.add(f["name"])
        tw = f["input"]["twins"]
        ctx.violation("implementation violates C10 oracle %s: project %s is tagged %s (%s) and both are demanded (%s): %s" % (
            f["name"], f["input"]["project_with_twins"], " and ".join(k for k in tw if k != "kind"), tw["kind"],
            f["input"]["demanded_by"], f["what"][:600]),
            {"oracle": f["name"], "what": f["what"], "input": f["input"], "runs": f["runs"],
             "how": how + ", case %d" % f["case"]})
    exprs, index = [], {}
    items = []
    for i, g in enumerate(gates):
        index[GATE_BASE + i] = g
        items.append("(%s, (%s, %s))" % (cq_N(GATE_BASE + i), cq_bytes(bytes.fromhex(g["s"])), cq_bool(g["admitted"])))
    exprs.append("mismatches_gate %s" % cq_list(items))
    items = []
    for i, c in enumerate(cmps):
        index[CMP_BASE + i] = c
        items.append("(%s, ((%s, %s), %s))" % (cq_N(CMP_BASE + i), cq_bytes(bytes.fromhex(c["a"])), cq_bytes(bytes.fromhex(c["b"])),
                                               {-1: "Lt", 0: "Eq", 1: "Gt"}[c["c"]]))
    for k in range(0, len(items), 700):
        exprs.append("mismatches_cmp %s" % cq_list(items[k:k + 700]))
    items = []
    for i, c in enumerate(scs):
        for j, side in enumerate(("a", "b")):
            index[TWIN_BASE + 2 * i + j] = (c, side)
            items.append("(%s, %s)" % (cq_N(TWIN_BASE + 2 * i + j), cq_bytes(bytes.fromhex(c[side]))))
    exprs.append("admitted_ids %s" % cq_list(items))
    return exprs, index


def spelling_model(ctx, allm, index, srecs):
    """model (Mvs/Gate.v) vs implementation on the spelling family"""
    if not index:
        return
    gm = [index[i] for i in allm if GATE_BASE <= i < CMP_BASE]
    cm = [index[i] for i in allm if CMP_BASE <= i < TWIN_BASE]
    model_admits = {i for i in allm if i >= TWIN_BASE}
    scs = [r for r in srecs if r["t"] == "SC"]
    # a universe that demands twins: the model's gate rejects at least one of them (admitted_versions_never_tie), so the
    # configuration that names it does not load and BuildList fails; an implementation that answers with a list disagrees
    tm = [c for i, c in enumerate(scs) if c["first"]["st"] == "ok"
          and not (TWIN_BASE + 2 * i in model_admits and TWIN_BASE + 2 * i + 1 in model_admits)]
    ctx.coverage["correspondence"]["version_gate_cases"] = sum(1 for i in index if GATE_BASE <= i < CMP_BASE)
    ctx.coverage["correspondence"]["version_gate_mismatches"] = len(gm)
    ctx.coverage["correspondence"]["cmpVersion_cases"] = sum(1 for i in index if CMP_BASE <= i < TWIN_BASE)
    ctx.coverage["correspondence"]["cmpVersion_mismatches"] = len(cm)
    ctx.coverage["correspondence"]["twin_universes"] = len(scs)
    ctx.coverage["correspondence"]["twin_universe_mismatches"] = len(tm)
    if gm and not ctx.violations:
        ctx.violation("model/implementation disagree on which requirement versions a configuration may carry: %d of %d spellings, "
                      "e.g. %s" % (len(gm), ctx.coverage["correspondence"]["version_gate_cases"],
                                   ", ".join("%r (implementation %s)" % (g["text"], "admits" if g["admitted"] else "rejects") for g in gm[:6])),
                      {"theorem_or_correspondence": "correspondence Mvs/Gate.v (gate; theorem admitted_versions_never_tie rests on it) <-> "
                                                    "internal/project/config.go LoadConfigBytes",
                       "disagreeing_cases": [{"version": g["text"], "implementation_admits": g["admitted"]} for g in gm[:12]],
                       "twin_universes_answered_with_a_list": [{"twins": [c["ta"], c["tb"]], "demanded_by": c["where"], "answer": c["first"],
                                                                "input": c["input"]} for c in tm[:2]]}, found_input=False)
    if tm and not ctx.violations:
        ctx.violation("model/implementation disagree on %d universes that demand one project at two versions of equal precedence: "
                      "the implementation answers with a list, e.g. twins %s / %s" % (len(tm), tm[0]["ta"], tm[0]["tb"]),
                      {"theorem_or_correspondence": "correspondence Mvs/Gate.v <-> LoadConfigBytes + BuildList",
                       "disagreeing_cases": [{"twins": [c["ta"], c["tb"]], "demanded_by": c["where"], "answer": c["first"],
                                              "input": c["input"]} for c in tm[:3]]}, found_input=False)
    if cm and not ctx.violations:
        ctx.violation("model/implementation disagree on cmpVersion for %d pairs of version strings, e.g. cmpVersion(%r, %r) = %d" % (
            len(cm), cm[0]["ta"], cm[0]["tb"], cm[0]["c"]),
            {"theorem_or_correspondence": "correspondence Mvs/Gate.v (cmp_version_str) <-> internal/mvs/reqs.go cmpVersion",
             "disagreeing_cases": [{"v1": c["ta"], "v2": c["tb"], "implementation": c["c"]} for c in cm[:12]]}, found_input=False)


def paths_family(ctx, precs):
    """sixth family: requirement paths written in more than one way (harness/overlay/internal/mvs/
    zz_verif_c10_paths_test.go).  Returns the model expressions (Mvs/RunPaths.v) and what their ids stand for."""
    end = [r for r in precs if r["t"] == "END"]
    cleans = [r for r in precs if r["t"] == "PCLEAN"]
    pcs = [r for r in precs if r["t"] == "PC"]
    punis = [r for r in precs if r["t"] == "PU"]
    how = "VERIF_SEED=%d go test -overlay ... -run ^TestVerifC10Paths$ ./internal/mvs (harness/overlay/internal/mvs/" \
          "zz_verif_c10_paths_test.go)" % ctx.seed
    if not end or not cleans or not pcs or len(punis) != len(pcs):
        ctx.violation("the written-paths family of the C10 harness did not run to its end",
                      {"theorem_or_correspondence": "TestVerifC10Paths", "records": len(precs)}, found_input=False)
        return [], {}
    where = {}
    for c in pcs:
        k = (c["forced"] or {}).get("demanded_by", "no project with two tagged versions on one path")
        where[k] = where.get(k, 0) + 1
    states = sorted({k for c in pcs for k in c["res"]})
    ctx.coverage["evaluations"] += end[0]["runs"] + 2 * len(cleans)
    ctx.coverage["written_paths"] = {
        "spellings_through_the_configuration_file": len(cleans), "derivations_of_a_listed_path": end[0]["derivations"],
        "spellings_that_load_as_written": sum(1 for c in cleans if c["loads"] and c["loaded"] == c["s"]),
        "examples": [[c["text"], c["loaded_text"]] for c in cleans if c["loaded"] != c["s"]][5:60:9],
        "universes": len(pcs), "build_lists": end[0]["runs"], "cache_and_order_states": states,
        "requirements_not_written_plainly": end[0]["requirements_not_written_plainly"],
        "reference_ok": sum(1 for c in pcs if c["ref"]["st"] == "ok"),
        "one_project_under_two_spellings": where,
        "rule": "(A) paths in the form the repository lists them (with and without a major suffix, an '@' in an earlier "
                "element) and 15 x 4 derivations of each by the inverse operations of the normalisation -- './', trailing "
                "'/', '/.', '//', 'zz/../', 'sub/..', 'x/../', the redundant suffixes '@' '@v0' '@v1', the suffix after '/', "
                "'/.' or '..' -- plus ~55 strings that are nobody's derivation (rooted, '..', several '@', majors v2..v100): "
                "each as the path of a requirement through WriteConfigFile + LoadConfigFile and through CleanPath, both "
                "compared with Mvs/Paths.v; a derivation must load as the path it was derived from.  (B) generated "
                "universes in which two thirds of ALL requirements (the root's and every project's) are written in a "
                "drawn derivation, and one project with two tagged versions on one path is demanded at both under two "
                "different spellings (by the root / the root and a project / two projects); the root goes through "
                "WriteConfigFile + LoadConfigFile; BuildList in the states listed: every answer must be the independent "
                "reachability/max reference of the same universe written plainly; the universe as written and the cold "
                "answer are evaluated by the model",
    }
    seen = set()
    # of the universes that fail, the smallest one first (fewest tags, then fewest root requirements)
    size = lambda f: (len(f["input"]["universe_as_written"]["tags"]), len(f["input"]["root_requirements_as_written"])) \
        if "universe_as_written" in f.get("input", {}) else (0, 0)
    for f in sorted([r for r in precs if r["t"] == "ORACLE"], key=size):
        if f["name"] in seen:
            continue
        seen.add(f["name"])
        if f["name"] == "paths:buildlist-vs-reference":
            fo = f["input"].get("one_project_under_two_spellings") or {}
            ctx.violation("implementation violates C10 oracle %s (%s): BuildList = %s%s, expected %s%s" % (
                f["name"], f["state"], json.dumps(f["got"])[:300], (" (%s)" % f["error_text"][:200]) if f.get("error_text") else "",
                json.dumps(f["want"])[:300],
                ("; %s is demanded at %s, written %s (%s)" % (fo["project"], " and ".join(fo["demanded_at"]),
                                                             " and ".join(map(repr, fo["written_as"])), fo["demanded_by"])) if fo else ""),
                {"oracle": f["name"], "state": f["state"], "input": f["input"], "got": f["got"], "want": f["want"],
                 "error_text": f.get("error_text", ""), "all_answers": f["all_answers"], "how": how + ", case %d" % f["case"]})
        else:
            ctx.violation("implementation violates C10 oracle %s: %s" % (f["name"], f["what"][:600]),
                          {"oracle": f["name"], "what": f["what"], "input": f["input"], "how": how})
    exprs, index = [], {}
    items = []
    for i, c in enumerate(cleans):
        for j, (k, via) in enumerate((("loaded", "WriteConfigFile + LoadConfigFile"), ("clean_path", "project.CleanPath"))):
            if j == 0 and not c["loads"]:
                continue
            index[PCLEAN_BASE + 2 * i + j] = (c, k, via)
            items.append("(%s, (%s, %s))" % (cq_N(PCLEAN_BASE + 2 * i + j), cq_bytes(bytes.fromhex(c["s"])), cq_bytes(bytes.fromhex(c[k]))))
    exprs.append("mismatches_clean %s" % cq_list(items))
    cur = []
    for i, (u, c) in enumerate(zip(punis, pcs)):
        index[PWRITTEN_BASE + i] = (u, c)
        cur.append("(%s,\n  %s)" % (cq_universe(u), cq_list(["(%s, (%s, %s))" % (cq_N(PWRITTEN_BASE + i), cq_config(c["root"]),
                                                                                 cq_bl_result(c["res"]["cold cache"]))])))
        if len(cur) >= 100:
            exprs.append("mismatches_c10_written [\n" + ";\n".join(cur) + "]")
            cur = []
    if cur:
        exprs.append("mismatches_c10_written [\n" + ";\n".join(cur) + "]")
    return exprs, index


def paths_model(ctx, allm, index):
    """model (Mvs/Paths.v) vs implementation on the written-paths family"""
    if not index:
        return
    cm = [index[i] for i in allm if PCLEAN_BASE <= i < PWRITTEN_BASE]
    wm = [index[i] for i in allm if PWRITTEN_BASE <= i < PATHS_END]
    ctx.coverage["correspondence"]["written_path_cases"] = sum(1 for i in index if i < PWRITTEN_BASE)
    ctx.coverage["correspondence"]["written_path_mismatches"] = len(cm)
    ctx.coverage["correspondence"]["written_universes"] = sum(1 for i in index if i >= PWRITTEN_BASE)
    ctx.coverage["correspondence"]["written_universe_mismatches"] = len(wm)
    if cm and not ctx.violations:
        ctx.violation("model/implementation disagree on the path a written requirement path is loaded as: %d of %d cases, e.g. %s" % (
            len(cm), ctx.coverage["correspondence"]["written_path_cases"],
            ", ".join("%r -> %r (%s)" % (c["text"], c[k + "_text"], via) for c, k, via in cm[:6])),
            {"theorem_or_correspondence": "correspondence Mvs/Paths.v (clean_path_full; theorems written_path_loads_as, "
                                          "written_build_list_spec rest on it) <-> internal/project/config.go LoadConfigBytes, version.go CleanPath",
             "disagreeing_cases": [{"written": c["text"], "implementation": c[k + "_text"], "through": via} for c, k, via in cm[:12]]},
            found_input=False)
    if wm and not ctx.violations:
        u, c = wm[0]
        ctx.violation("model/implementation disagree on %d build lists of universes whose requirement paths are written in "
                      "spellings, e.g. root %s" % (len(wm), c["root"]),
                      {"theorem_or_correspondence": "correspondence Mvs/Paths.v (dawn_build_list_written) <-> LoadConfigBytes + BuildList",
                       "disagreeing_cases": [{"universe_as_written": u, "root_as_written": c["root"], "implementation": c["res"]["cold cache"],
                                              "one_project_under_two_spellings": c["forced"]} for u, c in wm[:2]]}, found_input=False)


def fetch_family(ctx):
    """fourth family: the REAL git repository (internal/vcs/repo_git.go) delivering project versions one at a time on fresh
    dials, in turn on one dialed repository, and several at once on one dialed repository -- what the parallel build-list
    traversal does with a cold download cache (harness/overlay/internal/vcs/zz_verif_c10_fetch_test.go).  The model takes
    "what the repository delivers for a project version" as a function of the project version alone (Mvs/Cache.v, Section
    variable [deliver]); this family checks the real repository against that."""
    import shutil
    import threading
    files = {"zz_verif_c10_fetch_test.go": os.path.join(HARNESS, "overlay/internal/vcs/zz_verif_c10_fetch_test.go")}
    for fn in ("go.mod", "go.sum"):
        shutil.copy(os.path.join(REPO, fn), os.path.join(ctx.tmp, "c10f-" + fn))
    extra = ["-modfile=" + os.path.join(ctx.tmp, "c10f-go.mod")]
    runs = {}

    def one(name, more, seed, rounds):
        out = os.path.join(ctx.tmp, "c10fetch-%s.jsonl" % name)
        env = {"VERIF_OUT_FETCH": out, "VERIF_SEED": str(seed), "VERIF_FETCH_REPOS": "4" if ctx.quick() else "12",
               "VERIF_FETCH_ROUNDS": str(rounds)}
        if name == "race":
            env["CGO_ENABLED"] = "1"
        rc, o = ctx.go_overlay_test("internal/vcs", files, "^TestVerifC10Fetch$", env, timeout=1200, extra=extra + more)
        runs[name] = (rc, o, read_jsonl(out))
    ths = [threading.Thread(target=one, args=("plain", [], ctx.seed, 8 if ctx.quick() else 30)),
           threading.Thread(target=one, args=("race", ["-race"], ctx.seed + 500, 4 if ctx.quick() else 12))]
    for t in ths:
        t.start()
    for t in ths:
        t.join()
    cov = {}
    how = "go test -overlay ... -run ^TestVerifC10Fetch$ ./internal/vcs (harness/overlay/internal/vcs/zz_verif_c10_fetch_test.go), VERIF_SEED=%d"
    for name, (rc, o, recs) in runs.items():
        jobs = [r for r in recs if r["t"] == "JOB"]
        bad = [r for r in jobs if "differs" in r or "error" in r]
        ended = any(r["t"] == "END" for r in recs)
        nraces = o.count("WARNING: DATA RACE")
        cov[name] = {"exit": rc, "repositories": sum(1 for r in recs if r["t"] == "REPO"),
                     "deliveries": {m: sum(1 for r in jobs if r["mode"] == m) for m in ("alone", "in-turn", "together")},
                     "rounds_of_simultaneous_fetches": sum(1 for r in recs if r["t"] == "ROUND"), "data_races": nraces}
        seed = ctx.seed + (500 if name == "race" else 0)
        if name == "race" and rc != 0 and not recs and re.search(r"-race requires cgo|-race is only supported|C compiler .* not found|exec: \"(gcc|cc|clang)\"", o):
            ctx.log("race detector unavailable:", o.strip().splitlines()[-1][:200] if o.strip() else "")
            cov[name]["unavailable"] = True
            continue
        for mode, what in (("alone", "fetched alone on a freshly dialed repository"),
                           ("in-turn", "fetched after other project versions from the same dialed repository"),
                           ("together", "fetched while other project versions were being fetched from the same dialed repository")):
            b = [r for r in bad if r["mode"] == mode]
            if b:
                r = b[0]
                ctx.violation("implementation violates C10 oracle fetch:repository-delivers-the-tree-of-the-project-version (%s): project %s at %s %s: %s%s" % (
                    mode, r["project"], r["tag"], what, ("error " + r["error"]) if "error" in r else ("delivered tree " + r["differs"]),
                    ("; fetches so far / at the same time: " + ", ".join(r.get("jobs", [])[:12])) if r.get("jobs") else ""),
                    {"oracle": "fetch:" + mode, "failing_deliveries": b[:6], "count": len(b), "how": how % seed + (" under -race" if name == "race" else "")},
                    key="fetch:" + mode)
        if nraces:
            first = o[o.index("WARNING: DATA RACE"):]
            first = first[:first.find("==================")] if "==================" in first else first
            ctx.violation("fetching two project versions from one dialed git repository at the same time shares memory (%d data races "
                          "reported by the race detector): what is delivered can depend on the schedule" % nraces,
                          {"oracle": "fetch:race-detector", "first_report": [l.strip() for l in first.splitlines() if l.strip()][:26],
                           "how": how % seed + " under -race"}, key="fetch:race")
        elif rc != 0 and not bad:
            rounds = [r for r in recs if r["t"] == "ROUND"]
            if rounds and not ended:
                r = rounds[-1]
                ctx.violation("implementation violates C10 oracle fetch:process-dies: fetching %s at the same time from one dialed git "
                              "repository (projects %s) killed the process: %s" % (", ".join(r["jobs"]), r["projects"],
                                                                                   next((l for l in o.splitlines() if l.startswith(("fatal error", "panic"))), "")[:200]),
                              {"oracle": "fetch:process-dies", "round": r, "output": o[:3000], "how": how % seed}, key="fetch:dies")
            else:
                ctx.violation("the git-repository harness failed to build or run against /repo (exit %d)" % rc,
                              {"theorem_or_correspondence": "C10 fetch harness", "output": o[-3000:]}, found_input=False, key="fetch:harness")
    ctx.coverage["correspondence"]["git_repository_fetches"] = cov
    ctx.coverage["evaluations"] += sum(sum(c["deliveries"].values()) for c in cov.values())


def run(ctx):
    ok, rep = ctx.coq_props("Mvs/Props_C10.v")
    proof_broken = not ok
    okr, outr = ctx.coq_build(["Mvs/Run.vo", "Mvs/RunLoad.vo", "Mvs/RunGate.vo", "Mvs/RunPaths.vo"])
    if not okr:
        ctx.violation("the model does not compile", {"theorem_or_correspondence": "Mvs/Run.vo", "log": outr[-2000:]},
                      found_input=False)
        return

    nuniv = 150 if ctx.quick() else 1500
    ncache = 40 if ctx.quick() else 400
    out = os.path.join(ctx.tmp, "c10.jsonl")
    outc = os.path.join(ctx.tmp, "c10cache.jsonl")
    env = {"VERIF_OUT": out, "VERIF_NUNIV": str(nuniv), "VERIF_NROOTS": "3", "VERIF_SEED": str(ctx.seed),
           "VERIF_MALFORMED_MAJOR": os.environ.get("VERIF_MALFORMED_MAJOR", "0"),
           "VERIF_OUT_CACHE": outc, "VERIF_NUNIV_CACHE": str(ncache), "VERIF_NROOTS_CACHE": "2",
           "VERIF_CACHE_TARGETS": "3",
           "VERIF_OUT_SPELL": os.path.join(ctx.tmp, "c10spell.jsonl"), "VERIF_NUNIV_SPELL": str(30 if ctx.quick() else 300),
           "VERIF_OUT_PATHS": os.path.join(ctx.tmp, "c10paths.jsonl"), "VERIF_NUNIV_PATHS": str(100 if ctx.quick() else 1000)}
    # the cache-state family creates and removes ~10^5 small files: keep the temporary directory (the resolver's
    # staging areas and the cache directories alike, so renames stay on one file system) in memory when possible
    shm = None
    if os.path.isdir("/dev/shm") and os.access("/dev/shm", os.W_OK):
        shm = tempfile.mkdtemp(prefix="verif-c10-", dir="/dev/shm")
        env["TMPDIR"] = shm
    # the cache-state family exports complete caches + root requirement sets + reference lists for the third family,
    # which loads them as projects through the root package's Load (harness/overlay/root/zz_verif_c10_load_test.go)
    export = os.path.join(shm or ctx.tmp, "c10-export")
    os.makedirs(export, exist_ok=True)
    env["VERIF_C10_EXPORT"] = export
    env["VERIF_C10_EXPORT_MAX"] = str(40 if ctx.quick() else 400)
    outl = os.path.join(ctx.tmp, "c10load.jsonl")
    rcl, ol = None, ""
    try:
        rc, o = ctx.go_overlay_test("internal/mvs", harness_files(), "^TestVerifC10(Cache|Spell|Paths)?$", env, timeout=1500)
        if rc == 0:
            envl = {"VERIF_C10_EXPORT": export, "VERIF_OUT_LOAD": outl, "VERIF_SEED": str(ctx.seed),
                    "VERIF_C10_LOAD_ENTRIES": "3" if ctx.quick() else "6",
                    # no repository may be reached from here: every dial fails at once, as on a machine without network
                    "HTTPS_PROXY": "http://127.0.0.1:1", "HTTP_PROXY": "http://127.0.0.1:1", "ALL_PROXY": "http://127.0.0.1:1",
                    "NO_PROXY": "", "GIT_SSH_COMMAND": "false", "SSH_AUTH_SOCK": ""}
            if shm:
                envl["TMPDIR"] = shm
            rcl, ol = ctx.go_overlay_test("", {"zz_verif_c10_load_test.go": os.path.join(HARNESS, "overlay/root/zz_verif_c10_load_test.go")},
                                          "^TestVerifC10Load$", envl, timeout=900)
    finally:
        if shm:
            shutil.rmtree(shm, ignore_errors=True)
    recs = read_jsonl(out)
    crecs = read_jsonl(outc)
    lrecs = read_jsonl(outl)
    srecs = read_jsonl(env["VERIF_OUT_SPELL"])
    precs = read_jsonl(env["VERIF_OUT_PATHS"])
    if rc != 0:
        ctx.log(o[-3000:])
        cc = crashed_case(recs)
        if cc is None and crashed_case(crecs) is not None and crecs:
            ccc = crashed_case(crecs)
            cunis = {r["id"]: r for r in crecs if r["t"] == "CU"}
            ctx.violation("BuildList crashed the process on case %d of the cache-state family" % ccc,
                          {"case": ccc, "last_universe": cunis[max(cunis)] if cunis else None, "output": o[-3000:],
                           "how": "VERIF_SEED=%d go test -overlay ... -run TestVerifC10Cache ./internal/mvs" % ctx.seed})
        elif cc is not None and recs:
            unis = {r["id"]: r for r in recs if r["t"] == "U"}
            ctx.violation("BuildList crashed the process (a panic inside the library's workers) on generated case %d" % cc,
                          {"case": cc, "last_universe": unis[max(unis)] if unis else None, "output": o[-3000:],
                           "how": "VERIF_SEED=%d go test -overlay ... -run TestVerifC10 ./internal/mvs" % ctx.seed})
        else:
            ctx.violation("mvs harness failed to build or run against /repo (exit %d)" % rc,
                          {"theorem_or_correspondence": "C10 correspondence harness", "output": o[-3000:]}, found_input=False)
        return

    unis = {r["id"]: r for r in recs if r["t"] == "U"}
    cases = [r for r in recs if r["t"] == "C10"]
    oracles = [r for r in recs if r["t"] == "ORACLE"]
    dist = {}
    for c in cases:
        k = "%s:paths=%d" % (c["ref"]["st"], min(len(c["ref"]["m"]), 8))
        dist[k] = dist.get(k, 0) + 1
        # cache / order independence observed directly on the implementation
        for v in ("warm", "disk", "shared", "shuf"):
            if c["res"][v] != c["res"]["cold"]:
                oracles.append({"t": "ORACLE", "name": "cold-vs-" + v, "case": c["case"], "u": c["u"], "root": c["root"],
                                "got": c["res"][v], "want": c["res"]["cold"]})
    ctx.coverage["evaluations"] = len(cases) * 5
    ctx.coverage["distinct_nontrivial"] = len({json.dumps([c["u"], c["root"]]) for c in cases if c["ref"]["st"] == "ok"
                                               and len(c["ref"]["m"]) > 2})
    ctx.coverage["rule"] = ("%d generated universes (2-8 projects, 1-5 versions each, majors v0-v3 with @vN path suffixes, "
                            "prereleases, two-digit components, diamonds, forced cycles, a root requirement on the root's own empty path now and then, 2%% requirements on untagged versions) x 3 root requirement "
                            "sets x {cold cache, same resolver again, new resolver on the warm disk cache, cache shared with "
                            "other roots, shuffled requirement declaration order + renamed root requirements}; "
                            "non-trivial = resolves without error to more than one project; requirements on pseudo-versions "
                            "are not generated for C10" % nuniv)
    ctx.coverage["exhaustive"] = False
    ctx.coverage["correspondence"]["distribution"] = dist
    cache_family(ctx, crecs)
    load_family(ctx, lrecs, crecs, rcl, ol)
    sexprs, sindex = spelling_family(ctx, srecs)
    pexprs, pindex = paths_family(ctx, precs)
    fetch_family(ctx)
    ctx.add_samples([{"root": c["root"], "build_list": c["res"]["cold"]} for c in cases[:3]])

    seen = set()
    for f in oracles:
        if f["name"] in seen:
            continue
        seen.add(f["name"])
        ctx.violation("implementation violates C10 oracle %s: BuildList = %s, expected %s" % (
            f["name"], json.dumps(f["got"])[:300], json.dumps(f["want"])[:300]),
            {"oracle": f["name"], "universe": unis[f["u"]], "root_requirements": f["root"], "got": f["got"],
             "want": f["want"], "how": "internal/mvs.BuildList on the universe served by the package's fake dialer; see "
                                       "harness/overlay/internal/mvs/zz_verif_c10_test.go (VERIF_SEED=%d)" % ctx.seed})

    # model evaluation inside Coq, sharded by universe
    groups = {}
    for i, c in enumerate(cases):
        groups.setdefault(c["u"], []).append((i, c))
    exprs = []
    cur, n = [], 0
    for uid, cs in groups.items():
        items = ["(%s, (%s, %s))" % (cq_N(i), cq_config(c["root"]), cq_bl_result(c["res"]["cold"])) for i, c in cs]
        cur.append("(%s,\n  %s)" % (cq_universe(unis[uid]), cq_list(items)))
        n += len(cs)
        if n >= 120:
            exprs.append("mismatches_c10 [\n" + ";\n".join(cur) + "]")
            cur, n = [], 0
    if cur:
        exprs.append("mismatches_c10 [\n" + ";\n".join(cur) + "]")
    lexprs, lindex = load_model_exprs(lrecs, crecs) if any(r["t"] == "END" for r in lrecs) else ([], [])
    kexprs, kindex = locate_model_exprs(crecs)
    okc, res, logs = ctx.coq_eval(HDR, exprs + lexprs + kexprs + sexprs + pexprs)
    if not okc:
        ctx.log("coq evaluation failed", logs[:1])
        ctx.violation("model evaluation failed", {"theorem_or_correspondence": "C10 cases.v evaluation", "log": logs[:2]},
                      found_input=False)
        return
    allm = [i for r in res for i in r]
    mism = [i for i in allm if i < LOAD_BASE]
    sallm, allm = allm, [i for i in allm if i < PCLEAN_BASE]
    lmism = [lindex[i - LOAD_BASE] for i in allm if LOAD_BASE <= i < LOC_BASE]
    kmism = [kindex[i - LOC_BASE] for i in allm if LOC_BASE <= i < GATE_BASE]
    ctx.coverage["correspondence"]["cases"] = len(cases)
    ctx.coverage["correspondence"]["mismatches"] = len(mism)
    ctx.coverage["correspondence"]["project_load_cases"] = len(lindex)
    ctx.coverage["correspondence"]["project_load_mismatches"] = len(lmism)
    ctx.coverage["correspondence"]["repository_lookups"] = len(kindex)
    ctx.coverage["correspondence"]["repository_lookup_mismatches"] = len(kmism)
    ctx.coverage["correspondence"]["repository_lookup_distribution"] = {
        k: sum(1 for e in kindex if sel(e)) for k, sel in (
            ("found on the well-known host", lambda e: e["implementation"]["st"] == "ok" and e["project_path"].startswith("github.com/")),
            ("found by dialing prefixes", lambda e: e["implementation"]["st"] == "ok" and not e["project_path"].startswith("github.com/")),
            ("at the repository root", lambda e: e["implementation"]["st"] == "ok" and e["implementation"]["project_path_in_repository"] == ""),
            ("no repository", lambda e: e["implementation"]["st"] != "ok"))}
    ctx.coverage["evaluations"] += len(kindex)
    ctx.log("cases=%d mismatches=%d oracle_failures=%d; project-load cases=%d mismatches=%d; repository lookups=%d mismatches=%d" % (
        len(cases), len(mism), len(oracles), len(lindex), len(lmism), len(kindex), len(kmism)))
    spelling_model(ctx, allm, sindex, srecs)
    paths_model(ctx, sallm, pindex)
    if lmism and not ctx.violations:
        ctx.violation("model/implementation disagree on %d project loads, e.g. exported case %d%s" % (
            len(lmism), lmism[0]["case"], (" with cache entry %s damaged (%s)" % (lmism[0]["entry"], lmism[0]["kind"]))
            if lmism[0]["t"] == "LS" else " (intact cache)"),
            {"theorem_or_correspondence": "correspondence Mvs/Load.v (load_build_list) + Mvs/LoadRoot.v (load_config_loop) <-> "
                                       "project_config.go loadConfig / loadConfigFile via Load",
             "disagreeing_cases": lmism[:3]}, found_input=False)
    if kmism and not ctx.violations:
        ctx.violation("model/implementation disagree on %d repository lookups, e.g. %s" % (len(kmism), kmism[0]["project_path"]),
                      {"theorem_or_correspondence": "correspondence Mvs/Locate.v (find_project_repository) <-> "
                                                    "internal/mvs/resolver.go findProjectRepository",
                       "disagreeing_cases": kmism[:3]}, found_input=False)
    if mism and not oracles:
        ex = [{"universe": unis[cases[i]["u"]], "root": cases[i]["root"], "implementation": cases[i]["res"]["cold"]}
              for i in mism[:3]]
        ctx.violation("model/implementation disagree on %d build lists, e.g. root %s" % (len(mism), ex[0]["root"]),
                      {"theorem_or_correspondence": "correspondence Mvs/Model.v <-> internal/mvs BuildList + pgavlin/mvs",
                       "disagreeing_cases": ex}, found_input=False)
    if proof_broken and not ctx.violations:
        ctx.violation("a C10 theorem no longer checks", {"theorem_or_correspondence": getattr(ctx, "broken_proof", {})},
                      found_input=False)
