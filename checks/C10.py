"""C10 — Resolved build list is the minimal-version-selection solution."""
import json
import os
import re
import shutil
import tempfile
from lib.vlib import *

META = {
    "property_id": "C10",
    "technique": "Coq proof over a Gallina model of the MVS work-list exploration (pgavlin/mvs buildList + Graph) and "
                 "dawn's Reqs/BuildList and of the resolver's download cache (FetchProject: stage, rename, tolerate 'exists') "
                 "as a transition system over interleaved calls, faults and kills + correspondence on generated universes "
                 "through the package's own fake repository and through multi-repository layouts with fault injection",
    "level_text": "Theorems (Coq, unbounded): for every processing order of the work list, every finite universe (cycles, "
                  "diamonds, several majors) and every root requirement list, the model's build list is exactly the set of "
                  "reachable paths, each once, at the maximum version over the reachable requirements, sorted by path "
                  "(build_list_spec), an unresolvable reachable requirement is an error under every order, and the answer "
                  "is independent of the processing order and of any permutation of the root requirements "
                  "(build_list_order_independent); the explicit fuel |nodes|+1 always suffices. Download cache: in every world "
                  "reachable by interleaved resolveProject calls of any number of resolvers, failing operations and kills, every "
                  "directory in the cache is a complete download (cache_entries_complete), a call without a failed operation "
                  "returns the project's own configuration (resolve_via_cache), and a build list computed from such answers is "
                  "the build list of the universe (build_list_cache_independent). The model is tied to "
                  "get.go/reqs.go/resolver.go and the library by running both on generated universes "
                  "(cold cache, warm resolver, warm disk cache, shared cache, shuffled declaration order) and, for the cache "
                  "model, on multi-repository layouts with every delivery point of a download failing once or parked while a "
                  "second resolver runs / the cache directory is copied (the state a kill would leave).",
    "level_note": "Trusted: Coq kernel; the python rendering of version strings into canonical semver records; the "
                  "model of par.Work as an arbitrary sequential pick order (g.Require runs under the library's mutex); the cache "
                  "theorems assume os.Rename of a directory is atomic, that a complete download holds the project's configuration "
                  "(deliver_sound) and that two requested project versions sharing a cache directory resolve alike (key_sound: "
                  "fails for a requirement path without the major suffix of its version, the recorded observation of DESIGN 5; "
                  "such paths are not generated); a copy-instead-of-rename publication could only be seen by parking inside the "
                  "resolver's own copy, which the harness cannot do. "
                  "Requirement versions are canonical (LoadConfigBytes enforces it); build metadata is out of the model.",
    "design_ref": "DESIGN.md §6 C10",
}

HDR = "From Dawn Require Import Mvs.Edit Mvs.Run.\nOpen Scope N_scope.\n"
OVL = "overlay/internal/mvs/"
FILES = ["zz_verif_mvsgen_test.go", "zz_verif_c10_test.go", "zz_verif_c10_cache_test.go", "zz_verif_c11_test.go"]

SEMVER = re.compile(r"^v(0|[1-9]\d*)\.(0|[1-9]\d*)\.(0|[1-9]\d*)(?:-([0-9A-Za-z.-]+))?$")


# --- rendering of harness values as Coq terms -------------------------------------------------------------

def cq_str(s):
    return cq_bytes(s.encode("utf-8"))


def parse_semver(v):
    """canonical semver string -> (major, minor, patch, [ids]) or None"""
    m = SEMVER.match(v)
    if not m:
        return None
    ids = m.group(4).split(".") if m.group(4) is not None else []
    for i in ids:
        if i == "" or (i.isdigit() and len(i) > 1 and i[0] == "0"):
            return None
    return int(m.group(1)), int(m.group(2)), int(m.group(3)), ids


def cq_semver(t):
    ids = ["(PNum %d)" % int(i) if i.isdigit() else "(PStr %s)" % cq_str(i) for i in t[3]]
    return "(mkSV %d %d %d %s)" % (t[0], t[1], t[2], cq_list(ids, "preid"))


def cq_version(v):
    if v == "":
        return "VRoot"
    if v == "none":
        return "VNone"
    t = parse_semver(v)
    if t is None:
        raise ValueError("not a canonical version: %r" % v)
    return "(VSem %s)" % cq_semver(t)


def cq_node(p, v):
    return "(%s, %s)" % (cq_str(p), cq_version(v))


def cq_universe(u):
    tags = cq_list(["(%s, %d)" % (cq_node(t[0], t[1]), int(t[2])) for t in u["tags"]], "(node * N)")
    sums = cq_list(["((%s, %d), mkSum %s %s)" % (cq_str(s[0]), s[1], cq_str(s[2]),
                                                 cq_list([cq_node(*r) for r in s[3]], "node")) for s in u["sums"]],
                   "((str * N) * summary)")
    refs = cq_list(["(%s, %d)" % (cq_str(r[0]), int(r[1])) for r in u["refs"]], "(str * N)")
    segs = cq_list(["(%d, %s)" % (s[0], cq_str(s[1])) for s in u["segs"]], "(N * str)")
    return "(mkU %s %s %s %s %s %s)" % (cq_str(u["repo"]), tags, sums, refs, cq_str(u["default"]), segs)


def cq_config(cfg):
    return cq_list(["(%s, %s)" % (cq_str(n), cq_node(p, v)) for n, p, v in cfg], "(str * node)")


def cq_bl_result(r):
    st = r["st"]
    if st == "ok":
        return "(Ok %s)" % cq_list([cq_node(p, v) for p, v in r["m"]], "(str * version)")
    return {"err": "Err", "panic": "Panic", "hang": "OutOfFuel"}[st]


def harness_files():
    return {f: os.path.join(HARNESS, OVL + f) for f in FILES}


def read_jsonl(path):
    recs = []
    if not os.path.exists(path):
        return recs
    for line in open(path):
        line = line.strip()
        if line:
            try:
                recs.append(json.loads(line))
            except ValueError:
                pass  # truncated last line of a crashed run
    return recs


def crashed_case(recs):
    """the case that was running when the process died (no END record)"""
    if recs and recs[-1].get("t") == "END":
        return None
    starts = [r for r in recs if r.get("t") == "START"]
    return starts[-1]["case"] if starts else 0


def cache_family(ctx, crecs):
    """download-cache states produced by faults, kills and concurrent resolvers, over multi-repository layouts
    (harness/overlay/internal/mvs/zz_verif_c10_cache_test.go): every answer must be the reference build list"""
    cunis = {r["id"]: r for r in crecs if r["t"] == "CU"}
    ccases = [r for r in crecs if r["t"] == "CC"]
    end = [r for r in crecs if r["t"] == "END"]
    if not end or not ccases:
        ctx.violation("the cache-state family of the C10 harness did not run to its end",
                      {"theorem_or_correspondence": "TestVerifC10Cache", "records": len(crecs)}, found_input=False)
        return
    fired = sum(c["fired"] for c in ccases)
    ctx.coverage["evaluations"] += end[0]["runs"]
    ctx.coverage["cache_states"] = {
        "universes": len(cunis), "cases": len(ccases), "fault_scenarios": end[0]["scenarios"], "build_lists": end[0]["runs"],
        "faults_that_fired": fired, "faults_that_did_not_fire": sum(c["not_fired"] for c in ccases),
        "reference_ok": sum(1 for c in ccases if c["want"]["st"] == "ok"),
        "layout": {k: sum(1 for u in cunis.values() for p in u["layout"].values() if sel(p))
                   for k, sel in (("own repository, at its root", lambda p: p["path_in_repository"] == "" ),
                                  ("own repository, subdirectory", lambda p: "/m-" in p["repository"]),
                                  ("shared repository", lambda p: p["repository"].endswith("/u")))},
        "rule": "generated universes laid out over several repositories (project at a repository root reported as '' "
                "or '.', in a subdirectory, in the shared repository; dawn.toml or .dawnconfig next to other files; a "
                "third of the universes with requirements on pseudo-versions); delivery as os.CopyFS does it "
                "(directory, then file by file in lexical order, the configuration file created empty / a well-formed "
                "prefix / the rest); per case 3 downloads of the cold run: every delivery point of the first and two of "
                "each other, plus one of dial / list versions / look up revision; each point x {fails once: same "
                "resolver again, fresh resolver on a copy of the cache the failed run left; parks: second resolver "
                "meanwhile, first resolver once released, fresh resolver on a copy of the cache taken while parked, "
                "fresh resolver after both}",
    }
    if fired == 0:
        ctx.violation("no injected fault fired in the cache-state family (harness defect)",
                      {"theorem_or_correspondence": "TestVerifC10Cache"}, found_input=False)
    seen = set()
    for f in [r for r in crecs if r["t"] == "ORACLE"]:
        if f["name"] in seen:
            continue
        seen.add(f["name"])
        fault = f.get("fault")
        ctx.violation("implementation violates C10 oracle %s%s: BuildList = %s, expected %s" % (
            f["name"], (" (fault %s)" % fault["meaning"]) if fault else "", json.dumps(f["got"])[:300],
            json.dumps(f["want"])[:300]),
            {"oracle": f["name"], "universe_and_layout": cunis[f["u"]], "root_requirements": f["root"], "fault": fault,
             "got": f["got"], "want": f["want"], "error_text": f.get("error_text", ""),
             "how": "internal/mvs.BuildList over the repositories of harness/overlay/internal/mvs/"
                    "zz_verif_c10_cache_test.go: case %d of VERIF_SEED=%d -run TestVerifC10Cache" % (f["case"], ctx.seed)})
    # the cache model's invariant observed on the implementation (Mvs/Cache.v, theorem cache_entries_complete)
    inv = [r for r in crecs if r["t"] == "INV"]
    ctx.coverage["cache_states"]["cache_entries_inspected"] = sum(c.get("entries_inspected", 0) for c in ccases)
    ctx.coverage["cache_states"]["incomplete_entries"] = len(inv)
    if inv and not seen:
        ctx.violation("cache model and implementation disagree: %d cache directories visible to other resolvers were not "
                      "complete downloads, e.g. %s %s (%s; fault %s)" % (len(inv), inv[0]["entry"], inv[0]["when"],
                                                                     inv[0]["difference"], inv[0]["fault"]["meaning"]),
                      {"theorem_or_correspondence": "correspondence Mvs/Cache.v (cache_entries_complete) <-> "
                                                    "internal/mvs/resolver.go FetchProject",
                       "universe_and_layout": cunis[inv[0]["u"]], "disagreeing_cases": inv[:3]}, found_input=False)


def run(ctx):
    ok, rep = ctx.coq_props("Mvs/Props_C10.v")
    proof_broken = not ok
    okr, outr = ctx.coq_build(["Mvs/Run.vo"])
    if not okr:
        ctx.violation("the model does not compile", {"theorem_or_correspondence": "Mvs/Run.vo", "log": outr[-2000:]},
                      found_input=False)
        return

    nuniv = 150 if ctx.quick() else 1500
    ncache = 40 if ctx.quick() else 400
    out = os.path.join(ctx.tmp, "c10.jsonl")
    outc = os.path.join(ctx.tmp, "c10cache.jsonl")
    env = {"VERIF_OUT": out, "VERIF_NUNIV": str(nuniv), "VERIF_NROOTS": "3", "VERIF_SEED": str(ctx.seed),
           "VERIF_MALFORMED_MAJOR": os.environ.get("VERIF_MALFORMED_MAJOR", "0"),
           "VERIF_OUT_CACHE": outc, "VERIF_NUNIV_CACHE": str(ncache), "VERIF_NROOTS_CACHE": "2",
           "VERIF_CACHE_TARGETS": "3"}
    # the cache-state family creates and removes ~10^5 small files: keep the temporary directory (the resolver's
    # staging areas and the cache directories alike, so renames stay on one file system) in memory when possible
    shm = None
    if os.path.isdir("/dev/shm") and os.access("/dev/shm", os.W_OK):
        shm = tempfile.mkdtemp(prefix="verif-c10-", dir="/dev/shm")
        env["TMPDIR"] = shm
    try:
        rc, o = ctx.go_overlay_test("internal/mvs", harness_files(), "^TestVerifC10(Cache)?$", env, timeout=1500)
    finally:
        if shm:
            shutil.rmtree(shm, ignore_errors=True)
    recs = read_jsonl(out)
    crecs = read_jsonl(outc)
    if rc != 0:
        ctx.log(o[-3000:])
        cc = crashed_case(recs)
        if cc is None and crashed_case(crecs) is not None and crecs:
            ccc = crashed_case(crecs)
            cunis = {r["id"]: r for r in crecs if r["t"] == "CU"}
            ctx.violation("BuildList crashed the process on case %d of the cache-state family" % ccc,
                          {"case": ccc, "last_universe": cunis[max(cunis)] if cunis else None, "output": o[-3000:],
                           "how": "VERIF_SEED=%d go test -overlay ... -run TestVerifC10Cache ./internal/mvs" % ctx.seed})
        elif cc is not None and recs:
            unis = {r["id"]: r for r in recs if r["t"] == "U"}
            ctx.violation("BuildList crashed the process (a panic inside the library's workers) on generated case %d" % cc,
                          {"case": cc, "last_universe": unis[max(unis)] if unis else None, "output": o[-3000:],
                           "how": "VERIF_SEED=%d go test -overlay ... -run TestVerifC10 ./internal/mvs" % ctx.seed})
        else:
            ctx.violation("mvs harness failed to build or run against /repo (exit %d)" % rc,
                          {"theorem_or_correspondence": "C10 correspondence harness", "output": o[-3000:]}, found_input=False)
        return

    unis = {r["id"]: r for r in recs if r["t"] == "U"}
    cases = [r for r in recs if r["t"] == "C10"]
    oracles = [r for r in recs if r["t"] == "ORACLE"]
    dist = {}
    for c in cases:
        k = "%s:paths=%d" % (c["ref"]["st"], min(len(c["ref"]["m"]), 8))
        dist[k] = dist.get(k, 0) + 1
        # cache / order independence observed directly on the implementation
        for v in ("warm", "disk", "shared", "shuf"):
            if c["res"][v] != c["res"]["cold"]:
                oracles.append({"t": "ORACLE", "name": "cold-vs-" + v, "case": c["case"], "u": c["u"], "root": c["root"],
                                "got": c["res"][v], "want": c["res"]["cold"]})
    ctx.coverage["evaluations"] = len(cases) * 5
    ctx.coverage["distinct_nontrivial"] = len({json.dumps([c["u"], c["root"]]) for c in cases if c["ref"]["st"] == "ok"
                                               and len(c["ref"]["m"]) > 2})
    ctx.coverage["rule"] = ("%d generated universes (2-8 projects, 1-5 versions each, majors v0-v3 with @vN path suffixes, "
                            "prereleases, two-digit components, diamonds, forced cycles, a root requirement on the root's own empty path now and then, 2%% requirements on untagged versions) x 3 root requirement "
                            "sets x {cold cache, same resolver again, new resolver on the warm disk cache, cache shared with "
                            "other roots, shuffled requirement declaration order + renamed root requirements}; "
                            "non-trivial = resolves without error to more than one project; requirements on pseudo-versions "
                            "are not generated for C10" % nuniv)
    ctx.coverage["exhaustive"] = False
    ctx.coverage["correspondence"]["distribution"] = dist
    cache_family(ctx, crecs)
    ctx.add_samples([{"root": c["root"], "build_list": c["res"]["cold"]} for c in cases[:3]])

    seen = set()
    for f in oracles:
        if f["name"] in seen:
            continue
        seen.add(f["name"])
        ctx.violation("implementation violates C10 oracle %s: BuildList = %s, expected %s" % (
            f["name"], json.dumps(f["got"])[:300], json.dumps(f["want"])[:300]),
            {"oracle": f["name"], "universe": unis[f["u"]], "root_requirements": f["root"], "got": f["got"],
             "want": f["want"], "how": "internal/mvs.BuildList on the universe served by the package's fake dialer; see "
                                       "harness/overlay/internal/mvs/zz_verif_c10_test.go (VERIF_SEED=%d)" % ctx.seed})

    # model evaluation inside Coq, sharded by universe
    groups = {}
    for i, c in enumerate(cases):
        groups.setdefault(c["u"], []).append((i, c))
    exprs = []
    cur, n = [], 0
    for uid, cs in groups.items():
        items = ["(%s, (%s, %s))" % (cq_N(i), cq_config(c["root"]), cq_bl_result(c["res"]["cold"])) for i, c in cs]
        cur.append("(%s,\n  %s)" % (cq_universe(unis[uid]), cq_list(items)))
        n += len(cs)
        if n >= 120:
            exprs.append("mismatches_c10 [\n" + ";\n".join(cur) + "]")
            cur, n = [], 0
    if cur:
        exprs.append("mismatches_c10 [\n" + ";\n".join(cur) + "]")
    okc, res, logs = ctx.coq_eval(HDR, exprs)
    if not okc:
        ctx.log("coq evaluation failed", logs[:1])
        ctx.violation("model evaluation failed", {"theorem_or_correspondence": "C10 cases.v evaluation", "log": logs[:2]},
                      found_input=False)
        return
    mism = [i for r in res for i in r]
    ctx.coverage["correspondence"]["cases"] = len(cases)
    ctx.coverage["correspondence"]["mismatches"] = len(mism)
    ctx.log("cases=%d mismatches=%d oracle_failures=%d" % (len(cases), len(mism), len(oracles)))
    if mism and not oracles:
        ex = [{"universe": unis[cases[i]["u"]], "root": cases[i]["root"], "implementation": cases[i]["res"]["cold"]}
              for i in mism[:3]]
        ctx.violation("model/implementation disagree on %d build lists, e.g. root %s" % (len(mism), ex[0]["root"]),
                      {"theorem_or_correspondence": "correspondence Mvs/Model.v <-> internal/mvs BuildList + pgavlin/mvs",
                       "disagreeing_cases": ex}, found_input=False)
    if proof_broken and not ctx.violations:
        ctx.violation("a C10 theorem no longer checks", {"theorem_or_correspondence": getattr(ctx, "broken_proof", {})},
                      found_input=False)
