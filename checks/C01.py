"""C01 — Incremental builds are never stale."""
from checks.engine_common import run_engine

META = {
    "property_id": "C01",
    "technique": "Coq invariant proof over a Gallina model of the build engine + history correspondence with fresh-process builds",
    "level_text": "Theorems (Coq): the engine model's runs keep every successfully visited target's record fresh (names the present stamps of its dependencies, matches its environment/content, outputs exist) -- the invariant behind never-stale; builds read only live state. Correspondence: random projects x random histories (edits, partial builds, failing bodies, killed builds, dry runs, gc), every build a fresh process, model recomputes executed sets, events and records of every step; oracle: generated files equal a from-scratch build after every successful build.",
    "level_note": 'Trusted: Coq kernel; abstractions of Build/Model.v (content hash injective, run IDs fresh, sequential evaluation in topological order justified by C04, bodies deterministic and confined to declared inputs/outputs); harness assigns equal environment numbers exactly to equal semantic function text. never_stale is stated over the ghost history; see Props_C01.v for what is proved and what is _partial.',
    "design_ref": "DESIGN.md §6 C01",
}


def run(ctx):
    run_engine(ctx, "C01", "Build/Props_C01.v", ["C01 ", "load failed", "child-died", "harness"], 1,
               "Oracle: after every successful build the generated files of the closure equal those of a from-scratch "
               "build of a copy of the tree.")
