"""C01 — Incremental builds are never stale."""
from checks.engine_common import run_engine

META = {
    "property_id": "C01",
    "technique": "Coq invariant proof over a Gallina model of the build engine + history correspondence with fresh-process builds",
    "level_text": "placeholder",
    "level_note": "placeholder",
    "design_ref": "DESIGN.md §6 C01",
}


def run(ctx):
    run_engine(ctx, "C01", "Build/Props_C01.v", ["C01 ", "load failed", "child-died", "harness"], 1,
               "Oracle: after every successful build the generated files of the closure equal those of a from-scratch "
               "build of a copy of the tree.")
