"""C01 — Incremental builds are never stale."""
from checks.engine_common import run_engine

META = {
    "property_id": "C01",
    "technique": "Coq invariant proof over a Gallina model of the build engine + history correspondence with fresh-process builds",
    "level_text": 'Theorems (Coq, all histories): never_stale (after any history of edits, builds incl. failing and killed ones, collections, a successful build leaves every visited target current w.r.t. the ghost history of recorded executions), records_tell_the_truth, run_ids_below_counter, executed_run_is_fresh, successful_visits_are_fresh; incremental_eq_clean (after any history a successful build leaves a tree on which a from-scratch build -- records wiped -- succeeds everywhere, runs every function target of the closure and leaves every path with the content it had; hypotheses stated over a universally quantified behaviour table: environment determines reads/outputs/constant, one generator per path, no edits of generated paths, killed builds marked-before-run), incremental_eq_clean_checked (the same with the hypotheses as one boolean hist_okb, evaluated on every driven history), valid_records_describe_outputs (the invariant). Correspondence: 12 scripted scenarios + random projects x random histories (edits incl. inside source directories, partial builds, failing bodies, killed builds, dry runs, gc), every build a fresh process, the model recomputes executed sets, events and records of every step; oracle: generated files equal a from-scratch build after every successful build; statistic: histories within the hypotheses of incremental_eq_clean (all).',
    "level_note": 'Trusted: Coq kernel; abstractions of Build/Model.v (content hash injective, run IDs fresh, sequential evaluation in a topological order justified by C04, bodies deterministic and confined to declared inputs/outputs); the harness assigns equal environment numbers exactly to equal semantic function text (one module file per function, so the key is exact).',
    "design_ref": "DESIGN.md §6 C01",
}


def run(ctx):
    run_engine(ctx, "C01", "Build/Props_C01.v", ["C01 ", "load failed", "child-died", "harness"], 1,
               "Oracle: after every successful build the generated files of the closure equal those of a from-scratch "
               "build of a copy of the tree.")
