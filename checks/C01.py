"""C01 — Incremental builds are never stale."""
from checks.engine_common import run_engine

META = {
    "property_id": "C01",
    "technique": "Coq invariant proof over a Gallina model of the build engine + history correspondence with fresh-process builds",
    "level_text": 'Theorems (Coq, all histories): never_stale (after any history of edits, builds incl. failing and killed ones, collections, a successful build leaves every visited target current w.r.t. the ghost history of recorded executions), records_tell_the_truth, run_ids_below_counter, executed_run_is_fresh, successful_visits_are_fresh. Correspondence: 4 scripted scenarios + random projects x random histories (edits incl. inside source directories, partial builds, failing bodies, killed builds, dry runs, gc), every build a fresh process, the model recomputes executed sets, events and records of every step; oracle: generated files equal a from-scratch build after every successful build.',
    "level_note": 'Trusted: Coq kernel; abstractions of Build/Model.v (content hash injective, run IDs fresh, sequential evaluation in a topological order justified by C04, bodies deterministic and confined to declared inputs/outputs); the harness assigns equal environment numbers exactly to equal semantic function text. incremental_eq_clean is an oracle, not a theorem.',
    "design_ref": "DESIGN.md §6 C01",
}


def run(ctx):
    run_engine(ctx, "C01", "Build/Props_C01.v", ["C01 ", "load failed", "child-died", "harness"], 1,
               "Oracle: after every successful build the generated files of the closure equal those of a from-scratch "
               "build of a copy of the tree.")
