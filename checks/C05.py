"""C05 — Builds terminate: dependency cycles are reported, never deadlock."""
import os
import sys
sys.path.insert(0, os.path.join(os.path.dirname(os.path.dirname(os.path.abspath(__file__))), "harness", "runner"))
import rcommon

META = {
    "property_id": "C05",
    "technique": "Coq proofs (deadlock freedom by a publication-clock invariant, termination by a variant) over an interleaving "
                 "model of runner/runner.go + trace acceptance of hook logs of the real runner + watchdog + controlled scheduler on "
                 "the real runner + end-to-end builds of generated projects",
    "level_text": "Theorems (Coq, every directed graph incl. self-loops and overlapping cycles, every schedule, every limit >= 1): "
                  "every reachable non-quiescent state has an enabled thread (no deadlock, also before Run returns); every "
                  "schedule has at most bound(cfg) steps (no livelock; the walk visits each label at most once); a cyclic result "
                  "arises only if the declared dependencies have a cycle through that target, reachable from the root (none in "
                  "acyclic builds); if a cycle is reachable from the root, Run returns an error and by then some target was "
                  "handed a CyclicDependencyError, and for some target it is the first failed result, the one dawn's target.go reports "
                  "(cycle_reported_first; cyclic_results_uniform: a call that found a cycle hands the error out for every dependency); "
                  "in acyclic builds nothing is reported (acyclic_never_reports). A 2-cycle witness schedule and exhaustive all-schedule explorations of five "
                  "tiny configurations are included as tests. The model is tied to runner.go by replaying hook logs of real runs "
                  "(every waiting.Load observes the model's nil/non-nil; publish/clear/walk order). Direct oracles: watchdog (no "
                  "hang, all goroutines end), controlled scheduler (no state in which the build has not ended and no goroutine can "
                  "run), cyclic => Run fails, a cycle error was produced and is some target's first failed result, and end to end a "
                  "TargetFailed event carries it; acyclic => none.",
    "level_note": "Trusted: Coq kernel; the hook dispatcher; Go's scheduler fairness (deadlock freedom + bounded schedules give "
                  "termination under any fair scheduler); sync.Cond wake-ups (a model Wait is enabled iff the dependency is not "
                  "Running). The model is of the repaired code (visited set in engine.check, fix 38094ed); without it "
                  "`terminates` is false (F11). Schedules on the implementation are sampled (seeded jitter on the real scheduler; seeded "
                  "policies under the controlled scheduler, which serialises the goroutines at hook granularity on one processor), not "
                  "enumerated. The controlled scheduler trusts runtime.Stack's goroutine states for its deadlock verdict.",
    "design_ref": "DESIGN.md §6 C05, Appendix B",
}

SIZES = {"quick": (300, 3, 1500), "thorough": (4000, 15, 12000)}
# controlled scheduler: (schedules per graph x policy, random graphs)
CTL_SIZES = {"quick": (1, 40), "thorough": (12, 400)}
# end to end (real projects through dawn.Load / Project.Run): builds per graph
E2E_ROUNDS = {"quick": 2, "thorough": 12}
E2E_FILE = os.path.join(rcommon.HARNESS, "overlay/root/zz_verif_c05_e2e_test.go")
E2E_OWN = ("terminates", "cyclic_build_fails", "cycle_reported_e2e", "no_false_cycle_e2e")


def run_e2e(ctx, res):
    """Real projects generated from the graph family, built through dawn.Load / Project.Run with a recording Events; once on all
    CPUs and once pinned to one CPU (the runner's gate limit is runtime.NumCPU(): limit 1)."""
    import json
    rounds = E2E_ROUNDS["quick" if ctx.quick() else "thorough"]
    for name, extra, rnds in (("all-cpus", None, rounds), ("limit-1", ["-exec", "taskset -c 0"], max(1, rounds // 2))):
        out = os.path.join(ctx.tmp, "c05_e2e_%s.jsonl" % name)
        try:
            rc, o = ctx.go_overlay_test("", {"zz_verif_c05_e2e_test.go": E2E_FILE}, "^TestVerifC05EndToEnd$",
                                        {"VERIF_E2E_OUT": out, "VERIF_E2E_ROUNDS": str(rnds)}, timeout=900, extra=extra)
        except Exception as e:  # noqa
            rc, o = -1, repr(e)
        builds, oracles, ended = {}, [], False
        if os.path.exists(out):
            for line in open(out):
                line = line.rstrip("\n")
                if line.startswith("{"):
                    try:
                        b = json.loads(line)
                        builds[b["build"]] = b
                    except ValueError:
                        pass
                elif line.startswith("ORACLE\t"):
                    f = line.split("\t")
                    oracles.append((f[1], int(f[2]), f[3]))
                elif line.startswith("END\t"):
                    ended = True
        res[name] = {"rc": rc, "out": o, "builds": builds, "oracles": oracles, "ended": ended, "cpus": name}


def report_e2e(ctx, res):
    total, cyc, reported = 0, 0, 0
    for name, r in sorted(res.items()):
        how = ("go test -tags verif -overlay (harness/overlay/root/zz_verif_c05_e2e_test.go) -run ^TestVerifC05EndToEnd$ . %s; or by "
               "hand: an empty dawn.toml and the BUILD.dawn below in a directory, dawn.Load, Project.Run(//:t0) with an Events "
               "implementation that records TargetFailed" % ("(under taskset -c 0: gate limit 1)" if name == "limit-1" else ""))
        if not r["ended"] and not r["oracles"]:
            ctx.violation("the end-to-end harness failed to build or run against /repo (%s, exit %s)" % (name, r["rc"]),
                          {"theorem_or_correspondence": "C05 end-to-end harness", "output": r["out"][-3000:]}, found_input=False)
            continue
        total += len(r["builds"])
        cyc += sum(1 for b in r["builds"].values() if b.get("cyclic"))
        reported += sum(1 for b in r["builds"].values() if b.get("cyclic_reports"))
        own = [x for x in r["oracles"] if x[0] in E2E_OWN]
        other = [x for x in r["oracles"] if x[0] not in E2E_OWN]
        seen_graphs = set()
        for oname, bid, detail in own:
            b = r["builds"].get(bid, {})
            if (oname, b.get("graph")) in seen_graphs or len(seen_graphs) >= 2:
                continue
            seen_graphs.add((oname, b.get("graph")))
            ctx.violation("implementation violates C05 oracle %s (end to end, %s): graph %s: %s" % (oname, name, b.get("graph"), detail),
                          {"oracle": oname, "detail": detail, "graph": b.get("graph"), "BUILD.dawn": b.get("build_file"),
                           "requested": "//:t0", "cycle_reachable": b.get("cyclic"), "Run_error": b.get("run_error"),
                           "TargetFailed_events": b.get("target_failed"), "cyclic_reports": b.get("cyclic_reports"),
                           "failing_builds_of_this_kind": len([x for x in own if x[0] == oname]), "how": how})
        if other and not own:
            oname, bid, detail = other[0]
            ctx.violation("the end-to-end harness's own sanity check failed (%s): %s" % (oname, detail),
                          {"theorem_or_correspondence": "C05 end-to-end harness", "build": r["builds"].get(bid)}, found_input=False)
    ctx.coverage["correspondence"]["end_to_end"] = {
        "builds": total, "with_reachable_cycle": cyc, "builds_in_which_a_TargetFailed_event_carried_the_cycle_error": reported,
        "passes": sorted(res.keys())}
    return total


def run(ctx):
    import threading
    rep, nrand = CTL_SIZES["quick"] if ctx.quick() else CTL_SIZES["thorough"]
    e2e = {}
    th = threading.Thread(target=run_e2e, args=(ctx, e2e))
    th.start()
    rcommon.run_check(ctx, "C05", "Runner/Props_C05.v", SIZES,
                      "C05 oracles: watchdog (Run returns and every goroutine ends within 10 s); a cycle reachable from the root => Run "
                      "returns an error, a CyclicDependencyError was produced, and for some target it is the FIRST failed result (what "
                      "dawn's target.go reports); acyclic => no CyclicDependencyError.",
                      extra_files={"zz_verif_c05_ctl_test.go": rcommon.CTL_FILE},
                      more_runs=lambda c: rcommon.run_controlled(c, "C05", rep, nrand))
    th.join()
    n = report_e2e(ctx, e2e)
    runs = getattr(ctx, "runner_runs", [])
    ctl = [r for r in runs if r.get("controlled")]
    if ctl:
        pol = {}
        for r in ctl:
            pol[r["controlled"]] = pol.get(r["controlled"], 0) + 1
        st = [r.get("ctl_stats") or [0, 0, 0] for r in ctl]
        ctx.coverage["correspondence"]["controlled_scheduler"] = {
            "runs": len(ctl), "policies": pol, "releases": sum(x[0] for x in st), "runtime_state_checks": sum(x[1] for x in st),
            "checks_that_found_the_build_not_settled": sum(x[2] for x in st),
            "verdicts": sorted({r["verdict"] for r in ctl if r.get("verdict")})}
    if isinstance(ctx.coverage.get("rule"), str):
        ctx.coverage["rule"] += (
            " Added for C05: (a) the graph family 'cycle of length 1..4 whose members have another dependency (ok / failing / unknown "
            "/ shared / a chain) before, after or around the closing edge', cycles behind a foreign root, chords, 4- and 5-cycles, in "
            "the free-running runs above; (b) %d runs of the same graphs, the fixed corpus and random graphs under the CONTROLLED "
            "scheduler (one goroutine released at a time at the hook points, policies random / sticky / lockstep / pct, limits "
            "1,2,3,16; deadlock = build not ended, no goroutine parked at a hook, none runnable according to the Go runtime's own "
            "goroutine states), also replayed by the model; (c) %d real projects generated from the family (and acyclic controls) "
            "built end to end through dawn.Load / Project.Run on all CPUs and pinned to one CPU (gate limit 1), oracle: a "
            "TargetFailed event carries the CyclicDependencyError iff a cycle is reachable from the requested target."
            % (len(ctl), n))
    ctx.coverage["evaluations"] = ctx.coverage.get("evaluations", 0) + n
