"""C05 — Builds terminate: dependency cycles are reported, never deadlock."""
import os
import sys
sys.path.insert(0, os.path.join(os.path.dirname(os.path.dirname(os.path.abspath(__file__))), "harness", "runner"))
import rcommon

META = {
    "property_id": "C05",
    "technique": "Coq proofs (deadlock freedom by a publication-clock invariant, termination by a variant) over an interleaving "
                 "model of runner/runner.go + trace acceptance of hook logs of the real runner + watchdog",
    "level_text": "Theorems (Coq, every directed graph incl. self-loops and overlapping cycles, every schedule, every limit >= 1): "
                  "every reachable non-quiescent state has an enabled thread (no deadlock, also before Run returns); every "
                  "schedule has at most bound(cfg) steps (no livelock; the walk visits each label at most once); a cyclic result "
                  "arises only if the declared dependencies have a cycle through that target, reachable from the root (none in "
                  "acyclic builds); if a cycle is reachable from the root, Run returns an error and by then some target was "
                  "handed a CyclicDependencyError. A 2-cycle witness schedule and exhaustive all-schedule explorations of five "
                  "tiny configurations are included as tests. The model is tied to runner.go by replaying hook logs of real runs "
                  "(every waiting.Load observes the model's nil/non-nil; publish/clear/walk order). Direct oracles: watchdog (no "
                  "hang, all goroutines end), cyclic => Run fails and a cycle error was produced, acyclic => none.",
    "level_note": "Trusted: Coq kernel; the hook dispatcher; Go's scheduler fairness (deadlock freedom + bounded schedules give "
                  "termination under any fair scheduler); sync.Cond wake-ups (a model Wait is enabled iff the dependency is not "
                  "Running). The model is of the repaired code (visited set in engine.check, fix 38094ed); without it "
                  "`terminates` is false (F11). Schedules on the implementation are sampled (seeded jitter), not enumerated.",
    "design_ref": "DESIGN.md §6 C05, Appendix B",
}

SIZES = {"quick": (300, 3, 1500), "thorough": (4000, 15, 12000)}


def run(ctx):
    rcommon.run_check(ctx, "C05", "Runner/Props_C05.v", SIZES,
                      "C05 oracles: watchdog (Run returns and every goroutine ends within 10 s); a cycle reachable from the root => Run "
                      "returns an error and a CyclicDependencyError was produced; acyclic => no CyclicDependencyError.")
