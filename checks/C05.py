"""C05 — Parallelism limit is respected and slots are conserved."""
import os
import sys
sys.path.insert(0, os.path.join(os.path.dirname(os.path.dirname(os.path.abspath(__file__))), "harness", "runner"))
import rcommon

META = {
    "property_id": "C05",
    "technique": "Coq invariant proofs over an interleaving model of runner/runner.go + trace acceptance of hook logs of the real runner",
    "level_text": "TBD",
    "level_note": "TBD",
    "design_ref": "DESIGN.md §6 C05, Appendix B",
}

SIZES = {"quick": (150, 2), "thorough": (3000, 12)}


def run(ctx):
    rcommon.run_check(ctx, "C05", "Runner/Props_C05.v", SIZES,
                      "C05 oracles: harness counter of targets inside LoadTarget/Evaluate but outside EvaluateTargets <= limit "
                      "at all times; gate capacity = limit at quiescence; every logged gate.enter/gate.exit capacity equals the model's.")
