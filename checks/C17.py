"""C17 — Glob sets match exactly the union of their patterns."""
import os
from lib.vlib import *

META = {
    "property_id": "C17",
    "technique": "Coq proof over a Gallina model of util/glob.go (translation to an RE2 syntax tree + a position-aware "
                 "regexp semantics with unanchored search) + exhaustive short-pattern correspondence incl. RE2's own parser",
    "level_text": "Theorems (Coq, unbounded): for every list of patterns and every path, MatchString of the compiled "
                  "regexp = 'some pattern matches the whole path' under the documented glob semantics (recursive "
                  "matcher); CompileGlobs fails exactly on a dangling/invalid escape; Project.ignored and the selection "
                  "made by glob(include, exclude) follow. The executable regexp matcher is proved sound and complete for "
                  "a declarative semantics of the emitted RE2 fragment (anchors, (?s:), alternation, groups, star). The "
                  "model is tied to util/glob.go by comparing, for every single pattern of length <= 3 (quick) / <= 4 "
                  "(thorough) over {a / * ? \\ . [}, every pair of patterns of length <= 2 and sampled longer lists: the "
                  "pattern string byte for byte, the shape of regexp/syntax.Parse's tree, and MatchString on all 781 "
                  "paths of length <= 4 over {a / . \\n [}.",
    "level_note": "Trusted: Coq kernel; Go's regexp engine is modelled (semantics of the emitted fragment) and validated "
                  "by the correspondence sweep only. Bytes stand for characters: theorems are stated for ASCII patterns "
                  "and paths; non-ASCII behaviour is probed on the implementation against a character-wise matcher. "
                  "The empty pattern list compiles to ^(?s:)$, which matches the empty path (excluded by hypothesis, "
                  "unreachable from dawn).",
    "design_ref": "DESIGN.md §6 C17",
}

HDR = "From Dawn Require Import Glob.Model Glob.Run.\nOpen Scope N_scope.\n"
PALPHA = b"a/.\n["


def unhx(s):
    return b"" if s == "-" else bytes.fromhex(s)


def globs_of(s):
    return [] if s == "nil" else [unhx(x) for x in s.split(",")]


def to_case(f):
    gs = cq_list([cq_bytes(g) for g in globs_of(f[2])], "str")
    if f[3] == "err":
        return "CGlob %s None" % gs
    return "CGlob %s (Some (%s, %s, %s))" % (gs, cq_bytes(unhx(f[4])), cq_bytes(unhx(f[5])), cq_N(int(f[6])))


def show(f):
    return {"kind": f[1], "patterns": [g.decode("latin-1") for g in globs_of(f[2])], "compile": f[3],
            "regexp": unhx(f[4]).decode("latin-1") if len(f) > 4 else None}


def enum_paths(alpha, n):
    allp, lvl = [b""], [b""]
    for _ in range(n):
        lvl = [bytes([c]) + s for c in alpha for s in lvl]
        allp += lvl
    return allp


def run(ctx):
    ok, rep = ctx.coq_props("Glob/Props_C17.v")
    proof_broken = not ok

    out1 = os.path.join(ctx.tmp, "c17.tsv")
    env = {"VERIF_OUT": out1, "VERIF_MAXSINGLE": "3" if ctx.quick() else "4",
           "VERIF_NTRIPLES": "300" if ctx.quick() else "3000", "VERIF_SEED": str(ctx.seed)}
    rc, o = ctx.go_overlay_test("util", {"zz_verif_c17_test.go": os.path.join(HARNESS, "overlay/util/zz_verif_c17_test.go")},
                                "^TestVerifC17$", env)
    if rc != 0:
        ctx.log(o[-3000:])
        ctx.violation("util harness failed to build or run against /repo (exit %d)" % rc,
                      {"theorem_or_correspondence": "C17 correspondence harness (util)", "output": o[-3000:]}, found_input=False)
        return
    out2 = os.path.join(ctx.tmp, "c17_tree.tsv")
    rc, o = ctx.go_overlay_test("", {"zz_verif_c17_glob_test.go": os.path.join(HARNESS, "overlay/root/zz_verif_c17_glob_test.go")},
                                "^TestVerifC17Glob$", {"VERIF_OUT": out2, "VERIF_SEED": str(ctx.seed),
                                                       "VERIF_NTREES": "6" if ctx.quick() else "40"})
    if rc != 0:
        ctx.log(o[-3000:])
        ctx.violation("dawn glob()/ignore harness failed to build or run against /repo (exit %d)" % rc,
                      {"theorem_or_correspondence": "C17 harness (package dawn)", "output": o[-3000:]}, found_input=False)
        return

    cases, oracles, probes, panics, dist = [], [], [], [], {}
    npaths = 0
    for line in open(out1):
        f = line.rstrip("\n").split("\t")
        if f[0] == "ORACLE":
            oracles.append(f)
        elif f[0] == "PROBE":
            probes.append(f)
        elif f[0] == "PATHS":
            npaths = int(f[1])
        elif f[0] == "case":
            if f[3] == "panic":
                panics.append(f)
                continue
            key = f[1] + ":" + f[3]
            dist[key] = dist.get(key, 0) + 1
            cases.append(f)
    tree_lines = 0
    for line in open(out2):
        f = line.rstrip("\n").split("\t")
        if f[0] == "ORACLE":
            oracles.append(f)
        elif f[0] == "tree":
            tree_lines += 1
            dist["glob()/ignore runs"] = dist.get("glob()/ignore runs", 0) + 1
    paths = enum_paths(PALPHA, 4)
    assert npaths == len(paths)
    nok = len([f for f in cases if f[3] == "ok"])
    ctx.coverage["evaluations"] = nok * npaths + len(cases) - nok
    ctx.coverage["distinct_nontrivial"] = len({(f[2], f[6]) for f in cases if f[3] == "ok" and f[6] != "0"})
    ctx.coverage["rule"] = ("every single pattern of length <= %s over {a / * ? \\ . [}, every pair of patterns of length <= 2, "
                            "%s sampled lists of 3-5 well-formed patterns, the remaining regexp metacharacters one by one, "
                            "each x all %d paths of length <= 4 over {a / . \\n [} (one evaluation = one MatchString; a "
                            "failed compilation counts once); non-trivial = compiled pattern lists matching at least one "
                            "path, distinct by (patterns, match set); plus %d glob()/ignore runs on generated trees and %d "
                            "non-ASCII probes" % (env["VERIF_MAXSINGLE"], env["VERIF_NTRIPLES"], npaths, tree_lines, len(probes)))
    ctx.coverage["exhaustive"] = True
    ctx.coverage["correspondence"]["distribution"] = dist
    ctx.coverage["correspondence"]["non_ascii_probes"] = [
        {"patterns": [g.decode("utf-8", "replace") for g in globs_of(f[1])], "path_hex": f[2], "go": f[3], "spec": f[4]} for f in probes]
    ctx.add_samples([show(f) for f in cases[700:703] + cases[-2:]])

    groups = {}
    for f in oracles:
        groups.setdefault(f[1], [])
        if f[2:4] not in [g[2:4] for g in groups[f[1]]]:
            groups[f[1]].append(f)
    for name, fs in groups.items():
        f = fs[0]   # enumeration is by increasing length: the first failure is a smallest one
        gs = [g.decode("latin-1") for g in globs_of(f[2].split(";")[0])]
        ctx.violation("implementation violates C17 oracle %s: patterns %r path %r (%d failing inputs)"
                      % (name, gs, unhx(f[3]).decode("latin-1"), len(fs)),
                      {"oracle": name, "patterns": gs, "patterns_hex": f[2], "path": unhx(f[3]).decode("latin-1"), "path_hex": f[3],
                       "extra": f[4:], "more_failing_inputs_hex": [g[2:4] for g in fs[1:8]],
                       "how": "util.CompileGlobs(patterns).MatchString(path) vs the recursive matcher; "
                              "harness/overlay/util/zz_verif_c17_test.go, harness/overlay/root/zz_verif_c17_glob_test.go"},
                      key="empty-set-empty-path" if name == "empty-set-matches-empty-path" else None)
    for f in panics:
        ctx.violation("CompileGlobs panics", {"case": show(f)})

    shard = 450
    exprs = []
    pexpr = "(all_strs %s 4)" % cq_bytes(PALPHA)
    for i in range(0, len(cases), shard):
        items = ["(%s, %s)" % (cq_N(i + j), to_case(f)) for j, f in enumerate(cases[i:i + shard])]
        exprs.append("mismatches %s [\n%s]" % (pexpr, ";\n".join(items)))
    okc, res, logs = ctx.coq_eval(HDR, exprs)
    if not okc:
        ctx.log("coq evaluation failed", logs[:1])
        ctx.violation("model evaluation failed", {"theorem_or_correspondence": "C17 cases.v evaluation", "log": logs[:2]},
                      found_input=False)
        return
    mism = [i for r in res for i in r]
    ctx.coverage["correspondence"]["cases"] = len(cases)
    ctx.coverage["correspondence"]["mismatches"] = len(mism)
    ctx.log("pattern lists=%d match evaluations=%d mismatches=%d oracle_failures=%d" % (len(cases), nok * npaths, len(mism), len(oracles)))
    real_oracles = [f for f in oracles if f[1] != "empty-set-matches-empty-path"]
    if mism and not real_oracles and not panics:
        ex = [show(cases[i]) for i in mism[:5]]
        ctx.violation("model/implementation disagree on %d pattern lists, e.g. %s" % (len(mism), ex[0]),
                      {"theorem_or_correspondence": "correspondence Glob/Model.v <-> util/glob.go (pattern string, parse shape, match set)",
                       "disagreeing_cases": ex, "hex": [cases[i] for i in mism[:5]]}, found_input=False)
    if proof_broken and not ctx.violations:
        ctx.violation("a C17 theorem no longer checks", {"theorem_or_correspondence": getattr(ctx, "broken_proof", {})},
                      found_input=False)
