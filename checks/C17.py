"""C17 — Glob sets match exactly the union of their patterns."""
import os
from lib.vlib import *

META = {
    "property_id": "C17",
    "technique": "Coq proof over a Gallina model of util/glob.go (translation to an RE2 syntax tree + a position-aware "
                 "regexp semantics with unanchored search) + exhaustive short-pattern correspondence incl. RE2's own parser",
    "level_text": "Theorems (Coq, unbounded): for every list of patterns and every path, MatchString of the compiled "
                  "regexp = 'some pattern matches the whole path' under the documented glob semantics (recursive "
                  "matcher); CompileGlobs fails exactly on a dangling/invalid escape; Project.ignored and the selection "
                  "made by glob(include, exclude) follow. The executable regexp matcher is proved sound and complete for "
                  "a declarative semantics of the emitted RE2 fragment (anchors, (?s:), alternation, groups, star). The "
                  "model is tied to util/glob.go by comparing, for every single pattern of length <= 3 (quick) / <= 4 "
                  "(thorough) over {a / * ? \\ . [}, every pair of patterns of length <= 2 and sampled longer lists: the "
                  "pattern string byte for byte, the shape of regexp/syntax.Parse's tree, and MatchString on all 781 "
                  "paths of length <= 4 over {a / . \\n [}. The walks that apply the sets are modelled too (Glob/Walk.v: the "
                  "recursion of Project.loadPackage with its ignore test, the WalkDir callbacks of glob() and os.glob()) with "
                  "theorems for every tree: a package is loaded iff no directory on the way to it, the root (empty path) and "
                  "itself included, matches a pattern; glob() returns exactly the files at any depth (outside .dawn/build) that "
                  "match some include and no exclude. They are tied to project.go / project_builtins.go / lib/os/glob.go by "
                  "sweeps on fixed trees: a project with packages at depth 0-3 loaded under every single ignore pattern of "
                  "length <= 3/4 over {a b / * ?}, all pairs of length <= 1, the generalisations (?, *, ** at every position) "
                  "of every directory path, an escape class and sampled lists; glob()/os.glob() from two modules with every "
                  "single pattern of length <= 3/4 over {a x / * ?}, the generalisations of every file path as include and as "
                  "exclude, and sampled include/exclude lists -- each compared with the model and with the recursive matcher. "
                  "WHICH strings the sets are asked about is exercised by a second project tree whose names have two or three "
                  "characters over {a b .} (hidden directories included): every single ignore pattern of length <= 3/4 over "
                  "{a b . / * ?}, every pair of length <= 1, and the generalisations of every PSEUDO-PATH of every directory "
                  "(. ./ / // .. ./d /d //d d/ d/. d/.. ../d the absolute path, the base name, the parent, d/BUILD.dawn, the "
                  "label) that do not match the empty path; the glob sweep gets the pseudo-paths of every file as include and as "
                  "exclude. Theorem ignore_depends_only_on_directory_paths: two lists that agree on the paths of the directories "
                  "on the way to the packages load the same packages.",
    "level_note": "Trusted: Coq kernel; Go's regexp engine is modelled (semantics of the emitted fragment) and validated "
                  "by the correspondence sweep only. Bytes stand for characters: theorems are stated for ASCII patterns "
                  "and paths; non-ASCII behaviour is probed on the implementation against a character-wise matcher. "
                  "The empty pattern list compiles to the empty character class and matches nothing, the empty path "
                  "included (fix d795852; no hypothesis about the list or the path is left in the theorems).",
    "design_ref": "DESIGN.md §6 C17",
}

HDR = "From Dawn Require Import Glob.Model Glob.Run Glob.Walk Glob.WalkRun.\nOpen Scope N_scope.\n"
WALK_BASE = 10000000
PALPHA = b"a/.\n["


def unhx(s):
    return b"" if s == "-" else bytes.fromhex(s)


def globs_of(s):
    return [] if s == "nil" else [unhx(x) for x in s.split(",")]


def to_case(f):
    gs = cq_list([cq_bytes(g) for g in globs_of(f[2])], "str")
    if f[3] == "err":
        return "CGlob %s None" % gs
    return "CGlob %s (Some (%s, %s, %s))" % (gs, cq_bytes(unhx(f[4])), cq_bytes(unhx(f[5])), cq_N(int(f[6])))


def show(f):
    return {"kind": f[1], "patterns": [g.decode("latin-1") for g in globs_of(f[2])], "compile": f[3],
            "regexp": unhx(f[4]).decode("latin-1") if len(f) > 4 else None}


def wlist(s):
    """list field of the walk harness: nil = empty list, '-' = empty string"""
    return [] if s == "nil" else [unhx(x) for x in s.split(",")]


def cq_strs(l):
    return cq_list([cq_bytes(x) for x in l], "str")


def cq_tree(dirs, files):
    """Dir files subs term from the relative paths of the directories and regular files of a tree"""
    def build(prefix):
        here = [f[len(prefix):] for f in files if f.startswith(prefix) and b"/" not in f[len(prefix):]]
        subs = [d[len(prefix):] for d in dirs if d.startswith(prefix) and b"/" not in d[len(prefix):] and d != prefix[:-1]]
        return "(Dir %s %s)" % (cq_strs(here), cq_list(["(%s, %s)" % (cq_bytes(n), build(prefix + n + b"/")) for n in subs],
                                                       "(str * tree)"))
    return build(b"")


def to_wcase(f):
    if f[0] == "wload":
        return "WLoad %s %s" % (cq_strs(wlist(f[2])), cq_opt(cq_strs(wlist(f[4])) if f[3] == "ok" else None, "(list str)"))
    return "%s %s %s %s %s" % ("WGlob" if f[2] == "glob" else "WOsGlob", cq_strs(wlist(f[3])), cq_strs(wlist(f[4])),
                               cq_strs(wlist(f[5])), cq_opt(cq_strs(wlist(f[7])) if f[6] == "ok" else None, "(list str)"))


def show_w(f):
    d = lambda l: [x.decode("latin-1") for x in l]
    if f[0] == "wload":
        return {"kind": "Project.load with ignore list", "tree": f[1], "ignore": d(wlist(f[2])), "outcome": f[3], "loaded_packages": d(wlist(f[4]))}
    return {"kind": f[2], "module_dir": "/".join(d(wlist(f[3]))), "include": d(wlist(f[4])), "exclude": d(wlist(f[5])),
            "result": d(wlist(f[7]))}


def enum_paths(alpha, n):
    allp, lvl = [b""], [b""]
    for _ in range(n):
        lvl = [bytes([c]) + s for c in alpha for s in lvl]
        allp += lvl
    return allp


def run(ctx):
    ok, rep = ctx.coq_props("Glob/Props_C17.v")
    proof_broken = not ok

    out1 = os.path.join(ctx.tmp, "c17.tsv")
    env = {"VERIF_OUT": out1, "VERIF_MAXSINGLE": "3" if ctx.quick() else "4",
           "VERIF_NTRIPLES": "300" if ctx.quick() else "3000", "VERIF_SEED": str(ctx.seed)}
    rc, o = ctx.go_overlay_test("util", {"zz_verif_c17_test.go": os.path.join(HARNESS, "overlay/util/zz_verif_c17_test.go")},
                                "^TestVerifC17$", env)
    if rc != 0:
        ctx.log(o[-3000:])
        ctx.violation("util harness failed to build or run against /repo (exit %d)" % rc,
                      {"theorem_or_correspondence": "C17 correspondence harness (util)", "output": o[-3000:]}, found_input=False)
        return
    out2 = os.path.join(ctx.tmp, "c17_tree.tsv")
    out3 = os.path.join(ctx.tmp, "c17_walk.tsv")
    wenv = {"VERIF_WALK_MAXLEN": "3" if ctx.quick() else "4", "VERIF_WALK_NSAMPLED": "60" if ctx.quick() else "600"}
    rc, o = ctx.go_overlay_test("", {"zz_verif_c17_glob_test.go": os.path.join(HARNESS, "overlay/root/zz_verif_c17_glob_test.go"),
                                     "zz_verif_c17_walk_test.go": os.path.join(HARNESS, "overlay/root/zz_verif_c17_walk_test.go")},
                                "^TestVerifC17(Glob|Walk)$", dict(wenv, VERIF_OUT=out2, VERIF_OUT_WALK=out3, VERIF_SEED=str(ctx.seed),
                                                                  VERIF_NTREES="6" if ctx.quick() else "40"))
    if rc != 0 or not os.path.exists(out3):
        ctx.log(o[-3000:])
        ctx.violation("dawn glob()/ignore harness failed to build or run against /repo (exit %d)" % rc,
                      {"theorem_or_correspondence": "C17 harness (package dawn)", "output": o[-3000:]}, found_input=False)
        return

    cases, oracles, probes, panics, dist = [], [], [], [], {}
    npaths = 0
    for line in open(out1):
        f = line.rstrip("\n").split("\t")
        if f[0] == "ORACLE":
            oracles.append(f)
        elif f[0] == "PROBE":
            probes.append(f)
        elif f[0] == "PATHS":
            npaths = int(f[1])
        elif f[0] == "case":
            if f[3] == "panic":
                panics.append(f)
                continue
            key = f[1] + ":" + f[3]
            dist[key] = dist.get(key, 0) + 1
            cases.append(f)
    tree_lines = 0
    tree_oracles = []     # reported after the sweeps' failures, which name one path of a small fixed tree
    for line in open(out2):
        f = line.rstrip("\n").split("\t")
        if f[0] == "ORACLE":
            tree_oracles.append(f)
        elif f[0] == "tree":
            tree_lines += 1
            dist["glob()/ignore runs"] = dist.get("glob()/ignore runs", 0) + 1
    wtrees, wcases = {}, []
    for line in open(out3):
        f = line.rstrip("\n").split("\t")
        if f[0] == "ORACLE":
            oracles.append(f)
        elif f[0] == "wtree":
            wtrees[f[1]] = (wlist(f[2]), wlist(f[3]))
        elif f[0] == "wload":
            k = ("ignore sweep: " if f[1] == "ignore" else "ignore sweep 2 (pseudo-paths): ") + ("load fails (invalid escape)" if f[3] == "err" else
                                    "shallowest matched directory at depth " + f[5])
            dist[k] = dist.get(k, 0) + 1
            wcases.append(f)
        elif f[0] == "wglob":
            res = wlist(f[7])
            k = "%s sweep: %s" % (f[2], "no result" if not res else "deepest result at depth %d" % max(x.count(b"/") for x in res))
            dist[k] = dist.get(k, 0) + 1
            wcases.append(f)
    oracles += tree_oracles
    paths = enum_paths(PALPHA, 4)
    assert npaths == len(paths)
    nok = len([f for f in cases if f[3] == "ok"])
    ctx.coverage["evaluations"] = nok * npaths + len(cases) - nok + len(wcases)
    ctx.coverage["distinct_nontrivial"] = len({(f[2], f[6]) for f in cases if f[3] == "ok" and f[6] != "0"})
    ctx.coverage["rule"] = ("every single pattern of length <= %s over {a / * ? \\ . [}, every pair of patterns of length <= 2, "
                            "%s sampled lists of 3-5 well-formed patterns, the remaining regexp metacharacters one by one, "
                            "each x all %d paths of length <= 4 over {a / . \\n [} (one evaluation = one MatchString; a "
                            "failed compilation counts once); non-trivial = compiled pattern lists matching at least one "
                            "path, distinct by (patterns, match set); plus %d glob()/ignore runs on generated trees, %d "
                            "non-ASCII probes, and the walk sweeps: one project tree with packages at depth 0-3 loaded under %d "
                            "ignore lists (every single pattern of length <= %s over {a b / * ?}, all pairs of length <= 1, the "
                            "generalisations of every directory path, an escape class, sampled lists) and %d glob()/os.glob() "
                            "calls from two modules of one file tree (every single pattern of length <= %s over {a x / * ?}, the "
                            "generalisations of every file path and of its pseudo-paths (./f /f absolute, base name, label, f/ ...) "
                            "as include and as exclude, sampled include/exclude lists); a second project tree with names of 2-3 "
                            "characters over {a b .} loaded under %d ignore lists (every single pattern of length <= %s over "
                            "{a b . / * ?}, all pairs of length <= 1, the generalisations of every directory path and of every "
                            "pseudo-path of it that do not match the empty path, sampled mixed lists)"
                            % (env["VERIF_MAXSINGLE"], env["VERIF_NTRIPLES"], npaths, tree_lines, len(probes),
                               len([f for f in wcases if f[0] == "wload" and f[1] == "ignore"]), wenv["VERIF_WALK_MAXLEN"],
                               len([f for f in wcases if f[0] == "wglob"]), wenv["VERIF_WALK_MAXLEN"],
                               len([f for f in wcases if f[0] == "wload" and f[1] == "ignore2"]), wenv["VERIF_WALK_MAXLEN"]))
    ctx.coverage["exhaustive"] = True
    ctx.coverage["correspondence"]["distribution"] = dist
    ctx.coverage["correspondence"]["non_ascii_probes"] = [
        {"patterns": [g.decode("utf-8", "replace") for g in globs_of(f[1])], "path_hex": f[2], "go": f[3], "spec": f[4]} for f in probes]
    ctx.add_samples([show(f) for f in cases[700:703] + cases[-2:]] + [show_w(f) for f in wcases[5:6] + wcases[-1:]])

    groups = {}
    for f in oracles:
        groups.setdefault(f[1], [])
        if f[2:4] not in [g[2:4] for g in groups[f[1]]]:
            groups[f[1]].append(f)
    for name, fs in groups.items():
        f = fs[0]   # enumeration is by increasing length: the first failure is a smallest one
        gs = [g.decode("latin-1") for g in globs_of(f[2].split(";")[0])]
        ctx.violation("implementation violates C17 oracle %s: patterns %r path %r (%d failing inputs)"
                      % (name, gs, unhx(f[3]).decode("latin-1"), len(fs)),
                      {"oracle": name, "patterns": gs, "patterns_hex": f[2], "path": unhx(f[3]).decode("latin-1"), "path_hex": f[3],
                       "extra": f[4:], "more_failing_inputs_hex": [g[2:4] for g in fs[1:8]],
                       "how": "util.CompileGlobs(patterns).MatchString(path) vs the recursive matcher; "
                              "Project.load / glob() / os.glob() on the generated tree vs the same matcher applied to every "
                              "directory on the way to a package resp. every entry below the module; "
                              "harness/overlay/util/zz_verif_c17_test.go, harness/overlay/root/zz_verif_c17_glob_test.go, "
                              "harness/overlay/root/zz_verif_c17_walk_test.go"},
                      )
    for f in panics:
        ctx.violation("CompileGlobs panics", {"case": show(f)})

    shard = 450
    exprs = []
    pexpr = "(all_strs %s 4)" % cq_bytes(PALPHA)
    for i in range(0, len(cases), shard):
        items = ["(%s, %s)" % (cq_N(i + j), to_case(f)) for j, f in enumerate(cases[i:i + shard])]
        exprs.append("mismatches %s [\n%s]" % (pexpr, ";\n".join(items)))
    nshards = len(exprs)
    for tid in sorted(wtrees):
        tterm = cq_tree(*wtrees[tid])
        sel = [(k, f) for k, f in enumerate(wcases) if f[1] == tid]
        for i in range(0, len(sel), 400):
            items = ["(%s, %s)" % (cq_N(WALK_BASE + k), to_wcase(f)) for k, f in sel[i:i + 400]]
            exprs.append("walk_mismatches %s [\n%s]" % (tterm, ";\n".join(items)))
    okc, res, logs = ctx.coq_eval(HDR, exprs)
    if not okc:
        ctx.log("coq evaluation failed", logs[:1])
        ctx.violation("model evaluation failed", {"theorem_or_correspondence": "C17 cases.v evaluation", "log": logs[:2]},
                      found_input=False)
        return
    allm = [i for r in res for i in r]
    mism = [i for i in allm if i < WALK_BASE]
    wmism = [i - WALK_BASE for i in allm if i >= WALK_BASE]
    ctx.coverage["correspondence"]["cases"] = len(cases) + len(wcases)
    ctx.coverage["correspondence"]["walk_cases"] = len(wcases)
    ctx.coverage["correspondence"]["mismatches"] = len(mism) + len(wmism)
    ctx.log("pattern lists=%d match evaluations=%d walk cases=%d mismatches=%d+%d oracle_failures=%d"
            % (len(cases), nok * npaths, len(wcases), len(mism), len(wmism), len(oracles)))
    real_oracles = oracles
    if mism and not real_oracles and not panics:
        ex = [show(cases[i]) for i in mism[:5]]
        ctx.violation("model/implementation disagree on %d pattern lists, e.g. %s" % (len(mism), ex[0]),
                      {"theorem_or_correspondence": "correspondence Glob/Model.v <-> util/glob.go (pattern string, parse shape, match set)",
                       "disagreeing_cases": ex, "hex": [cases[i] for i in mism[:5]]}, found_input=False)
    if wmism and not real_oracles and not panics:
        ex = [show_w(wcases[i]) for i in wmism[:5]]
        ctx.violation("model/implementation disagree on %d directory-walk cases, e.g. %s" % (len(wmism), ex[0]),
                      {"theorem_or_correspondence": "correspondence Glob/Walk.v <-> project.go loadPackage / project_builtins.go glob / "
                                                    "lib/os/glob.go (set of loaded packages, set of selected paths)",
                       "trees": {k: {"dirs": [x.decode("latin-1") for x in v[0]], "files": [x.decode("latin-1") for x in v[1]]}
                                 for k, v in wtrees.items()},
                       "disagreeing_cases": ex, "raw": [wcases[i] for i in wmism[:5]]}, found_input=False)
    if proof_broken and not ctx.violations:
        ctx.violation("a C17 theorem no longer checks", {"theorem_or_correspondence": getattr(ctx, "broken_proof", {})},
                      found_input=False)
