"""C02 — No spurious rebuilds."""
from checks.engine_common import run_engine

META = {
    "property_id": "C02",
    "technique": "Coq proof over a Gallina model of the build engine + history correspondence with fresh-process builds",
    "level_text": "placeholder",
    "level_note": "placeholder",
    "design_ref": "DESIGN.md §6 C02",
}


def run(ctx):
    run_engine(ctx, "C02", "Build/Props_C02.v", ["C02 "], 2,
               'Oracle: a rebuild of the unchanged tree, and every build after timestamp-only, same-content, cosmetic and other-package edits, executes exactly what the model predicts (nothing for unchanged closures).')
