"""C02 — No spurious rebuilds."""
from checks.engine_common import run_engine

META = {
    "property_id": "C02",
    "technique": "Coq proof over a Gallina model of the build engine + history correspondence with fresh-process builds",
    "level_text": 'Theorems: noop_rebuild (after a fully successful build a rebuild in a fresh process executes nothing, everything is reported up to date, state unchanged up to sim), irrelevant_edit (trees that agree on what the closure mentions build it identically), builds_depend_only_on_live_state, load_refresh_invisible. Correspondence + oracle: rebuilds of unchanged trees, same-content rewrites, cosmetic edits, other-package edits, edits inside source directories execute exactly what the model predicts; direct oracle: after a no-op rebuild, comment/whitespace edits of the function files of the closure (recursive and mutually recursive helpers below them move) plus same-content rewrites and timestamp changes of its sources execute nothing; load-order family: many-package projects sharing helper modules directly and through other helper modules, the unchanged tree loaded under perturbed load schedules (barrier at module.exec, seeded sleeps at the registry/module hook points, Reload under project-lock contention, GOMAXPROCS 1-3) and built -- nothing may execute.',
    "level_note": "Trusted: as C01. Functions sharing a module file shift each other's bytecode indices when one is added or removed (outside the property's guarantees); the harness gives every function its own module file so that the semantic environment key is exact.",
    "design_ref": "DESIGN.md §6 C02",
}


def run(ctx):
    run_engine(ctx, "C02", "Build/Props_C02.v", ["C02 "], 2,
               'Oracle: a rebuild of the unchanged tree, and every build after timestamp-only, same-content, cosmetic and other-package edits, executes exactly what the model predicts (nothing for unchanged closures).')
    load_order_family(ctx)


def load_order_family(ctx):
    """"... for every order in which packages and modules happen to load": projects whose packages share helper modules
    directly and through other helper modules are built once and then loaded again and again under perturbed load
    schedules (harness/overlay/root/zz_verif_c02_loadorder_test.go); no build of the unchanged tree may execute anything."""
    import json
    import os
    from lib.vlib import HARNESS
    out = os.path.join(ctx.tmp, "c02-loadorder.jsonl")
    env = {"VERIF_OUT_LO": out, "VERIF_SEED": str(ctx.seed), "VERIF_LO_PROJECTS": "3" if ctx.quick() else "12",
           "VERIF_LO_ITERS": "15" if ctx.quick() else "60"}
    rc, o = ctx.go_overlay_test("", {"zz_verif_c02_loadorder_test.go": os.path.join(HARNESS, "overlay/root/zz_verif_c02_loadorder_test.go")},
                                "^TestVerifC02LoadOrder$", env, timeout=1200)
    recs = [json.loads(l) for l in open(out)] if os.path.exists(out) else []
    how = "VERIF_SEED=%d go test -tags verif -overlay ... -run ^TestVerifC02LoadOrder$ . (harness/overlay/root/zz_verif_c02_loadorder_test.go)" % ctx.seed
    if rc != 0 or not any(r["t"] == "END" for r in recs):
        ctx.violation("the load-order harness failed to build or run against /repo (exit %d)" % rc,
                      {"theorem_or_correspondence": "C02 load-order harness", "output": o[-3000:]}, found_input=False)
        return
    projs = {r["project"]: r for r in recs if r["t"] == "PROJ"}
    iters = [r for r in recs if r["t"] == "ITER"]
    dist = {}
    for r in iters:
        dist[r["mode"]] = dist.get(r["mode"], 0) + 1
    ctx.coverage["correspondence"]["load_order_family"] = {
        "projects": len(projs), "packages": sorted(p["packages"] for p in projs.values()),
        "loads_then_builds_of_the_unchanged_tree": dist,
        "spurious_executions": sum(1 for r in iters if r.get("executed")), "errors": sum(1 for r in iters if "error" in r)}
    ctx.coverage["evaluations"] += len(iters)
    bad = [r for r in iters if r.get("executed") or "error" in r]
    if bad:
        r = bad[0]
        if "error" in r:
            what = "a load or build of the unchanged tree failed: " + r["error"]
        else:
            what = "%d target(s) executed although nothing changed, e.g. %s (%s)" % (
                len(r["executed"]), r["executed"][0]["target"], r["executed"][0]["reason"])
            if r.get("modules_executed_more_than_once"):
                what += "; in that load %s ran more than once" % ", ".join(r["modules_executed_more_than_once"][:3])
        ctx.violation("implementation violates C02 oracle load-order:rebuild-of-an-unchanged-tree-executes-nothing (load %d of project %d, "
                      "schedule perturbation '%s'): %s" % (r["iter"], r["project"], r["mode"], what),
                      {"oracle": "load-order", "project_files": projs[r["project"]]["files"], "iteration": r,
                       "failing_iterations": len(bad), "of": len(iters), "how": how})
