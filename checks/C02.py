"""C02 — No spurious rebuilds."""
from checks.engine_common import run_engine

META = {
    "property_id": "C02",
    "technique": "Coq proof over a Gallina model of the build engine + history correspondence with fresh-process builds",
    "level_text": 'Theorems: noop_rebuild (after a fully successful build a rebuild in a fresh process executes nothing, everything is reported up to date, state unchanged up to sim), irrelevant_edit (trees that agree on what the closure mentions build it identically), builds_depend_only_on_live_state, load_refresh_invisible. Correspondence + oracle: rebuilds of unchanged trees, same-content rewrites, cosmetic edits, other-package edits, edits inside source directories execute exactly what the model predicts; direct oracle: after a no-op rebuild, comment/whitespace edits of the function files of the closure (recursive and mutually recursive helpers below them move) plus same-content rewrites and timestamp changes of its sources execute nothing.',
    "level_note": "Trusted: as C01. Functions sharing a module file shift each other's bytecode indices when one is added or removed (outside the property's guarantees); the harness gives every function its own module file so that the semantic environment key is exact.",
    "design_ref": "DESIGN.md §6 C02",
}


def run(ctx):
    run_engine(ctx, "C02", "Build/Props_C02.v", ["C02 "], 2,
               'Oracle: a rebuild of the unchanged tree, and every build after timestamp-only, same-content, cosmetic and other-package edits, executes exactly what the model predicts (nothing for unchanged closures).')
