"""C06 — Module loading is once-only, terminating and cycle-safe."""
import json
import os
import sys
from lib.vlib import *

sys.setrecursionlimit(20000)

META = {
    "property_id": "C06",
    "technique": "Coq proof over an interleaving model of project.loadModule / module.wait / module.done "
                 "(one step per critical section) + replay of verifhook logs of real Load runs by the model",
    "level_text": "Theorems (Coq, all load graphs, all numbers of packages, all schedules, every set of module files that "
                  "fail by themselves): every module file is executed at most once; no reachable non-final state is stuck "
                  "(deadlock freedom: every cycle of loading edges contains a walker that finds itself) and every run is "
                  "finite with an explicit step bound (a measure that every step decreases; the seen set bounds each walk); "
                  "with an acyclic load graph whose files do not fail no error is ever produced, every final state has "
                  "every registered module loaded without error and the registered set is exactly the set reachable from "
                  "the packages (schedule independent); with a cycle reachable from a package every final state carries a "
                  "(cyclic-dependency) error, so Load fails; with a reachable file that fails by itself (missing, "
                  "unreadable, syntax error, unknown project, run-time failure) every schedule still ends and ends with "
                  "the failure published.  From registry keys to files: the label a load statement is registered under "
                  "(module.go loadModule, modelled in Loader/KeyModel.v on top of the C12 label model) is a function of the "
                  "file it stands for (fetchModule) -- two load statements of any two modules, in any spelling (explicit "
                  "kind, package relative to the loader's, redundant slashes, omitted or empty name, requirement alias or "
                  "project path), that stand for the same file have the same key, and the invariant that makes this true is "
                  "kept by every load -- so once per key is once per file. "
                  "The model is tied to module.go/project.go by running Load on generated projects "
                  "(chains, diamonds, shared helpers, 2/3/4-cycles, self-loads, random graphs; the same with failing "
                  "files shared by several loaders; the same shapes at sizes up to a few hundred modules / packages) "
                  "under seeded jitter and a rendezvous schedule that has every package mid-execution at once, and "
                  "having the model replay every hook log event by event, plus direct oracles on the implementation.  "
                  "Spelling family: the files are spread over package directories and a required project in the download "
                  "cache, and every load statement names its file by a different text (half of the random graphs; a shared "
                  "file under every text against the plain one and all at once; chains, diamonds and cycles with mixed "
                  "texts; package files loaded by other files); the execution of a FILE is observed by its own first "
                  "statement, not by the label the loader reports.  Registry keys: the real loadModule is called for "
                  "thousands of (loading module, label text) pairs (every spelling, boundary texts, random texts); key and "
                  "file are compared with the model and the oracle 'one file, one key; one key, one file' is evaluated.",
    "level_note": "Trusted: Coq kernel; atomicity of the Go critical sections (each takes exactly one mutex and does not "
                  "block inside, read off the source); Starlark's ExecFile modelled as 'run the load statements in order, "
                  "fail at the first failing load or at the file's own fault'; the log reordering of out-of-lock hop "
                  "events (python, within the window in which the read can have happened). Sizes are sampled (quick: up "
                  "to 130 deep / 65 packages side by side; thorough: 400 / 257), not proved for the Go code. Modules of "
                  "remote projects are covered as far as they are in the download cache (network fetches and their errors "
                  "are out of scope); a project that is not in the build list is covered.  File identity is (project, "
                  "package components, file name): that filepath.Join maps different such lists to different paths (names "
                  "'.' and '..' excepted, which name directories), and that two project paths of the build list do not share "
                  "a cache directory, is read off the source.  The conversion of string literals to byte lists in the key "
                  "cases (s2b) is trusted.",
    "design_ref": "DESIGN.md §6 C06",
}

# sizes of the scale family (chains / cycles / packages side by side / load statements per file): around powers of two
SIZES_QUICK = [12, 33, 65, 130]
SIZES_THOROUGH = [12, 17, 33, 65, 130, 257, 400]   # packages side by side: up to 257

HDR = "From Coq Require Import List NArith.\nImport ListNotations.\nFrom Dawn Require Import Loader.Model Loader.Run.\n"


# ---------------------------------------------------------------------------------------------
# scenario helpers

UNKNOWN_PROJECT = "example.com/lib"


def mod_label(name, faults=None, r=None):
    """the registry label of the FILE a load entry names: a module name (file <dirs[name]>/<name>.dawn of project
    proj[name]) or "@<dir>" (package file <dir>/BUILD.dawn); by construction of the scenario, not from the label text"""
    if name.startswith("@"):
        return pkg_label(name[1:])
    if faults and faults.get(name, {}).get("kind") == "unknownproj":
        return "module:%s//:%s.dawn" % (UNKNOWN_PROJECT, name)
    r = r or {}
    return "module:%s//%s:%s.dawn" % ((r.get("proj") or {}).get(name, ""), (r.get("dirs") or {}).get(name, ""), name)


def pkg_label(d):
    return "module://%s:BUILD.dawn" % d


def executed_loads(loads, fault):
    """the load statements of a file that run before the file's own fault (all of them without one)"""
    loads = loads or []
    if not fault:
        return loads
    if fault["kind"] in ("fail", "badsym"):
        return loads[:fault["at"]]
    return []          # missing, dir, syntax, unknownproj: nothing of the file runs


def scenario_graph(r):
    """label-string graph of a run: {label: [labels]} (for a file that fails by itself: the load statements that run
    before it does), the list of roots (package files, harness order) and the set of labels that fail by themselves."""
    g = {}
    bad = set()
    faults = r.get("faults") or {}
    for n, ls in r["mods"].items():
        l = mod_label(n, faults, r)
        g[l] = [mod_label(x, faults, r) for x in executed_loads(ls, faults.get(n))]
        if n in faults:
            bad.add(l)
    roots = []
    for p in r["pkgs"]:
        l = pkg_label(p["dir"])
        g[l] = [mod_label(x, faults, r) for x in executed_loads(p["loads"], p.get("fault"))]
        if p.get("fault"):
            bad.add(l)
        roots.append(l)
    return g, roots, bad


def reachable(g, roots):
    seen = set()
    todo = list(roots)
    while todo:
        x = todo.pop()
        if x in seen:
            continue
        seen.add(x)
        todo += g.get(x, [])
    return seen


def has_cycle(g, nodes):
    color = {}

    def visit(x):
        color[x] = 1
        for y in g.get(x, []):
            if y not in nodes:
                continue
            c = color.get(y, 0)
            if c == 1 or (c == 0 and visit(y)):
                return True
        color[x] = 2
        return False
    return any(color.get(x, 0) == 0 and visit(x) for x in sorted(nodes))


def spelled(r):
    return bool(r.get("raw")) or any(p.get("raw") for p in r["pkgs"])


def faults_of(r):
    return r.get("faults") or {}


def expected_targets(r):
    ts, fs = [], []
    for i, p in enumerate(r["pkgs"]):
        ts.append("//%s:t%d" % (p["dir"], i))
        if p["flag"]:
            fs.append(("%s.fl%d" % (p["dir"].replace("/", "."), i)) if p["dir"] else "fl%d" % i)
    return sorted(ts), sorted(fs)


def errclass(r):
    if r["hang"]:
        return "hang"
    if r.get("panic"):
        return "panic"
    if not r["err"]:
        return "nil"
    return "cyclic" if "cyclic dependency" in r["err"] else "other"


# ---------------------------------------------------------------------------------------------
# log -> model events

def linearise(log):
    """The in-lock hook events (registry.*, edge.*, module.done, module.woken) are logged inside their critical
    section, so their log order is a lock order.  chain.hop / module.wait are logged AFTER the getLoading they
    report (outside the lock): the read happened anywhere between the goroutine's previous event and the log
    entry.  Move each such entry to the latest point of that window at which the value it reports was the value
    of the field.  Entries never cross another entry of the same goroutine."""
    changes = {}          # label -> [(index, value)]
    prevkey = {}          # goroutine -> key of its previous entry
    cur = {}              # goroutine -> module whose loading field the walk reads next
    keyed = []
    seq = 0
    moved = 0

    def value_before(lbl, q):   # value of lbl.loading after events with index < q
        v = None
        for (i, x) in changes.get(lbl, []):
            if i < q:
                v = x
            else:
                break
        return v

    for i, e in enumerate(log):
        g, pt = e[0], e[1]
        key = (i, 0, 0)
        if pt == "edge.set":
            changes.setdefault(e[2], []).append((i, e[3]))
        elif pt == "edge.clear":
            changes.setdefault(e[2], []).append((i, None))
        elif pt == "registry.hit" and e[2] != "":
            cur[g] = e[3]
        elif pt in ("chain.hop", "module.wait") and e[2] != "" and g in cur:
            want = e[4] if pt == "chain.hop" else None
            lb = prevkey.get(g, (-1, 0, 0))[0]
            for q in range(i, lb, -1):
                if value_before(cur[g], q) == want:
                    if q != i:
                        seq += 1
                        key = (q - 1, 1, seq)
                        moved += 1
                    break
            if pt == "chain.hop":
                cur[g] = e[4]
            else:
                cur.pop(g, None)
        if key <= prevkey.get(g, (-1, 0, 0)):
            seq += 1
            key = (prevkey[g][0], 1, seq)
        prevkey[g] = key
        keyed.append((key, e))
    keyed.sort(key=lambda ke: ke[0])
    return [e for _, e in keyed], moved


def render_case(r):
    g, roots, badset = scenario_graph(r)
    ids = {}
    for l in sorted(g):
        ids[l] = len(ids)

    def L(s):
        if s not in ids:
            ids[s] = len(ids)
        return "%d" % ids[s]

    def OL(s):
        return "None" if s == "" else "(Some %s)" % L(s)

    def B(s):
        return "true" if s == "true" else "false"

    log, moved = linearise(r["log"])
    tids = {}
    items = []
    for e in log:
        gid, pt = e[0], e[1]
        if gid not in tids:
            if pt in ("registry.miss", "registry.hit") and e[2] == "" and e[3] in roots:
                tids[gid] = roots.index(e[3])
            else:
                tids[gid] = 900 + len(tids)      # not a package goroutine: the model will reject it
        t = tids[gid]
        if pt == "registry.hit":
            ev = "LHit %s %s" % (OL(e[2]), L(e[3]))
        elif pt == "registry.miss":
            ev = "LMiss %s %s" % (OL(e[2]), L(e[3]))
        elif pt == "edge.set":
            ev = "LEdgeSet %s %s" % (L(e[2]), L(e[3]))
        elif pt == "edge.clear":
            ev = "LEdgeClear %s" % L(e[2])
        elif pt == "chain.hop":
            ev = "LHop %s %s %s" % (L(e[2]), L(e[3]), L(e[4]))
        elif pt == "chain.cycle":
            ev = "LCycle %s %s" % (L(e[2]), L(e[3]))
        elif pt == "module.wait":
            ev = "LWait %s %s" % (OL(e[2]), L(e[3]))
        elif pt == "module.woken":
            ev = "LWoken %s %s %s" % (OL(e[2]), L(e[3]), B(e[4]))
        elif pt == "module.done":
            ev = "LDone %s %s" % (L(e[2]), B(e[3]))
        elif pt == "module.exec":
            ev = "LExec %s" % L(e[2])
        else:
            continue
        items.append("(%d, %s)" % (t, ev))
    graph = cq_list(["(%d, %s)" % (ids[l], cq_list(["%d" % ids[x] for x in g[l]], "label")) for l in sorted(g)])
    execs = cq_list([L(l) for l in sorted(r["loading"])], "label")
    return ("(mkCase %s %s %s %s %s %s)" % (graph, cq_list(["%d" % ids[x] for x in roots], "label"),
                                           cq_list(["%d" % ids[x] for x in sorted(badset)], "label"),
                                           cq_list(items, "(nat * lev)"), cq_bool(r["err"] == ""), execs)), moved


def brief(r):
    return {"class": r["class"], "mods": r["mods"], "pkgs": r["pkgs"],
            "dirs (package directory of each module file; default: the root)": r.get("dirs") or {},
            "proj (required project a module file lives in; default: the project under test)": r.get("proj") or {},
            "raw (label text of each load statement of a module; a package's are in pkgs[].raw; default //:<name>.dawn)":
                r.get("raw") or {},
            "reqs (requirements of the project under test, all cached at v1.0.0)": r.get("reqs") or {},
            "files_executed (file -> times its first statement ran)": {k: v for k, v in (r.get("ran") or {}).items() if v > 1}
                or "each at most once",
            "faults (files that fail by themselves, see c06Fault in the harness)": r.get("faults") or {},
            "schedule": {"jitter_seed": r["jseed"], "rendezvous": r.get("rendezvous", False),
                         "rendezvous_modules": r.get("rvmods") or [], "rendezvous_timeouts": r.get("rv_timeouts", 0)},
            "err": r["err"], "hang": r["hang"],
            "module_loading_events": r["loading"] if len(r["loading"]) <= 40 else "%d labels" % len(r["loading"])}


# strings of the key cases are written as Coq string literals (much cheaper to read than lists of numerals)
KEY_HDR = ("From Coq Require Import String Ascii.\nFrom Dawn Require Import Base.Bytes Label.Model Loader.KeyModel.\n"
           "Definition s2b (s : string) : list N := List.map N_of_ascii (list_ascii_of_string s).\n")


def check_keys(ctx, path):
    """Registry keys (harness zz_verif_c06_key_test.go): direct oracles on the implementation -- a text written for a
    file registers that file under the module label of that file; one file, one key; one key, one file -- and the
    comparison of every (loading module, label text) pair with Loader/KeyModel.v.  Returns the number of oracle
    failures."""
    rows = [json.loads(l) for l in open(path) if l.strip()]
    fails = []
    misnamed = []

    def inp(r):
        return {"loading module": "module:%s%s:%s" % (r["loader_project"], r["loader_package"], r["loader_name"]),
                "requirements of its project": r["loader_requirements"], "load statement": "load(%s, ...)" % json.dumps(r["raw"]),
                "registered under": r.get("key", r["outcome"]),
                "file executed": ({"project": r.get("file_project", ""), "path": r["file_rel"]} if r["has_file"] else None)}

    by_file, by_key = {}, {}
    for r in rows:
        if r["outcome"] == "panic":
            fails.append(("loadModule panicked: %s" % r.get("detail", ""), [inp(r)]))
            continue
        if r.get("want_key"):
            # the generator of the texts and dawn must agree on the file a text names (the key it gets is dawn's business)
            got = (r["outcome"], r["has_file"], r.get("file_project", ""), r.get("file_rel"))
            want = ("key", True, r.get("want_project", ""), r["want_rel"])
            if got != want:
                x = inp(r)
                x["the text was written for"] = {"project": want[2], "path": want[3]}
                misnamed.append(x)
        # (a key whose name is "." or ".." stands for a directory, which filepath.Join folds into the path: no module file)
        if r["outcome"] == "key" and r["has_file"] and r["key"].rsplit(":", 1)[-1] not in (".", ".."):
            by_file.setdefault((r.get("file_project", ""), r["file_rel"]), {}).setdefault(r["key"], r)
            by_key.setdefault(r["key"], {}).setdefault((r.get("file_project", ""), r["file_rel"]), r)
    for f, ks in sorted(by_file.items()):
        if len(ks) > 1:
            fails.append(("one module file is registered under %d registry keys (%s), so it can be executed once per key"
                          % (len(ks), ", ".join(sorted(ks))), [inp(x) for _, x in sorted(ks.items())][:4]))
    for k, fs in sorted(by_key.items()):
        if len(fs) > 1:
            fails.append(("one registry key (%s) stands for %d different files" % (k, len(fs)),
                          [inp(x) for _, x in sorted(fs.items())][:4]))
    if misnamed:
        ctx.violation("%d label texts of the spelling family do not reach the file they were written for: the ground truth of "
                      "the one-file-one-key oracle is in doubt" % len(misnamed),
                      {"theorem_or_correspondence": "C06 key harness, texts of c06Spellings", "cases": misnamed[:5]}, found_input=False)
    for what, inputs in sorted(fails, key=lambda x: (len(x[1]), len(x[0])))[:3]:
        ctx.violation("implementation violates C06: %s" % what,
                      {"inputs": inputs,
                       "how": "harness/overlay/root/zz_verif_c06_key_test.go: on a loaded project (requirements lib, lib2 -> "
                              "example.com/lib, other -> example.com/other, all in the download cache) call "
                              "(&module{label: <loading module>, requirements: ...}).loadModule(proj, <text>) and read "
                              "module.dependencies[0] (the key) and proj.modules[key].path (the file)"})

    # model
    def S(x):
        return '(s2b "%s")' % x.replace('"', '""') if x else "(@nil N)"

    items = []
    loaders = {}
    defs = []
    for r in rows:
        lk = (r["loader_project"], r["loader_package"], r["loader_name"], json.dumps(r["loader_requirements"], sort_keys=True))
        if lk not in loaders:
            loaders[lk] = n = len(loaders)
            reqs = cq_list(["(%s, %s)" % (S(a), S(p)) for a, p in sorted(r["loader_requirements"].items())], "(str * str)")
            defs.append("Definition rq%d : list (str * str) := %s.\nDefinition ld%d : label := (mkLabel module_kind %s %s %s).\n"
                        % (n, reqs, n, S(r["loader_project"]), S(r["loader_package"]), S(r["loader_name"])))
        n = loaders[lk]
        if r["outcome"] == "err":
            obs = "OErr"
        elif r["outcome"] == "panic":
            obs = "OPanic"
        else:
            fl = "(Some (%s, %s))" % (S(r.get("file_project", "")), S(r["file_rel"])) if r["has_file"] else "(@None (str * str))"
            obs = "(OKey %s %s)" % (S(r["key"]), fl)
        items.append("(%s, mkK rq%d ld%d %s %s)" % (cq_N(r["id"]), n, n, S(r["raw"]), obs))
    nsh = 8
    exprs = ["key_mismatches [\n" + ";\n".join(items[i::nsh]) + "]" for i in range(nsh)]
    okc, res, logs = ctx.coq_eval(KEY_HDR + "".join(defs), exprs)
    dist = {}
    for r in rows:
        k = "%s:%s" % (r["family"], r["outcome"] if r["outcome"] != "key" else ("key+file" if r["has_file"] else "key, no file"))
        dist[k] = dist.get(k, 0) + 1
    ctx.coverage["correspondence"]["registry_key_cases"] = len(rows)
    ctx.coverage["correspondence"]["registry_key_distribution"] = dist
    ctx.coverage["correspondence"]["registry_key_distinct_files"] = len(by_file)
    if not okc:
        ctx.violation("model evaluation failed (registry keys)", {"theorem_or_correspondence": "Loader/KeyModel.v key_mismatches",
                                                                   "log": logs[:2]}, found_input=False)
        return len(fails)
    badids = sorted(i for rr in res for i in rr)
    ctx.coverage["correspondence"]["registry_key_mismatches"] = len(badids)
    if badids and not fails:
        byid = {r["id"]: r for r in rows}
        ctx.violation("the registry key or file of %d of %d load statements differs from Loader/KeyModel.v (module_key / "
                      "module_file)" % (len(badids), len(rows)),
                      {"theorem_or_correspondence": "Loader/KeyModel.v check_kcase", "cases": [inp(byid[i]) for i in badids[:6]]},
                      found_input=False)
    ctx.log("registry keys: %d cases, %d files, %d oracle failures, %d model mismatches" % (len(rows), len(by_file), len(fails), len(badids)))
    return len(fails)


def run(ctx):
    ok, rep = ctx.coq_props("Loader/Props_C06.v")
    proof_broken = not ok

    out = os.path.join(ctx.tmp, "c06.jsonl")
    nrand = 200 if ctx.quick() else 1500
    reps = 6 if ctx.quick() else 8
    sizes = SIZES_QUICK if ctx.quick() else SIZES_THOROUGH
    keyout = os.path.join(ctx.tmp, "c06key.jsonl")
    env = {"VERIF_OUT_KEY": keyout, "VERIF_NKEY": "600" if ctx.quick() else "12000", "VERIF_OUT": out, "VERIF_SEED": str(ctx.seed), "VERIF_NRAND": str(nrand), "VERIF_REPS": str(reps),
           "VERIF_WATCHDOG_MS": "8000", "VERIF_SIZES": ",".join(map(str, sizes)), "VERIF_WIDE_MAX": "70" if ctx.quick() else "260"}
    rc, o = ctx.go_overlay_test("", {f: os.path.join(HARNESS, "overlay/root", f)
                                     for f in ("zz_verif_c06_load_test.go", "zz_verif_c06_spell_test.go",
                                               "zz_verif_c06_key_test.go")},
                                "^TestVerifC06(Key)?$", env)
    if rc != 0:
        ctx.log(o[-3000:])
        ctx.violation("C06 harness failed to build or run against /repo (exit %d)" % rc,
                      {"theorem_or_correspondence": "C06 correspondence harness", "output": o[-3000:]}, found_input=False)
        return
    runs = [json.loads(l) for l in open(out) if l.strip()]
    ctx.log("harness done: %d runs" % len(runs))
    key_fail = check_keys(ctx, keyout)

    # ---- direct oracles on the implementation
    dist = {}
    oracle_fail = key_fail
    by_scenario = {}
    failures = []
    for r in runs:
        g, roots, badset = scenario_graph(r)
        reach = reachable(g, roots)
        cyc = has_cycle(g, reach)
        faulty = bool(badset & reach)
        ec = errclass(r)
        k = "%s:%s" % (r["class"], ec)
        dist[k] = dist.get(k, 0) + 1
        bad = []
        if r["hang"]:
            bad.append("Load did not return within the watchdog period (deadlock or livelock)")
        if r.get("panic"):
            bad.append("Load panicked: %s" % r["panic"])
        dup = {l: n for l, n in r["loading"].items() if n > 1}
        nexec = {}
        for e in r["log"]:
            if e[1] == "module.exec":
                nexec[e[2]] = nexec.get(e[2], 0) + 1
        dup.update({l: n for l, n in nexec.items() if n > 1})
        # the file itself reports its execution (first statement), whatever label the loader knows it by
        ran = r.get("ran") or {}
        dup.update({"file of %s" % mod_label(f, faults_of(r), r): n for f, n in ran.items() if n > 1})
        if dup:
            bad.append("module file executed more than once: %s" % dup)
        if not r["hang"] and not r.get("panic"):
            if not cyc and not faulty:
                et, ef = expected_targets(r)
                if ec != "nil":
                    bad.append("acyclic load graph failed to load: %s" % r["err"][:200])
                elif sorted(r["targets"]) != et or sorted(r["flags"]) != ef:
                    bad.append("acyclic load graph loaded with targets %s flags %s, expected %s %s"
                               % (r["targets"], r["flags"], et, ef))
                elif not spelled(r) and set(r["loading"]) != reach:
                    # (plain label texts only: which label a ModuleLoading event carries is not part of the property;
                    #  the scenarios of the spelling family are judged by the files that ran, next)
                    bad.append("executed set %s differs from the reachable set %s" % (sorted(r["loading"]), sorted(reach)))
                elif {mod_label(f, faults_of(r), r) for f in ran} != reach:
                    bad.append("the files that ran %s are not the files reachable from the packages %s"
                               % (sorted(ran), sorted(reach)))
            elif cyc and not faulty and ec != "cyclic":
                bad.append("a load cycle is reachable from a package but Load returned %s"
                           % ("no error" if ec == "nil" else r["err"][:200]))
            elif cyc and ec == "nil":
                bad.append("a load cycle is reachable from a package but Load returned no error")
            # (a reachable file that fails by itself, no cycle: the property only asks that Load ends and runs
            #  nothing twice; that Load then reports an error is the model's theorem and is compared in the replay)
        # bounded walk: between a hit's edge.set and the end of the walk at most |labels|+1 hops
        hops = {}
        for e in r["log"]:
            if e[1] == "registry.hit":
                hops[e[0]] = 0
            elif e[1] == "chain.hop":
                hops[e[0]] = hops.get(e[0], 0) + 1
                if hops[e[0]] == len(g) + 2:
                    bad.append("a chain walk made more than %d hops (unbounded walk)" % (len(g) + 1))
        key = (r["class"], json.dumps(r["mods"], sort_keys=True), json.dumps(r["pkgs"], sort_keys=True),
               json.dumps(r.get("faults") or {}, sort_keys=True),
               json.dumps([r.get("dirs"), r.get("proj"), r.get("raw")], sort_keys=True))
        obs = (ec, tuple(sorted(r["targets"])), tuple(sorted(r["flags"])))
        if not bad and key in by_scenario and by_scenario[key] != obs and not cyc:
            bad.append("result depends on the schedule: %s vs %s" % (by_scenario[key], obs))
        by_scenario.setdefault(key, obs)
        if bad:
            oracle_fail += 1
            rp = brief(r)
            rp["oracle"] = bad
            rp["how"] = ("write the project (harness/overlay/root/zz_verif_c06_load_test.go: c06Write; mods = the load statements "
                         "of <dirs[name]>/<name>.dawn, by the file they name: a module name or @<dir> = <dir>/BUILD.dawn; "
                         "pkgs = those of <dir>/BUILD.dawn; raw = the label text each statement is written with; proj/reqs = "
                         "files of required projects, placed in $HOME/.dawn/modules/cache; faults as in c06Fault; every file "
                         "starts with print(\"x:<file>\")) and call dawn.Load; "
                         "rendezvous = hold every package file at the start of its execution until all have started")
            rp["hook_log_tail"] = r["log"][-40:]
            failures.append((len(r["mods"]) + len(r["pkgs"]) + sum(len(p["loads"] or []) for p in r["pkgs"]),
                             "implementation violates C06: %s" % bad[0], rp))
    # the smallest failing projects first (only the first ten are written out)
    for _, what, rp in sorted(failures, key=lambda x: x[0]):
        ctx.violation(what, rp)

    # ---- the model replays every hook log
    cases = []
    moved_total = 0
    for r in runs:
        if r["hang"] or r.get("panic"):
            continue      # already reported; an incomplete log cannot end in a final model state
        c, mv = render_case(r)
        moved_total += mv
        cases.append((r, c))
    # shards of about equal replay cost (the model's state is a stack of function updates, so the cost of a log grows
    # with the square of its length: the few large graphs must not end up in one shard)
    nsh = max(1, min(14, len(cases) // 20))
    weight = [len(r["log"]) * (1 + len(r["log"]) / 200.0) for r, _ in cases]
    bins = [[0.0, []] for _ in range(nsh)]
    for i in sorted(range(len(cases)), key=lambda i: -weight[i]):
        b = min(bins, key=lambda b: b[0])
        b[0] += weight[i]
        b[1].append(i)
    exprs = []
    for _, idx in bins:
        items = ["(%s, %s)" % (cq_N(i), cases[i][1]) for i in sorted(idx)]
        exprs.append("verdicts [\n" + ";\n".join(items) + "]")
    ctx.log("oracles done, %d shards to replay" % len(exprs))
    okc, res, logs = ctx.coq_eval(HDR, exprs)
    nevents = sum(len(r["log"]) for r, _ in cases)
    ctx.coverage["evaluations"] = len(runs)
    ctx.coverage["distinct_nontrivial"] = len({(json.dumps(r["mods"], sort_keys=True), json.dumps(r["pkgs"], sort_keys=True),
                                                tuple(tuple(e[1:]) for e in r["log"])) for r in runs
                                               if any(e[1] in ("registry.hit",) and e[2] != "" for e in r["log"])})
    ctx.coverage["rule"] = ("%d load graphs (enumerated classes: chains 1..5, diamonds, shared helpers with nested loads, a "
                            "module loaded twice, self-loads, 2/3/4-cycles entered from 1..k packages with tails and acyclic "
                            "parts, unreached cycle, two cycles sharing a node; plus %d seeded random graphs, half DAGs; "
                            "fault family: a file that fails by itself (missing, a directory, syntax error, unknown project, "
                            "fail() before/between/after its loads, load of an undefined name) shared by 2..4 packages "
                            "directly, through other modules, under a chain, under a diamond, beside and inside a cycle, two "
                            "at once, and on a package file, plus %d random graphs with 1-2 random faults; size family: "
                            "chains, cycles, packages side by side, load statements per file, combs and w x d private chains "
                            "at sizes %s; spelling family: half of the random graphs and %d enumerated scenarios with the files in "
                            "several package directories and a required project, every load statement under a different label "
                            "text, package files loaded by other files) x %d runs each (4 for the fault family, 3 for the size family, packages side by side up to 70 in the quick tier: first without jitter, the second with a "
                            "rendezvous that holds every package file (and every private chain at its deepest module) "
                            "mid-execution until all have started, then seeded Gosched/sleep jitter at hook points, "
                            "GOMAXPROCS=%s); non-trivial = at least one registry hit by a loading module (wait path "
                            "taken); distinct by graph and full hook log"
                            % (len(by_scenario), nrand, nrand // 8, sizes,
                               len({k for k in by_scenario if k[0].startswith("spell")}), reps, runs[0]["procs"] if runs else "?"))
    ctx.coverage["correspondence"]["runs_with_spelled_labels"] = sum(1 for r in runs if spelled(r))
    ctx.coverage["correspondence"]["distinct_label_texts"] = len({t for r in runs for ts in
                                                                 list((r.get("raw") or {}).values()) + [p.get("raw") or [] for p in r["pkgs"]]
                                                                 for t in ts})
    ctx.coverage["correspondence"]["rendezvous_runs"] = sum(1 for r in runs if r.get("rendezvous"))
    ctx.coverage["correspondence"]["rendezvous_timeouts"] = sum(r.get("rv_timeouts", 0) for r in runs)
    ctx.coverage["correspondence"]["runs_with_a_failing_file"] = sum(1 for r in runs if r.get("faults") or
                                                                      any(p.get("fault") for p in r["pkgs"]))
    ctx.coverage["correspondence"]["largest_graph"] = max([len(r["mods"]) + len(r["pkgs"]) for r in runs] or [0])
    ctx.coverage["exhaustive"] = False
    ctx.coverage["correspondence"]["distribution"] = dist
    ctx.coverage["correspondence"]["hook_events_replayed"] = nevents
    ctx.coverage["correspondence"]["hop_entries_moved_into_window"] = moved_total
    small = [(r, c) for r, c in cases if len(r["mods"]) <= 8]
    ctx.add_samples([{"class": r["class"], "mods": r["mods"], "pkgs": [p["loads"] for p in r["pkgs"]],
                      "faults": r.get("faults") or {}, "err": r["err"][:80], "events": len(r["log"])}
                     for r, _ in small[5:7] + [x for x in small if x[0].get("faults")][3:5] + small[-1:]])
    if not okc:
        ctx.log("coq evaluation failed", logs[:1])
        ctx.violation("model evaluation failed", {"theorem_or_correspondence": "C06 cases.v evaluation", "log": logs[:2]},
                      found_input=False)
        return
    rejected = []
    for rr in res:
        for a in range(0, len(rr), 2):
            rejected.append((rr[a], rr[a + 1]))
    ctx.coverage["correspondence"]["cases"] = len(cases)
    ctx.coverage["correspondence"]["mismatches"] = len(rejected)
    ctx.log("runs=%d replayed=%d events=%d moved=%d rejected=%d oracle_failures=%d"
            % (len(runs), len(cases), nevents, moved_total, len(rejected), oracle_fail))
    if rejected and not oracle_fail:
        def why(code):
            if code >= 100000:
                return {100000: "model not final at the end of the log", 100001: "Load's result differs from the model's",
                        100002: "set of executed modules differs"}[code]
            return "log event #%d is not the model's next step for that goroutine" % (code - 1)
        idx, code = rejected[0]
        r = cases[idx][0]
        lin, _ = linearise(r["log"])
        rp = brief(r)
        rp.update({"theorem_or_correspondence": "replay of the hook log by Loader/Model.v (Loader/Run.v check_case)",
                   "reason": why(code), "rejected_runs": len(rejected),
                   "log_around": lin[max(0, code - 12):code + 3] if code < 100000 else lin[-20:]})
        ctx.violation("the loader's hook log is not a run of the model (%d of %d runs), e.g. %s: %s"
                      % (len(rejected), len(cases), r["class"], why(code)), rp, found_input=False)
    if proof_broken and not ctx.violations:
        ctx.violation("a C06 theorem no longer checks", {"theorem_or_correspondence": getattr(ctx, "broken_proof", {})},
                      found_input=False)
