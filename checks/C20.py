"""C20 — Cache.once computes each key at most once under concurrency."""
import json
import os
from lib.vlib import *

META = {
    "property_id": "C20",
    "technique": "Coq proof (inductive invariant over an interleaving transition system modelling cache.go line by line) "
                 "+ concurrent correspondence: observed histories of the real cache must be executions of the model",
    "level_text": "Theorems (Coq, every number of callers/keys/programs, every schedule): per key at most one successful "
                  "invocation; every value returned for a key is the stored value of that single invocation; a failed "
                  "callable returns the error, stores nothing and does not prevent a later invocation (retry reaches a "
                  "stored value from every reachable state); entries only grow; lock accounting; deadlock freedom. "
                  "The model is tied to cache.go by driving the real cache (directly and through the Cache() builtin) "
                  "from 2-16 goroutines over 1-3 keys with failing/succeeding callables, checking direct oracles on "
                  "every history and replaying every history through the model inside Coq.  Keys and values are opaque "
                  "in the model; the harness shows the code treats them so: the callables' results range over 22 "
                  "Starlark value classes (None, False, 0, '', (), fresh []/{}, frozen list, set, NaN, function, ...), "
                  "the keys over 7 styles (empty, NUL, case, 4 KiB prefix, label-like, UTF-8 forms, number-like), the "
                  "callable over Go builtin / def / lambda / def without return, failing by error, fail() or nil.  "
                  "Callers in context: the callers of a cache may be inside the callable that another cache's once is "
                  "running (Cache/NestedModel.v: n caches, per thread a stack of activations of once, nested calls on "
                  "higher-numbered caches).  Theorem nested_projection: the projection of every reachable state of that "
                  "system onto any cache is a reachable state of the single-cache model, so the theorems hold per cache "
                  "(nested_once_at_most_once_success, nested_once_same_value(_pair), nested_once_failure_stores_nothing).  "
                  "The nested family of the harness runs 2-3 real caches sharing their key strings, with callables that "
                  "call once on another cache using the thread they were given (depth <= 2, own value or pass-through "
                  "of the nested result/error) next to direct callers, forces the 'second caller arrives while the "
                  "callable runs' interleaving with gated callables, and checks and replays every cache's history "
                  "separately.  Lifetime of a cache: the theorems are for every number of keys and calls (entries only grow: "
                  "cache_invariant; stored_key_is_never_recomputed: once a key has an entry, no later step of any schedule "
                  "invokes a callable for it, its entry keeps its value and every later return for it carries that value, "
                  "however many other keys are stored or calls fail afterwards).  The scale family of the harness takes "
                  "real caches there: 5 .. 2.6e5 distinct keys (thorough: .. 2^20+1; ladder of 2^j+1, 10^j+1 and random "
                  "sizes between), up to ~6e5 calls on one cache, thousands of hits on one key, ~1000 failed invocations "
                  "on one key before its success, 1-16 goroutines, access patterns fill/revisit-all/extend, sliding lags, "
                  "hot and cold keys, failure storms, random; per-key oracles evaluated online on every call and on the "
                  "final entries; the histories short enough are replayed by the model in Coq, a failure is re-executed "
                  "sequentially and reduced by delta debugging to a concrete call list.",
    "level_note": "Trusted: Coq kernel; sync.RWMutex is modelled as (readers, writer) with RLock enabled iff no writer "
                  "and Lock iff no writer and no readers (a superset of Go's behaviours); the Go scheduler only "
                  "produces some interleavings, the theorems cover all of them for the model; re-entrant callables "
                  "(once inside once on the same cache) self-deadlock in the code and are outside the property; nested "
                  "calls of the harness and of nested_projection go to higher-ranked caches only (a cyclic order between "
                  "two caches can deadlock in the code as any lock-order inversion does); the multi-cache model is tied "
                  "to the code through its per-cache projections (each replayed by the single-cache model), not by a "
                  "replay of the global history.",
    "design_ref": "DESIGN.md §6 C20",
}

HDR = ("From Coq Require Import List NArith.\nImport ListNotations.\n"
       "From Dawn Require Import Cache.Model Cache.Run.\n")
# NB: N_scope must NOT be opened here: vlib.coq_eval recognises the indices by their `%N` suffix.


def parse_plan(s):
    plan = []
    for g in s.split("|"):
        calls = []
        for c in filter(None, g.split(",")):
            k, o = c.split(":")
            calls.append((int(k), None if o == "f" else int(o)))
        plan.append(calls)
    return plan


def parse_hist(s):
    ev = []
    for tok in filter(None, s.split(" ")):
        kind = tok[0]
        parts = tok[1:].split(":")
        g, k = int(parts[0]), int(parts[1])
        v = int(parts[2]) if len(parts) > 2 else 0
        ev.append((kind, g, k, v))
    return ev


def schedule(events):
    """Candidate model schedule for a projected history (events 'c', 'e', 'r'), as (caller, steps) blocks.
    Every block starts and ends with the lock free: an invoker runs rlock..call and then store/unlock at
    the place of its invocation, every other internal step is run right before the visible event."""
    phase = {}
    blocks = []
    for kind, g, k, v in events:
        if kind == "c":
            blocks.append((g, 1))
            phase[g] = "started"
        elif kind == "e":
            blocks.append((g, 8 if v >= 0 else 7))
            phase[g] = "invoked"
        elif kind == "r":
            blocks.append((g, 1 if phase.get(g) == "invoked" else 4))
            phase[g] = "idle"
    return blocks


def cq_event(e):
    kind, g, k, v = e
    if kind == "c":
        return "ECall %d %s" % (g, cq_N(k))
    if kind == "e":
        return "EInvoke %d %s %s" % (g, cq_N(k), "(Ok %s)" % cq_N(v) if v >= 0 else "Fail")
    return "EReturn %d %s %s" % (g, cq_N(k), "RErr" if v == -1 else "(RVal %s)" % cq_N(max(v, 0)))


def to_case(plan, events, final):
    cfg = cq_list([cq_list(["(%s, %s)" % (cq_N(k), "Fail" if v is None else "Ok %s" % cq_N(v)) for k, v in g], "call")
                   for g in plan], "list call")
    blocks = cq_list(["(%d, %d)%%nat" % b for b in schedule(events)], "(nat * nat)%type")
    obs = cq_list([cq_event(e) for e in events], "event")
    fin = cq_list(["(%s, %s)" % (cq_N(k), "None" if v is None else "Some %s" % cq_N(max(v, 0))) for k, v in final],
                  "(N * option N)%type")
    return "mkCase %s %s %s %s" % (cfg, blocks, obs, fin)


def raced(events):
    """number of calls that started before the (first) successful invocation of their key ended, without being it"""
    n = 0
    open_calls = {}
    for kind, g, k, v in events:
        if kind == "c":
            open_calls[g] = k
        elif kind == "r":
            open_calls.pop(g, None)
        elif kind == "e":
            n += sum(1 for g2, k2 in open_calls.items() if g2 != g and k2 == k)
    return n


def run(ctx):
    ok, rep = ctx.coq_props("Cache/Props_C20.v")
    proof_broken = not ok

    n = int(os.environ.get("VERIF_C20_N", "600" if ctx.quick() else "20000"))
    # nested family (callers inside another cache's callable, 2-3 caches): scenario ids n .. n+nn-1
    nn = int(os.environ.get("VERIF_C20_NESTED", "240" if ctx.quick() else "4000"))
    # scale family (lifetime of a cache: many keys, many calls, many failures): scenario ids n+nn .. n+nn+ns-1
    ns = int(os.environ.get("VERIF_C20_SCALE", "34" if ctx.quick() else "110"))
    scale_maxk = int(os.environ.get("VERIF_C20_SCALE_MAXK", "262145" if ctx.quick() else "1048577"))
    scale_budget = int(os.environ.get("VERIF_C20_SCALE_BUDGET", "60000" if ctx.quick() else "400000"))
    scale_replay = int(os.environ.get("VERIF_C20_SCALE_REPLAY", "9000" if ctx.quick() else "16000"))
    out = os.path.join(ctx.tmp, "c20.tsv")
    env = {"VERIF_OUT": out, "VERIF_N": str(n), "VERIF_C20_NESTED": str(nn), "VERIF_SEED": str(ctx.seed),
           "VERIF_C20_SCALE": str(ns), "VERIF_C20_SCALE_MAXK": str(scale_maxk),
           "VERIF_C20_SCALE_BUDGET": str(scale_budget), "VERIF_C20_SCALE_REPLAY": str(scale_replay)}
    rc, o = ctx.go_overlay_test("", {"zz_verif_c20_test.go": os.path.join(HARNESS, "overlay/root/zz_verif_c20_test.go"),
                                     "zz_verif_c20_nested_test.go": os.path.join(HARNESS, "overlay/root/zz_verif_c20_nested_test.go"),
                                     "zz_verif_c20_scale_test.go": os.path.join(HARNESS, "overlay/root/zz_verif_c20_scale_test.go")},
                                "^TestVerifC20$", env)
    if rc != 0 or not os.path.exists(out):
        ctx.log(o[-3000:])
        ctx.violation("C20 harness failed to build or run against /repo (exit %d)" % rc,
                      {"theorem_or_correspondence": "C20 correspondence harness (cache)", "output": o[-3000:]},
                      found_input=False)
        return

    scen = {}
    oracles = []
    nested_input = {}   # raw scenario id (>= n) -> readable description of the whole nested scenario
    nested_ended = set()
    scale_stats = {}    # raw scenario id (>= n+nn) -> measured numbers of the scale scenario
    scale_input = {}    # raw scenario id -> readable description
    scale_ended = set()
    for line in open(out):
        f = line.rstrip("\n").split("\t")
        if f[0] == "ORACLE":
            oracles.append(f)
        elif f[0] == "S":
            scen[int(f[1])] = f
        elif f[0] == "N":
            nested_input[int(f[1])] = f[2]
        elif f[0] == "SC":
            scale_stats[int(f[1])] = json.loads(f[2])
        elif f[0] == "SCIN":
            scale_input[int(f[1])] = f[2]
        elif f[0] == "END" and int(f[1]) >= n + nn:
            scale_ended.add(int(f[1]))
        elif f[0] == "END" and int(f[1]) >= n:
            nested_ended.add(int(f[1]))
    ids = sorted(scen)
    cases = []
    dist = {"goroutines": {}, "keys": {}, "failing_callables": {}, "mode": {}, "invocations_observed": {},
            "value_kind_of_planned_calls": {}, "key_style": {}, "callable_shape_of_planned_calls": {},
            "value_kind_of_successful_invocations_with_a_later_or_racing_call": {}}
    distinct = set()
    raced_total = 0
    raced_scen = 0
    PROJ = 500000       # ids of the per-cache projections of the nested family: PROJ + 4*j + cache
    SCALE = 700000      # ids of the replayable histories of the scale family: SCALE + j
    nst = {"scenarios": 0, "caches": {}, "max_nesting_depth": {}, "family": {},
           "cache_histories_replayed": 0,
           "invocations_by_a_caller_inside_another_caches_callable": 0,
           "of_those_with_another_callers_call_on_the_same_key_in_flight": 0,
           "cache_histories_with_such_a_raced_nested_invocation": 0}
    nested_seen = set()

    def bump(d, k):
        d[str(k)] = d.get(str(k), 0) + 1

    for i in ids:
        f = scen[i]
        plan = parse_plan(f[5])
        hist = parse_hist(f[6])
        events = [e for e in hist if e[0] != "b"]
        final = []
        for kv in filter(None, f[7].split(",")):
            k, v = kv.split("=")
            final.append((int(k), None if v == "-" else int(v)))
        cases.append((i, plan, events, final))
        bump(dist["goroutines"], len(plan))
        bump(dist["keys"], f[4])
        nf = sum(1 for g in plan for _, v in g if v is None)
        bump(dist["failing_callables"], "0" if nf == 0 else "all" if nf == sum(len(g) for g in plan) else "some")
        bump(dist["mode"], f[2])
        bump(dist["invocations_observed"], min(sum(1 for e in events if e[0] == "e"), 8))
        kinds = f[10].split(",") if len(f) > 10 and i < SCALE else []
        for kd in kinds:
            bump(dist["value_kind_of_planned_calls"], kd)
        bump(dist["key_style"], f[11] if len(f) > 11 else "?")
        for sh in (f[12].split(",") if len(f) > 12 and i < SCALE else []):
            bump(dist["callable_shape_of_planned_calls"], sh)
        # a successful invocation only tests "stored and found again" if somebody asks for the key afterwards
        flat = [(g, ci) for g, cs in enumerate(plan) for ci in range(len(cs))]
        kind_of = {gc: kinds[j] for j, gc in enumerate(flat)} if len(kinds) == len(flat) else {}
        seen_calls = {}
        cur = {}
        for j, (kind, g, k, v) in enumerate(events):
            if kind == "c":
                cur[g] = seen_calls.get(g, 0)
                seen_calls[g] = cur[g] + 1
            elif kind == "e" and v >= 0 and any(e2[0] == "r" and e2[2] == k and e2[1] != g for e2 in events[j + 1:]):
                bump(dist["value_kind_of_successful_invocations_with_a_later_or_racing_call"], kind_of.get((g, cur.get(g)), "?"))
        r = raced(events)
        raced_total += r
        if r:
            raced_scen += 1
            distinct.add((f[5], f[6]))
        if PROJ <= i < SCALE and len(f) > 18:
            j = (i - PROJ) // 4
            if j not in nested_seen:
                nested_seen.add(j)
                nst["scenarios"] += 1
                bump(nst["caches"], f[14])
                bump(nst["max_nesting_depth"], f[15])
                bump(nst["family"], f[17])
            nst["cache_histories_replayed"] += 1
            nst["invocations_by_a_caller_inside_another_caches_callable"] += int(f[16])
            nst["of_those_with_another_callers_call_on_the_same_key_in_flight"] += int(f[18])
            if int(f[18]):
                nst["cache_histories_with_such_a_raced_nested_invocation"] += 1
    dist["scenarios_with_a_racing_call"] = raced_scen
    dist["racing_calls"] = raced_total
    dist["nested_family"] = nst
    n_base_cases = sum(1 for i in ids if i < PROJ)
    n_scale_cases = sum(1 for i in ids if i >= SCALE)
    scl = {"scenarios": len(scale_stats), "pattern": {}, "goroutines": {}, "distinct_keys_of_the_scenarios": [],
           "calls_total": 0, "events_total": 0, "max_distinct_keys_in_one_cache": 0, "max_calls_on_one_cache": 0,
           "max_calls_on_one_key": 0, "max_failed_invocations_on_one_key_before_its_success": 0,
           "histories_replayed_by_the_model": n_scale_cases, "max_keys_of_a_replayed_history": 0,
           "entries_len_equals_keys_with_a_successful_invocation": 0}
    for sid in sorted(scale_stats):
        st = scale_stats[sid]
        bump(scl["pattern"], st["pattern"])
        bump(scl["goroutines"], st["goroutines"])
        scl["distinct_keys_of_the_scenarios"].append(st["keys"])
        scl["calls_total"] += st["calls"]
        scl["events_total"] += st["events"]
        scl["max_distinct_keys_in_one_cache"] = max(scl["max_distinct_keys_in_one_cache"], st["keys_stored"])
        scl["max_calls_on_one_cache"] = max(scl["max_calls_on_one_cache"], st["calls"])
        scl["max_calls_on_one_key"] = max(scl["max_calls_on_one_key"], st["max_calls_on_one_key"])
        scl["max_failed_invocations_on_one_key_before_its_success"] = max(
            scl["max_failed_invocations_on_one_key_before_its_success"], st["max_failed_invocations_on_one_key"])
        if st["replayed_in_coq"]:
            scl["max_keys_of_a_replayed_history"] = max(scl["max_keys_of_a_replayed_history"], st["keys"])
        if st["entries_len"] == st["keys_stored"]:
            scl["entries_len_equals_keys_with_a_successful_invocation"] += 1
    scl["distinct_keys_of_the_scenarios"].sort()
    dist["scale_family"] = scl

    ctx.coverage["evaluations"] = len(cases)
    ctx.coverage["distinct_nontrivial"] = len(distinct)
    ctx.coverage["rule"] = ("%d observed single-cache histories = %d seeded scenarios (12 enumerated boundary plans + one enumerated plan per value class, per key "
                            "style and per way of failing, each in both modes + random plans: 2-16 goroutines, 1-3 keys, "
                            "1-3 sequential calls each, failure probability in {0,.3,.6,.9,1}, values plain ints / one value "
                            "class / a class per call, key style plain or random, callable shapes builtin or mixed, seeded "
                            "Gosched/microsecond sleeps before the call and inside the callable), alternately on a directly "
                            "constructed cache and through Cache()/.once via starlark.Call; non-trivial = at least one call on a key was in "
                            "flight while another goroutine's callable for that key completed; distinct by (plan, history)"
                            " + the per-cache histories of %d nested scenarios (2-3 caches sharing the key strings; a callable may "
                            "call once on a higher-ranked cache with the thread it was given, to depth 2, returning its own value "
                            "or passing on the nested result/error; 2-8 goroutines mixing nested and direct callers of every cache; "
                            "18 enumerated plans + random ones; gated callables wait for a second caller of their key; every "
                            "cache's history is checked by the single-cache oracles and replayed by the single-cache model, "
                            "cf. theorem nested_projection)"
                            " + %d scale scenarios (lifetime of one cache: %d..%d distinct keys, %d calls in all, up to %d calls "
                            "on one key and %d failed invocations on one key; patterns fill_revisit on every ladder size, "
                            "sliding_lags, hot_cold, fail_storm, random; oracles online per call and on the final entries; "
                            "%d of them short enough for the replay by the model and counted in the histories above, cf. theorem "
                            "stored_key_is_never_recomputed)"
                            % (len(cases) , n_base_cases, nst["scenarios"], scl["scenarios"],
                               min(scl["distinct_keys_of_the_scenarios"] or [0]), max(scl["distinct_keys_of_the_scenarios"] or [0]),
                               scl["calls_total"], scl["max_calls_on_one_key"],
                               scl["max_failed_invocations_on_one_key_before_its_success"], n_scale_cases))
    ctx.coverage["exhaustive"] = False
    ctx.coverage["correspondence"]["distribution"] = dist
    ctx.add_samples([[scen[i][2], scen[i][5], scen[i][6], scen[i][7]] for i in ids[12:15] + [q for q in ids if q < SCALE][-2:]])

    for f in oracles:
        sid = int(f[2]) if len(f) > 2 and f[2].lstrip("-").isdigit() else -1
        s = scen.get(sid)
        nested = None
        if n + nn <= sid < PROJ:
            continue        # scale family: reported per scenario below
        if PROJ <= sid < SCALE and s and len(s) > 13:
            nested = s[13]
        elif sid in nested_input:
            nested = nested_input[sid]
        if nested is not None:
            raw = n + (sid - PROJ) // 4 if sid >= PROJ else sid
            ctx.violation("implementation violates C20 oracle %s (nested scenario %d%s)"
                          % (f[1], raw, ", cache %d" % ((sid - PROJ) % 4) if sid >= PROJ else ""),
                          {"oracle": f[1], "scenario": raw, "detail": f[3:] if len(f) > 3 else [],
                           "input": nested,
                           "mode": s[2] if s else None,
                           "calls_made_on_this_cache": s[5] if s else None,
                           "history_of_this_cache": s[6] if s else None,
                           "final_entries_of_this_cache": s[7] if s else None,
                           "keys": s[8] if s else None,
                           "key_style": s[11] if s else None,
                           "other_cache_histories": {str((q - PROJ) % 4): [scen[q][6], scen[q][7]]
                                                     for q in range(PROJ + 4 * (raw - n), PROJ + 4 * (raw - n) + 4)
                                                     if q in scen and q != sid},
                           "value_code": "values are codes: kind*1000000+payload (kind 0 = the int itself), see c20Kinds",
                           "how": "VERIF_SEED=%d VERIF_C20_N=%d, nested scenario id %d (= index %d of c20GenNested) of "
                                  "harness/overlay/root/zz_verif_c20_nested_test.go; history: per goroutine g and key k, "
                                  "c<g>:<k> call, b/e callable begin/end (e carries the value, -1 = failed), r return"
                                  % (ctx.seed, n, raw, raw - n)})
            continue
        ctx.violation("implementation violates C20 oracle %s (scenario %d)" % (f[1], sid),
                      {"oracle": f[1], "scenario": sid, "detail": f[3:] if len(f) > 3 else [],
                       "mode": s[2] if s else None, "plan": s[5] if s else None, "history": s[6] if s else None,
                       "final_entries": s[7] if s else None,
                       "keys": s[8] if s and len(s) > 8 else None,
                       "input": s[9] if s and len(s) > 9 else None,
                       "key_style": s[11] if s and len(s) > 11 else None,
                       "value_code": "values in plan/history are codes: kind*1000000+payload; kinds in order: int(=payload) "
                                     "None False True int0 negint bigint float0 float nan str_empty str bytes_empty "
                                     "tuple_empty tuple list_empty list list_frozen dict_empty dict set_empty function",
                       "how": "VERIF_SEED=%d, scenario id %d of harness/overlay/root/zz_verif_c20_test.go "
                              "(plan: per goroutine key:value|f; history: c=call b/e=callable begin/end r=return)"
                              % (ctx.seed, sid)})

    # scale family: one violation per failing scenario (smallest first, at most 3 in full)
    by_scen = {}
    for f in oracles:
        sid = int(f[2]) if len(f) > 2 and f[2].lstrip("-").isdigit() else -1
        if n + nn <= sid < PROJ:
            by_scen.setdefault(sid, []).append(f)
    for rank, sid in enumerate(sorted(by_scen)):
        fs = by_scen[sid]
        st = scale_stats.get(sid, {})
        if rank >= 3:
            continue
        try:
            detail = json.loads(fs[0][3]) if len(fs[0]) > 3 else {}
        except ValueError:
            detail = {"detail": fs[0][3:]}
        names = sorted({f[1] for f in fs})
        ctx.violation("implementation violates C20 oracle%s %s (scale scenario %d: %s, %s distinct keys)"
                      % ("s" if len(names) > 1 else "", ", ".join(names), sid, st.get("pattern", "?"), st.get("keys", "?")),
                      {"oracles": names, "scenario": sid,
                       "input": detail.pop("input", None) or scale_input.get(sid),
                       "failing_input": detail.get("sequential_reproducer"),
                       "detail": detail, "measured": st,
                       "other_failing_scale_scenarios": [
                           {"scenario": q, "pattern": scale_stats.get(q, {}).get("pattern"),
                            "keys": scale_stats.get(q, {}).get("keys"), "oracles": sorted({f[1] for f in by_scen[q]})}
                           for q in sorted(by_scen) if q != sid][:30] if rank == 0 else "see the first scale violation",
                       "value_code": "values are the ints the callables return; -1 = the callable fails / once returned an error",
                       "how": "VERIF_SEED=%d VERIF_C20_N=%d VERIF_C20_NESTED=%d VERIF_C20_SCALE=%d VERIF_C20_SCALE_MAXK=%d "
                              "VERIF_C20_SCALE_BUDGET=%d: scenario id %d = index %d of c20GenScale in "
                              "harness/overlay/root/zz_verif_c20_scale_test.go (the plan is a function of seed and index)"
                              % (ctx.seed, n, nn, ns, scale_maxk, scale_budget, sid, sid - n - nn)})

    shard = 400
    exprs = []
    small = [c for c in cases if c[0] < SCALE]
    for a in range(0, len(small), shard):
        items = ["(%s, %s)" % (cq_N(i), to_case(plan, events, final)) for i, plan, events, final in small[a:a + shard]]
        exprs.append("mismatches [\n" + ";\n".join(items) + "]")
    # the (long) histories of the scale family: shards of about 6000 events
    items, weight = [], 0
    for i, plan, events, final in [c for c in cases if c[0] >= SCALE]:
        items.append("(%s, %s)" % (cq_N(i), to_case(plan, events, final)))
        weight += len(events)
        if weight > 6000:
            exprs.append("mismatches [\n" + ";\n".join(items) + "]")
            items, weight = [], 0
    if items:
        exprs.append("mismatches [\n" + ";\n".join(items) + "]")
    # negative controls: perturbed copies of real cases that the model must REJECT (keeps the acceptance
    # pipeline honest: rendering, evaluation and result parsing are exercised on known-bad inputs every run)
    controls = []
    for i, plan, events, final in cases[:60]:
        rets = [j for j, e in enumerate(events) if e[0] == "r" and e[3] >= 0]
        if rets:
            j = rets[len(rets) // 2]
            ev2 = list(events)
            ev2[j] = (ev2[j][0], ev2[j][1], ev2[j][2], ev2[j][3] + 1000)
            controls.append((10 ** 6 + 2 * i, plan, ev2, final))
        if final:
            k, v = final[0]
            controls.append((10 ** 6 + 2 * i + 1, plan, events, [(k, 999 if v is None else None)] + final[1:]))
    if controls:
        items = ["(%s, %s)" % (cq_N(i), to_case(plan, events, final)) for i, plan, events, final in controls]
        exprs.append("mismatches [\n" + ";\n".join(items) + "]")
    okc, res, logs = ctx.coq_eval(HDR, exprs)
    if not okc:
        ctx.log("coq evaluation failed", logs[:1])
        ctx.violation("model evaluation failed", {"theorem_or_correspondence": "C20 cases.v evaluation", "log": logs[:2]},
                      found_input=False)
        return
    allm = [x for r in res for x in r]
    mism = [x for x in allm if x < 10 ** 6]
    rejected_controls = {x for x in allm if x >= 10 ** 6}
    ctx.coverage["correspondence"]["negative_controls"] = len(controls)
    ctx.coverage["correspondence"]["negative_controls_rejected"] = len(rejected_controls)
    if len(rejected_controls) != len(controls):
        ctx.violation("the model accepted %d deliberately corrupted histories" % (len(controls) - len(rejected_controls)),
                      {"theorem_or_correspondence": "C20 acceptance pipeline (negative controls)",
                       "accepted": [i for i, _, _, _ in controls if i not in rejected_controls][:5]}, found_input=False)
    ctx.coverage["correspondence"]["cases"] = len(cases)
    ctx.coverage["correspondence"]["mismatches"] = len(mism)
    ctx.log("scenarios=%d racing=%d mismatches=%d oracle_failures=%d" % (len(cases), raced_scen, len(mism), len(oracles)))
    if (n_base_cases < n or len(nested_ended) < nn or len(scale_ended) < ns or len(scale_stats) < ns) and not oracles:
        ctx.violation("harness produced %d of %d scenarios, %d of %d nested scenarios and %d of %d scale scenarios"
                      % (n_base_cases, n, len(nested_ended), nn, min(len(scale_ended), len(scale_stats)), ns),
                      {"theorem_or_correspondence": "C20 correspondence harness (cache)", "output": o[-2000:]},
                      found_input=False)
    if mism and not oracles:
        ex = [scen[i] for i in mism[:5]]
        ctx.violation("the model has no execution producing %d observed histories, e.g. scenario %d" % (len(mism), mism[0]),
                      {"theorem_or_correspondence": "correspondence Cache/Model.v <-> cache.go (history acceptance)",
                       "disagreeing_cases": ex}, found_input=False)
    if proof_broken and not ctx.violations:
        ctx.violation("a C20 theorem no longer checks", {"theorem_or_correspondence": getattr(ctx, "broken_proof", {})},
                      found_input=False)
