"""C19 — Project configuration round-trips through its file format."""
import json
import os
from lib.vlib import *

META = {
    "property_id": "C19",
    "technique": "Coq proof over a Gallina model of internal/project/config.go (writer, go-toml's string encoder as "
                 "called, a decoder for the emitted grammar, version validation, CleanPath; the file WriteConfigFile leaves as a "
                 "function of the destination's previous state; a process writing and loading several files under several spellings of "
                 "their paths; the load-resolve-write of dawn get / dawn tidy) + generated-configuration correspondence + "
                 "rewrite-in-place, session and command oracles (get/tidy run in-process against a simulated network)",
    "level_text": "Theorems (Coq, unbounded): for every valid configuration (strings valid UTF-8 - arbitrary Unicode, quotes "
                  "and control characters - requirement versions canonical semver, paths in clean form) load(write c) = c and "
                  "hence write(load(write c)) = write c; free_fields_verbatim: name, project version and ignore patterns are any UTF-8 text "
                  "(only requirements carry the semver / clean-path conditions) and come back verbatim; the string encoder/decoder pair round-trips every UTF-8 string and "
                  "key quoting round-trips every key incl. the empty one; the file left by a rewrite of an existing path (any previous "
                  "contents, any history of rewrites) is write c and loads back as c. The model is tied to config.go/version.go/go-toml "
                  "by ~1500 generated configurations (every control character, quote styles, DEL, Latin-1, BMP, astral, "
                  "empty, invalid UTF-8, canonical and non-canonical versions, clean and unclean paths ('@' in any segment, major "
                  "suffixes of every length and digit pattern), all 16 layouts, many-requirement maps): written bytes and loaded "
                  "structure compared exactly; every path/version string with a function-level case is also inside a whole "
                  "configuration under the direct round-trip oracle. Free-form fields: ~480 strings of the restricted fields' domains and of "
                  "plausible normalisers (semver grammar enumerated incl. build metadata and shorthands, near-versions, clean/unclean "
                  "paths, globs, padding, case, equivalent Unicode spellings, TOML-typed-looking text, key words, references) in every "
                  "position the quantifier leaves free (name, version, ignore, requirement name), ignore lists as sequences, pairs a "
                  "normaliser would merge; the same strings in the projects of the get/tidy runs. Rewriting in place (get/tidy): every configuration is also "
                  "written over the previous one's file and over a hand-written layout of itself (comments, alignment, sub-tables, "
                  "CRLF, compact), 16 base configurations over ~28 previous states each (absent, empty, identical, own bytes + tail, "
                  "truncated, superset/subset serialisations, random bytes of every relative length, 64 KiB, symbolic link), and "
                  "load-modify-write histories on one path; oracle: bytes at the path = bytes of a fresh write, and they load back. "
                  "One process, many paths: theorems load_sees_last_write / file_is_last_write / spelling_irrelevant (a load yields the "
                  "last configuration written to the FILE, through whatever spelling, whatever the process did before); ~230 sessions "
                  "of writes and loads over 3 files x 16 spellings (uncleaned, relative, through directory/file symbolic links, a hard "
                  "link) incl. every ordered pair of spellings of one file, changes of directory and a re-pointed link. get/tidy: "
                  "theorem command_loses_nothing; ~350 in-process runs of the two commands (every command line of a 50-entry "
                  "catalogue x network up/down x layouts, special and random projects): the file afterwards loads as the "
                  "configuration before with the requirements resolution yields, or unchanged when the command failed. "
                  "Size: the statement bounds neither counts, nor string lengths, nor the size of dawn.toml; ~1400 configurations of 12 "
                  "shapes (many requirements, many patterns = one long line, one long string in each position) with the file exactly "
                  "T-1, T, T+1 bytes / n = T-1, T, T+1 entries or bytes for every power of two up to 1 MiB (4 MiB thorough) and of ten, "
                  "and byte T of the file at every offset of a requirement line (T = 512, 4096, 65536); oracle: round trip, second "
                  "write, one requirement added / half removed in place; example whole_file_is_needed.",
    "level_note": "Trusted: Coq kernel. go-toml v2 (encoder as called by dawn; decoder on the grammar the writer emits), "
                  "golang.org/x/mod/semver and path.Clean are third-party: modelled, validated by the correspondence only. "
                  "The model decoder covers only documents the writer produces; hand-edited dawn.toml files are out of scope. "
                  "A Go map is modelled by its key-sorted association list; nil and empty are one model value.",
    "design_ref": "DESIGN.md §6 C19",
}

HDR = "From Dawn Require Import Config.Model Config.File Config.Session Config.Run.\nOpen Scope N_scope.\n"


def hb(h):
    return cq_bytes(bytes.fromhex(h))


def cq_cfg(c):
    reqs = cq_list(["(mkReq %s %s %s)" % (hb(n), hb(p), hb(v)) for n, p, v in c["reqs"]], "req")
    return "(mkConfig %s %s %s %s)" % (hb(c["name"]), hb(c["version"]), cq_list([hb(x) for x in c["ignore"]], "str"), reqs)


def cq_optf(x, f):
    return "None" if x is None else "(Some %s)" % f(x)


def cq_session(r):
    """a session record -> CSession term: the operations that ran (chdir / retarget only change which file a spelling names,
    and every operation carries the file its spelling named, so they do not appear), what the loads returned, the files left"""
    init = cq_list(["(%s, [])" % cq_N(f) for f, present in enumerate(r["init"]) if present], "(N * str)")
    ops, loads = [], []
    for o in r["ops"]:
        if o["op"] == "write":
            ops.append("OWrite %s %s %s" % (cq_N(o["sp"]), cq_N(o["file"]), cq_cfg(o["cfg"])))
        elif o["op"] == "load":
            ops.append("OLoad %s %s" % (cq_N(o["sp"]), cq_N(o["file"])))
            loads.append("None" if o["err"] else "(Some %s)" % cq_cfg(o["loaded"]))
    final = cq_list(["(%s, %s)" % (cq_N(f), cq_optf(b, hb)) for f, b in enumerate(r["final"])], "(N * file)")
    return "CSession %s %s %s %s" % (init, cq_list(ops, "op"), cq_list(loads, "(option config)"), final)


def show_ops(ops):
    out = []
    for o in ops:
        if o["op"] == "write":
            out.append({"WriteConfigFile": o["spelling"], "names_file": o["file"], "config": show_cfg(o["cfg"])})
        elif o["op"] == "load":
            out.append({"LoadConfigFile": o["spelling"], "names_file": o["file"],
                        "returned": "error" if o["err"] else show_cfg(o["loaded"])})
        else:
            out.append({o["op"]: o["to"]})
    return out


def show_cfg(c):
    d = lambda h: bytes.fromhex(h).decode("utf-8", "backslashreplace")
    return {"name": d(c["name"]), "version": d(c["version"]), "ignore": [d(x) for x in c["ignore"]],
            "requirements": {d(n): {"path": d(p), "version": d(v)} for n, p, v in c["reqs"]}}


def run(ctx):
    ok, rep = ctx.coq_props("Config/Props_C19.v")
    proof_broken = not ok
    out = os.path.join(ctx.tmp, "c19.jsonl")
    nruns = 1 if ctx.quick() else 3
    recs = []
    for k in range(nruns):
        env = {"VERIF_OUT": out, "VERIF_SEED": str(ctx.seed + 1000 * k), "VERIF_NRAND": "300" if ctx.quick() else "1500",
               "VERIF_MAXPATH": "4" if ctx.quick() else "5",
               # rewriting in place: random base configurations for the previous-state family, get/tidy histories
               "VERIF_NBASE": "8" if ctx.quick() else "30", "VERIF_NCHAIN": "40" if ctx.quick() else "200",
               # one process, several files and spellings: random sessions on top of the enumerated ones
               "VERIF_NSESSION": "60" if ctx.quick() else "400",
               # the size of a configuration (zz_verif_c19_size_test.go, same test binary): file sizes / entry counts / string
               # lengths around every power of two and of ten; the large settings once per thorough run
               "VERIF_OUT_SIZE": out + ".size"}
        if not ctx.quick() and k == 0:
            env.update({"VERIF_SIZE_MAXPOW": "22", "VERIF_SIZE_WIDEPOW": "18", "VERIF_SIZE_CNTPOW": "13", "VERIF_SIZE_REQPOW": "20",
                        "VERIF_SIZE_ALIGN_ALL": "1", "VERIF_SIZE_NRANDOM": "150"})
        pdir = os.path.join(HARNESS, "overlay/internal/project")
        rc, o = ctx.go_overlay_test("internal/project",
                                    {"zz_verif_c19_test.go": os.path.join(pdir, "zz_verif_c19_test.go"),
                                     "zz_verif_c19_size_test.go": os.path.join(pdir, "zz_verif_c19_size_test.go")},
                                    "^TestVerifC19(Size)?$", env)
        if rc != 0:
            ctx.log(o[-3000:])
            ctx.violation("config harness failed to build or run against /repo (exit %d)" % rc,
                          {"theorem_or_correspondence": "C19 correspondence harness", "output": o[-3000:]}, found_input=False)
            return
        recs += [json.loads(l) for l in open(out)]
        recs += [json.loads(l) for l in open(out + ".size")]
        # the commands that rewrite dawn.toml (cmd/dawn/get.go, tidy.go), in-process against a simulated network.  The harness
        # imports packages of modules that are already requirements of /repo; a private copy of go.mod/go.sum (-modfile)
        # makes sure that `go` cannot touch /repo's own whatever it decides about direct/indirect requirements.
        import shutil
        for fn in ("go.mod", "go.sum"):
            shutil.copy(os.path.join(REPO, fn), os.path.join(ctx.tmp, "c19-" + fn))
        env = {"VERIF_OUT": out, "VERIF_SEED": str(ctx.seed + 1000 * k), "VERIF_NCMD": "60" if ctx.quick() else "300"}
        rc, o = ctx.go_overlay_test("cmd/dawn",
                                    {"zz_verif_c19_cmd_test.go": os.path.join(HARNESS, "overlay/cmd/dawn/zz_verif_c19_cmd_test.go")},
                                    "^TestVerifC19Cmd$", env, extra=["-modfile=" + os.path.join(ctx.tmp, "c19-go.mod")])
        if rc != 0:
            ctx.log(o[-3000:])
            ctx.violation("get/tidy harness failed to build or run against /repo (exit %d)" % rc,
                          {"theorem_or_correspondence": "C19 command harness", "output": o[-3000:]}, found_input=False)
            return
        recs += [json.loads(l) for l in open(out)]

    cases, descr, dist, oracles, panics = [], [], {}, [], []
    seen = set()

    def add(term, d, key):
        if term in seen:
            return
        seen.add(term)
        cases.append(term)
        descr.append(d)
        dist[key] = dist.get(key, 0) + 1

    nvalid = 0
    stats = {}
    rwstats, notes, cmdstats = {}, [], {}
    sizestats, size_oracles = {"counts": {}, "max_bytes": 0, "bytes_total": 0, "targets": []}, []
    for r in recs:
        if r["t"] == "ORACLE" and "size" in r:
            size_oracles.append(r)
        elif r["t"] == "sizestats":
            for k, v in r["counts"].items():
                sizestats["counts"][k] = sizestats["counts"].get(k, 0) + v
            sizestats["max_bytes"] = max(sizestats["max_bytes"], r["max_bytes"])
            sizestats["bytes_total"] += r["bytes_total"]
            sizestats["targets"] = sorted(set(sizestats["targets"]) | set(r["targets"]))
        elif r["t"] == "ORACLE":
            oracles.append(r)
        elif r["t"] == "semver":
            add("CSemver %s %s" % (hb(r["s"]), cq_bool(r["ok"])), r, "semver:" + ("canonical" if r["ok"] else "rejected"))
        elif r["t"] == "clean":
            add("CClean %s %s" % (hb(r["s"]), hb(r["out"])), r, "cleanpath:" + ("fixed-point" if r["s"] == r["out"] else "changed"))
            # the harness's own definition of the clean form (it decides which configurations are inside the quantifier)
            # is held to the model as well; on the unchanged tree this is the same term and costs nothing
            add("CClean %s %s" % (hb(r["s"]), hb(r["ref"])), {"t": "clean-reference", "s": r["s"], "out": r["ref"]}, "cleanpath:reference")
        elif r["t"] == "stats":
            stats = r
        elif r["t"] == "rwstats":
            for k, v in r["counts"].items():
                rwstats[k] = rwstats.get(k, 0) + v
        elif r["t"] == "NOTE" and r["name"].startswith("skip:"):
            cmdstats["note:" + r["name"]] = cmdstats.get("note:" + r["name"], 0) + 1
        elif r["t"] == "NOTE":
            notes.append(r)
        elif r["t"] == "session":
            add(cq_session(r), r, "session:" + r["kind"])
        elif r["t"] == "cmdstats":
            for k, v in r["counts"].items():
                cmdstats[k] = cmdstats.get(k, 0) + v
        elif r["t"] == "cmd":
            # the model's decoder reads the writer's own grammar only: commands on a hand-written dawn.toml are under the
            # oracle, not in the correspondence.  resolved = what resolution yields for this command line (recomputed by
            # the harness); a run whose outcome and recomputation disagree about success is not compared (counted)
            if (r["err"] is None) != (r["resolved"] is not None):
                cmdstats["not-compared:outcome-and-recomputation-disagree"] = cmdstats.get("not-compared:outcome-and-recomputation-disagree", 0) + 1
            elif r["canonical"]:
                res = "None" if r["resolved"] is None else "(Some %s)" % cq_list(
                    ["(mkReq %s %s %s)" % (hb(n), hb(p), hb(v)) for n, p, v in r["resolved"]], "req")
                add("CCommand (Some %s) %s (Some %s)" % (hb(r["before"]), res, hb(r["after"])), r,
                    "command:" + ("failed" if r["err"] else "succeeded"))
        elif r["t"] == "rw":
            # the file at a path that was in state `old` (None = absent) after WriteConfigFile(path, cfg)
            add("CRewrite %s %s %s" % ("None" if r["old"] is None else "(Some %s)" % hb(r["old"]), cq_cfg(r["cfg"]), hb(r["bytes"])),
                r, "rewrite:" + r["prior"].split(":")[0])
        elif r["t"] == "cfg":
            if "panic" in r:
                panics.append(r)
                continue
            cls = r["kind"].split(":")[0]
            if r["werr"]:
                dist["write-error"] = dist.get("write-error", 0) + 1
                continue
            nvalid += r["valid"]
            add("CWrite %s %s" % (cq_cfg(r["cfg"]), hb(r["bytes"])), r, "write:" + cls)
            add("CLoad %s %s" % (hb(r["bytes"]), "None" if r["lerr"] else "(Some %s)" % cq_cfg(r["loaded"])), r,
                "load:" + ("valid" if r["valid"] else "not-valid:" + ("error" if r["lerr"] else "changed")))
    ctx.coverage["evaluations"] = len(cases)
    ctx.coverage["distinct_nontrivial"] = len([1 for c in cases if c.startswith("CWrite") or (c.startswith("CLoad") and "(Some" in c)])
    ctx.coverage["rule"] = ("one evaluation = one model-vs-implementation comparison (written bytes of a configuration; result of loading "
                            "those bytes; one semver verdict; one CleanPath result), duplicates removed; configurations: ~125 string "
                            "classes (each control char, quotes, DEL, Latin-1, BMP, astral, empty, invalid UTF-8) x 9 positions, "
                            "version and path lists, 16 layouts, many-requirement maps, seeded random ones; non-trivial = written bytes "
                            "or successful loads; %d of the generated configurations are valid (oracle applies). Validity is decided "
                            "without the code under test (x/mod/semver; a reference clean form held to the model). Paths: all strings "
                            "over {a / . @ v 2 1} up to length 4, 'a@'/'x.y/z-w@' + every 1- and 2-digit major, 3-digit over {0,1,2,9}, "
                            "long digit runs, non-numeric suffixes, every 1- and 2-segment path over 17 '@'-bearing segments under 3 roots, "
                            "sampled 3-4 segment ones; every one of these strings that is in clean form (%s of %s) and every canonical "
                            "version string (%s of %s) is also a requirement of a packed whole configuration under the direct oracle; "
                            "failing configurations are shrunk before being reported. Rewriting in place: %s writes over a destination "
                            "that is not fresh (previous contents longer %s / shorter %s / same length %s / absent %s): every "
                            "configuration over the previous one's file, every valid one over a hand-written layout of itself, base "
                            "configurations x explicit previous states (these are also CRewrite cases of the model), %s steps of "
                            "load-modify-write histories; oracle = bytes equal a fresh write and load back as the configuration written"
                            % (nvalid, stats.get("paths_in_configs"), stats.get("path_strings"), stats.get("versions_in_configs"),
                               stats.get("version_strings"),
                               sum(v for k, v in rwstats.items() if k.startswith("family:")), rwstats.get("onto:longer"),
                               rwstats.get("onto:shorter"), rwstats.get("onto:same-length"), rwstats.get("onto:absent"),
                               rwstats.get("family:history")))
    ctx.coverage["free_form_fields"] = {
        "strings_by_domain": stats.get("free_form_strings"), "ignore_sequences": stats.get("ignore_sequences"),
        "near_pairs": stats.get("near_pairs"),
        "configurations": {k[6:]: v for k, v in dist.items() if k.startswith("write:free-")},
        "rule": "the quantifier restricts requirement versions and requirement paths only; project name, project version, ignore "
                "patterns and requirement names are free text that must come back verbatim.  Strings that mean something to "
                "another field's validator or to a plausible normaliser - the semver grammar enumerated (MAJOR[.MINOR[.PATCH]] x "
                "prerelease x build metadata; canonical / valid-not-canonical / not-semver decided by x/mod/semver), near-versions, "
                "clean and unclean path shapes, globs, padding, letter case, equivalent Unicode spellings, text that reads as "
                "another TOML type, the format's key words, references - are put in all four free positions at once and alone in "
                "a position; ignore patterns as sequences (all sequences <= 3 over {a, b, empty}, orders a sort would change, "
                "long lists); pairs a normalisation would identify side by side as two requirement names / two patterns.  The same "
                "strings feed the random configurations, rewrite histories and sessions, and the projects of the get/tidy runs."}
    ctx.coverage["rewrite_in_place"] = rwstats
    ctx.coverage["sessions"] = {
        "sessions": rwstats.get("sessions"), "by_family": {k[8:]: v for k, v in rwstats.items() if k.startswith("session:")},
        "operations": {k[11:]: v for k, v in rwstats.items() if k.startswith("session-op:")},
        "rule": "one session = WriteConfigFile / LoadConfigFile calls of ONE process in a fresh directory over 3 files and 16 spellings "
                "(clean, dir/./, dir//, dir/sub/.., through a directory link, a file link, a hard link, relative, ./relative, a "
                "re-pointed link), with changes of the working directory; enumerated: every ordered pair (load spelling, write "
                "spelling) of one file, a load before the first write, one spelling naming two files; oracle at every load of a "
                "file written in the session: it returns the last configuration written to that file, the file holds the bytes "
                "of a fresh write, writing what was loaded reproduces them; every session is also a CSession case of the model"}
    ctx.coverage["get_and_tidy"] = dict(cmdstats, rule=(
        "one run = RunE of `dawn get` / `dawn tidy` in-process on a generated project (canonical or hand-written dawn.toml) with "
        "$HOME in a scratch directory and https/ssh served by an in-process git server over repositories built by the harness "
        "(network up or down, module cache warm or cold); oracle: the file afterwards loads as the configuration before with "
        "the requirements that mvs.Get/UpgradeAll/Tidy yield for that command line (recomputed), or as the configuration "
        "before when the command failed, and writing what it loads as reproduces its bytes"))
    ctx.coverage["size_of_the_configuration"] = dict(sizestats, rule=(
        "the statement bounds neither the number of requirements or ignore patterns, nor the length of a string, nor the size of "
        "dawn.toml.  12 shapes (many requirements with bare / quoted multi-byte keys, many ignore patterns = one long line, a mixed "
        "project, one long string in each position: name as ASCII / two-byte characters / escapes, ignore pattern, requirement name bare / "
        "quoted, path, version), each a function (n, pad) -> configuration; for every target T (powers of two and of ten) and shape: "
        "the FILE exactly T-1, T, T+1 bytes long (pad sets the byte), n = T-1, T, T+1 entries (up to 2^12; 2^13 thorough) or bytes of "
        "one string; above 64 KiB four shapes, one size per target (go-toml's decoder is quadratic in the number of keys: requirement "
        "files stop at 256 KiB in the quick tier, 1 MiB thorough); alignment sweep: byte T of a 1.5 T file at every offset of a "
        "requirement line, T = 512, 4096, 65536 (every 2^9..2^17 thorough); seeded sizes in between.  Oracle on every case: written, "
        "loaded back equal, second write identical, then one requirement added in place and half removed in place (get / tidy), "
        "each loaded back equal.  The cases around 4096 bytes are also CWrite/CLoad cases of the model.  Not covered: files larger "
        "than max_bytes"))
    ctx.coverage["exhaustive"] = False
    ctx.coverage["correspondence"]["distribution"] = dist
    ctx.add_samples([{"config": show_cfg(r["cfg"]), "bytes": bytes.fromhex(r["bytes"]).decode("utf-8", "backslashreplace")}
                     for r in recs if r["t"] == "cfg" and r["kind"] in ("many-reqs", "all:quotes", "all:astral")][:4])

    # the size family: the failing input is the generator's parameters (shrunk to the smallest failing n) and the file dawn wrote
    groups = {}
    for r in size_oracles:
        groups.setdefault(r["name"], []).append(r)
    for name, rs in groups.items():
        r = min(rs, key=lambda x: x["size"]["serialised_bytes"])
        z = r["size"]
        ctx.violation("implementation violates C19 oracle %s on a configuration of %d bytes (%d requirements, %d ignore patterns, longest "
                      "string %d bytes; shape %s, n=%d): %s (%d failing configurations of %d sizes)"
                      % (name, z["serialised_bytes"], z["requirements"], z["ignore_patterns"], z["longest_string"], z["shape"], z["n"],
                         r["detail"][:200], len(rs), len(set(x["size"]["serialised_bytes"] for x in rs))),
                      {"oracle": name, "generator": z, "detail": r["detail"], "found_in": r["from"],
                       "dawn_toml_written_by_WriteConfigFile": r["text"], "text_is_head_and_tail_only": r["text_truncated"],
                       "failing_sizes": sorted(set(x["size"]["serialised_bytes"] for x in rs))[:40],
                       "failing_shapes": sorted(set(x["size"]["shape"] for x in rs)),
                       "how": "c := the configuration that dawn_toml_written_by_WriteConfigFile serialises (= c19sizeShapes()[shape].build(n, pad) "
                              "in harness/overlay/internal/project/zz_verif_c19_size_test.go); WriteConfigFile(p, c); LoadConfigFile(p) must "
                              "give c; WriteConfigFile of what was loaded must give the same bytes; then c plus one requirement "
                              "written over p and loaded, then c with every second requirement removed written over p and loaded "
                              "(detail names the step); smallest failing n of the shape found by bisection"},
                      key=name)
    groups = {}
    for r in oracles:
        groups.setdefault(r["name"], []).append(r)
    txt = lambda h: bytes.fromhex(h).decode("utf-8", "backslashreplace")
    for name, rs in groups.items():
        r = min(rs, key=lambda x: len(x["bytes"]) + len(x.get("old") or "") + len(json.dumps(x["cfg"])))
        shrunk = show_cfg(r["orig"]) if r.get("orig") and r["orig"] != r["cfg"] else None
        if "command" in r:   # dawn get / dawn tidy: the failing input is the project, the command line and the environment
            cm = r["command"]
            ctx.violation("implementation violates C19 oracle %s: `%s` (network %s, %s dawn.toml) on %s: %s (%d failing runs)"
                          % (name, cm["line"], "up" if cm["net"] else "down", cm["layout"], show_cfg(cm["cfg"]), r["detail"][:200], len(rs)),
                          {"oracle": name, "command_line": cm["line"], "network": "up" if cm["net"] else "down (every dial fails)",
                           "module_cache": ("lacks " + cm["cache_lacks"]) if cm["cache_lacks"] else "complete", "dawn_toml_layout": cm["layout"],
                           "dawn_toml_before": txt(cm["before"]), "dawn_toml_before_hex": cm["before"],
                           "loads_before_as": show_cfg(cm["cfg"]), "command_error": cm["err"],
                           "requirements_resolution_yields": None if cm["resolved"] is None else
                               {txt(n): {"path": txt(p), "version": txt(v)} for n, p, v in cm["resolved"]},
                           "dawn_toml_after": txt(cm["after"]), "dawn_toml_after_hex": cm["after"],
                           "loads_after_as": show_cfg(r["loaded_after"]) if r.get("loaded_after") else None,
                           "detail": r["detail"], "found_in": r.get("from"),
                           "how": "write dawn_toml_before to <root>/dawn.toml, point the workspace at <root>, run the command's RunE "
                                  "with the universe of harness/overlay/cmd/dawn/zz_verif_c19_cmd_test.go served in-process; "
                                  "LoadConfigFile(<root>/dawn.toml) must give loads_before_as with the requirements resolution yields "
                                  "(unchanged if the command failed)"},
                          key=name)
            continue
        if "session" in r:   # a process: the failing input is the sequence of operations
            se = r["session"]
            ctx.violation("implementation violates C19 oracle %s: after %s (%d failing sessions)"
                          % (name, "; ".join("%s(%s)" % (o["op"], o.get("spelling", o.get("to"))) for o in se["ops"]), len(rs)),
                          {"oracle": name, "operations": show_ops(se["ops"]), "failing_operation": se["failing_op"],
                           "files_exist_empty_at_start": se["init"], "last_configuration_written": show_cfg(r["cfg"]),
                           "detail": r["detail"], "found_in": r.get("from"),
                           "how": "in ONE process, in a fresh directory $W with real/, real/sub/, other/, link -> real, cur -> real, "
                                  "real/alias.toml -> dawn.toml (and real/hard.toml, a hard link, when real/dawn.toml exists at the "
                                  "start), working directory $W/real: the operations in order; every LoadConfigFile of a file that was "
                                  "written must return the last configuration written to that file through any spelling; "
                                  "harness/overlay/internal/project/zz_verif_c19_test.go (playSession)"},
                          key=name)
            continue
        if "fresh" in r:   # rewriting in place: the destination's previous state is part of the failing input
            was = "no file" if r["old"] is None else ("%d bytes %r" % (len(r["old"]) // 2, txt(r["old"])[:80]))
            ctx.violation("implementation violates C19 oracle %s: WriteConfigFile of %s over a destination holding %s (%d failing rewrites)"
                          % (name, show_cfg(r["cfg"]), was, len(rs)),
                          {"oracle": name, "config": show_cfg(r["cfg"]), "config_hex": r["cfg"],
                           "destination_before": None if r["old"] is None else txt(r["old"]), "destination_before_hex": r["old"],
                           "destination_is_symbolic_link": r.get("link", False),
                           "destination_after": txt(r["bytes"]), "destination_after_hex": r["bytes"],
                           "fresh_path_write": txt(r["fresh"]), "detail": r["detail"], "found_in": r.get("from"),
                           "history": [show_cfg(h) for h in r.get("history") or []] or None, "shrunk_from": shrunk,
                           "how": "os.WriteFile(path, destination_before); WriteConfigFile(path, cfg); os.ReadFile(path) must equal "
                                  "the bytes of WriteConfigFile(fresh, cfg) and LoadConfigFile(path) must give cfg; "
                                  "harness/overlay/internal/project/zz_verif_c19_test.go (rwDo)"},
                          key=name)
            continue
        ctx.violation("implementation violates C19 oracle %s on %s (%d failing configurations)" % (name, show_cfg(r["cfg"]), len(rs)),
                      {"oracle": name, "config": show_cfg(r["cfg"]), "config_hex": r["cfg"],
                       "written_bytes": txt(r["bytes"]), "detail": r["detail"],
                       "found_in": r.get("from"), "shrunk_from": shrunk,
                       "how": "WriteConfigFile(tmp, cfg); LoadConfigFile(tmp); WriteConfigFile again; "
                              "harness/overlay/internal/project/zz_verif_c19_test.go"},
                      key={"second-write-differs": "rewrite-not-stable"}.get(name, name))
    for r in panics:
        ctx.violation("config code panics (%s)" % r["panic"], {"config": show_cfg(r["cfg"]), "config_hex": r["cfg"]})

    # shards of equal estimated cost (term size), as many as coq_eval runs at once: cheap function-level cases and
    # expensive many-requirement configurations are spread evenly instead of in generation order
    import heapq
    nsh = max(1, min(14, len(cases) // 100))
    heap = [(0, k) for k in range(nsh)]
    buckets = [[] for _ in range(nsh)]
    for i in sorted(range(len(cases)), key=lambda i: -len(cases[i])):
        w, k = heapq.heappop(heap)
        buckets[k].append(i)
        heapq.heappush(heap, (w + len(cases[i]) + 200, k))
    exprs = ["mismatches [\n" + ";\n".join("(%s, %s)" % (cq_N(i), cases[i]) for i in sorted(b)) + "]" for b in buckets if b]
    okc, res, logs = ctx.coq_eval(HDR, exprs)
    if not okc:
        ctx.log("coq evaluation failed", logs[:1])
        ctx.violation("model evaluation failed", {"theorem_or_correspondence": "C19 cases.v evaluation", "log": logs[:2]},
                      found_input=False)
        return
    mism_all = [i for r in res for i in r]
    # loading a configuration OUTSIDE the property's quantifier (non-canonical version, unclean path, invalid UTF-8):
    # a disagreement there is recorded but is not a violation of C19 (the property does not constrain it)
    lenient = [i for i in mism_all if cases[i].startswith("CLoad") and not descr[i]["valid"]]
    mism = [i for i in mism_all if i not in lenient]
    ctx.coverage["correspondence"]["disagreements_outside_quantifier"] = len(lenient)
    if lenient:
        ctx.log("note: %d model/implementation differences when loading NOT-valid configurations (outside C19), e.g. %s"
                % (len(lenient), descr[lenient[0]]["kind"]))
    ctx.coverage["correspondence"]["cases"] = len(cases)
    ctx.coverage["hand_written_layout_notes"] = len(notes)
    if notes:
        # the harness's own TOML printer (hand-written layouts) produced a file that does not load, or loads as another
        # configuration: that file is then not used (or the loaded configuration is); not a statement about dawn
        ctx.log("note: %d hand-written layouts were not usable (%s), e.g. %s" % (len(notes), notes[0]["name"], show_cfg(notes[0]["cfg"])))
    ctx.coverage["correspondence"]["mismatches"] = len(mism)
    ctx.log("cases=%d mismatches=%d oracle_failures=%d valid_configs=%d" % (len(cases), len(mism), len(oracles), nvalid))
    if mism and not oracles and not panics:
        def ex(i):
            d = descr[i]
            if d["t"] == "cfg":
                return {"case": cases[i].split(" ")[0], "kind": d["kind"], "config": show_cfg(d["cfg"]),
                        "bytes": bytes.fromhex(d["bytes"]).decode("utf-8", "backslashreplace"),
                        "loaded": None if d["lerr"] else show_cfg(d["loaded"])}
            if d["t"] == "cmd":
                return {"case": "CCommand", "command_line": d["line"], "network_up": d["net"], "command_error": d["err"],
                        "dawn_toml_before": txt(d["before"]), "dawn_toml_after": txt(d["after"]),
                        "resolved": None if d["resolved"] is None else [[txt(x) for x in q] for q in d["resolved"]]}
            if d["t"] == "session":
                return {"case": "CSession", "kind": d["kind"], "operations": show_ops(d["ops"]), "files_left": d["final"]}
            if d["t"] == "rw":
                return {"case": "CRewrite", "previous_state": d["prior"], "config": show_cfg(d["cfg"]),
                        "destination_before": None if d["old"] is None else txt(d["old"]), "destination_after": txt(d["bytes"])}
            return d
        exs = [ex(i) for i in mism[:5]]
        ctx.violation("model/implementation disagree on %d cases, e.g. %s" % (len(mism), exs[0]),
                      {"theorem_or_correspondence": "correspondence Config/Model.v <-> config.go/version.go/go-toml/semver",
                       "disagreeing_cases": exs}, found_input=False)
    if proof_broken and not ctx.violations:
        ctx.violation("a C19 theorem no longer checks", {"theorem_or_correspondence": getattr(ctx, "broken_proof", {})},
                      found_input=False)
