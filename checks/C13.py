"""C13 — A dry run has no effects and predicts the real build."""
from checks.engine_common import run_engine

META = {
    "property_id": "C13",
    "technique": "Coq proof over a Gallina model of the build engine + history correspondence with fresh-process builds",
    "level_text": 'Theorems: dry_run_no_effects, dry_build_no_effects, load_refresh_invisible/idempotent, dry_run_transparent. Correspondence + oracle: tree hash (files + persisted state) unchanged by a dry Run, evaluating sets of dry and following real build equal.',
    "level_note": 'Trusted: as C01. dry_run_predicts is not yet a theorem (oracle + correspondence decide it).',
    "design_ref": "DESIGN.md §6 C13",
}


def run(ctx):
    run_engine(ctx, "C13", "Build/Props_C13.v", ["C13 "], 4,
               "Oracle: tree hash (files and persisted state) equal before/after a dry Run; the dry run's evaluating set equals the following real build's.")
