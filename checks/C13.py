"""C13 — A dry run has no effects and predicts the real build."""
import json
import os
import shutil
from lib.vlib import HARNESS, REPO
from checks.engine_common import run_engine

META = {
    "property_id": "C13",
    "technique": "Coq proof over a Gallina model of the build engine + history correspondence with fresh-process builds + "
                 "command-line oracle (every spelling of the dry-run option, one fresh dawn process per invocation)",
    "level_text": 'Theorems: dry_run_no_effects, dry_build_no_effects, load_refresh_invisible/idempotent, dry_run_transparent, dry_run_predicts_attempted (for every target the real build did not cut off below a failed dependency -- succeeded, own body failed, or unvisited -- the dry run reports evaluating iff the real build does: identical apart from targets downstream of a failure; under gens_unique), dry_run_predicts (its all-successful corollary). Correspondence + oracle: tree hash (files + persisted state) unchanged by a dry Run, evaluating sets of dry and following real build equal, incl. scripted always-target and in-process dry/reload/run scenarios; a dry Run over a dependency cycle whose error returns while a sibling target is still being evaluated: no body and no state change after Run has returned either. Command line (the layer that turns the option a user types into RunOptions.DryRun): every way the dawn command offers to ask for a dry run -- `dawn -n`, `dawn --dry-run`, `dawn build -n`, `--dry-run=true`, clustered with or next to -B/--always and the persistent options, with and without a target argument, from the root or a package directory, ~40 spellings -- each run as a fresh process on small projects (single target, chain, packages, always-target, failing body, random layered) in four states (untouched, loaded, built, source edited): no body runs, the tree incl. .dawn is what a load-only command leaves, the targets it prints are the targets the same invocation without the flag then attempts (apart from those downstream of a failing body), and without the flag the build builds.',
    "level_note": 'Trusted: as C01. What stragglers do after Run returned is decided by the harness (hook-held target), not by the sequential model. The command-line layer is held by oracle only (no model of cobra flag parsing); the status (terminal) renderer is not the one observed, standard output is a pipe.',
    "design_ref": "DESIGN.md §6 C13",
}


def run_cli(ctx):
    """The command-line layer: harness/overlay/cmd/dawn/zz_verif_c13_cli_test.go (oracle only)."""
    out = os.path.join(ctx.tmp, "c13-cli.jsonl")
    # a private go.mod/go.sum: `go` must not be able to rewrite /repo's own, whatever it decides
    for fn in ("go.mod", "go.sum"):
        shutil.copy(os.path.join(REPO, fn), os.path.join(ctx.tmp, "c13-" + fn))
    env = {"VERIF_OUT": out, "VERIF_SEED": str(ctx.seed), "VERIF_C13_SPELLINGS": "5" if ctx.quick() else "8",
           "VERIF_C13_RANDOM": "40" if ctx.quick() else "300"}
    rc, o = ctx.go_overlay_test("cmd/dawn",
                                {"zz_verif_c13_cli_test.go": os.path.join(HARNESS, "overlay/cmd/dawn/zz_verif_c13_cli_test.go")},
                                "^TestVerifC13CLI$", env, extra=["-modfile=" + os.path.join(ctx.tmp, "c13-go.mod")])
    if rc != 0 or not os.path.exists(out):
        ctx.log(o[-3000:])
        ctx.violation("command-line harness failed to build or run against /repo (exit %d)" % rc,
                      {"theorem_or_correspondence": "C13 command-line harness", "output": o[-3000:]}, found_input=False)
        return
    recs = [json.loads(l) for l in open(out)]
    groups = [r for r in recs if r["t"] == "group"]
    oracles = [r for r in recs if r["t"] == "ORACLE"]
    stats = next((r["counts"] for r in recs if r["t"] == "stats"), {})
    notes = [r for r in recs if r["t"] == "NOTE"]
    if notes:
        ctx.log("note: %d groups not played (%s)" % (len(notes), notes[0]["name"]))
    ndry = stats.get("invocations:dry", 0)
    ctx.coverage["evaluations"] = ctx.coverage.get("evaluations", 0) + ndry + stats.get("invocations:real", 0)
    ctx.coverage["command_line"] = {
        "groups": len(groups),
        "invocations": {k.split(":", 1)[1]: v for k, v in stats.items() if k.startswith("invocations:")},
        "dry_run_spellings": {k[4:]: v for k, v in sorted(stats.items()) if k.startswith("dry:")},
        "without_the_flag": {k[5:]: v for k, v in sorted(stats.items()) if k.startswith("real:")},
        "by_state": {k[6:]: v for k, v in stats.items() if k.startswith("state:")},
        "by_shape": {k[6:]: v for k, v in stats.items() if k.startswith("shape:")},
        "with_target_argument": stats.get("with-target-argument", 0),
        "from_package_directory": stats.get("from-package-directory", 0),
        "dry_runs_with_something_to_announce": sum(1 for g in groups for d in g["dry"] if d["announced"]),
        "real_builds_that_ran_bodies": sum(1 for g in groups if g.get("real") and g["real"]["bodies"]),
        "real_builds_that_failed": sum(1 for g in groups if g.get("real") and g["real"]["exit"] != 0),
        "oracle_failures": len(oracles),
        "rule": "one group = a generated project in a fresh directory, brought into a state (untouched / loaded by `dawn list targets` / "
                "built by `dawn` / built and one source edited; a marker makes one body fail) by real invocations, then several "
                "spellings of the dry run of one (always or not, target argument, working directory), then the same invocation "
                "without the flag; every invocation is a fresh process running main()'s rootCmd.Execute() with standard output a pipe; "
                "bodies append their label to a file outside the project. Spellings are dealt round-robin from the catalogue so "
                "that all of them run in every check run. Oracles: no body in a dry run; digest of every path under the root equal "
                "before/after (on an untouched tree: equal to what the load-only command leaves); labels printed 'evaluating...' by the "
                "dry run = those of the real invocation (minus downstream of the failing body when it fails), every body that runs was "
                "announced; without the flag the closure of the requested target runs, once each, on a never-built tree or with -B."}
    ctx.log("command line: groups=%d dry-runs=%d (%d spellings) real=%d oracle_failures=%d" % (
        len(groups), ndry, len(ctx.coverage["command_line"]["dry_run_spellings"]), stats.get("invocations:real", 0), len(oracles)))
    byname = {}
    for r in oracles:
        byname.setdefault(r["name"], []).append(r)
    for name, rs in byname.items():
        # the smallest failing project, and all the spellings that failed
        r = min(rs, key=lambda x: (len(json.dumps(x["group"]["files"])), len(x["group"].get("dry_args") or [])))
        g = r["group"]
        def spelling(x):   # the dry-run command line without its target argument
            a = x["group"]["dry_args"]
            return "dawn " + " ".join(a[:-1] if x["group"]["target"] and a[-1] == x["group"]["target"] else a)
        spellings = sorted({spelling(x) for x in rs if x["group"].get("dry_args")})
        ctx.violation("implementation violates C13 (command line) oracle %s: %s (%d failing invocations%s)" % (
            name, r["detail"][:400], len(rs), ("; spellings: " + ", ".join(spellings[:12])) if spellings else ""),
            {"oracle": name, "detail": r["detail"], "project_files": g["files"], "working_directory": g["cwd"],
             "prepare": g["prepare"], "dry_run_command_line": (["dawn"] + g["dry_args"]) if g.get("dry_args") else None,
             "then_without_the_flag": ["dawn"] + g["real_args"], "state": g["state"], "shape": g["shape"],
             "all_failing_spellings": spellings,
             "how": "write project_files into an empty directory <root> (in the bodies, the quoted path after >> is a log file of that target outside "
                    "the project, the one after `test ! -e` is <root>/fail.flag), run the prepare steps, then the dry-run command line "
                    "in working_directory: no body may run, the tree under <root> may not change, and the labels it prints "
                    "'evaluating...' must be those the command line without the flag then prints; "
                    "harness/overlay/cmd/dawn/zz_verif_c13_cli_test.go (VERIF_SEED=%d)" % ctx.seed})


def run(ctx):
    run_engine(ctx, "C13", "Build/Props_C13.v", ["C13 "], 4,
               "Oracle: tree hash (files and persisted state) equal before/after a dry Run; the dry run's evaluating set equals the following real build's.")
    run_cli(ctx)
