"""C13 — A dry run has no effects and predicts the real build."""
from checks.engine_common import run_engine

META = {
    "property_id": "C13",
    "technique": "Coq proof over a Gallina model of the build engine + history correspondence with fresh-process builds",
    "level_text": 'Theorems: dry_run_no_effects, dry_build_no_effects, load_refresh_invisible/idempotent, dry_run_transparent, dry_run_predicts (evaluating sets of the dry run and of a fully successful real build coincide, under gens_unique). Correspondence + oracle: tree hash (files + persisted state) unchanged by a dry Run, evaluating sets of dry and following real build equal, incl. scripted always-target and in-process dry/reload/run scenarios.',
    "level_note": 'Trusted: as C01. The failing-body half of the prediction statement (identical apart from targets downstream of the failure) is decided by oracle + correspondence only.',
    "design_ref": "DESIGN.md §6 C13",
}


def run(ctx):
    run_engine(ctx, "C13", "Build/Props_C13.v", ["C13 "], 4,
               "Oracle: tree hash (files and persisted state) equal before/after a dry Run; the dry run's evaluating set equals the following real build's.")
