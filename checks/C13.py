"""C13 — A dry run has no effects and predicts the real build."""
from checks.engine_common import run_engine

META = {
    "property_id": "C13",
    "technique": "Coq proof over a Gallina model of the build engine + history correspondence with fresh-process builds",
    "level_text": "placeholder",
    "level_note": "placeholder",
    "design_ref": "DESIGN.md §6 C13",
}


def run(ctx):
    run_engine(ctx, "C13", "Build/Props_C13.v", ["C13 "], 4,
               "Oracle: tree hash (files and persisted state) equal before/after a dry Run; the dry run's evaluating set equals the following real build's.")
