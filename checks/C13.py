"""C13 — A dry run has no effects and predicts the real build."""
from checks.engine_common import run_engine

META = {
    "property_id": "C13",
    "technique": "Coq proof over a Gallina model of the build engine + history correspondence with fresh-process builds",
    "level_text": 'Theorems: dry_run_no_effects, dry_build_no_effects, load_refresh_invisible/idempotent, dry_run_transparent, dry_run_predicts_attempted (for every target the real build did not cut off below a failed dependency -- succeeded, own body failed, or unvisited -- the dry run reports evaluating iff the real build does: identical apart from targets downstream of a failure; under gens_unique), dry_run_predicts (its all-successful corollary). Correspondence + oracle: tree hash (files + persisted state) unchanged by a dry Run, evaluating sets of dry and following real build equal, incl. scripted always-target and in-process dry/reload/run scenarios; a dry Run over a dependency cycle whose error returns while a sibling target is still being evaluated: no body and no state change after Run has returned either.',
    "level_note": 'Trusted: as C01. What stragglers do after Run returned is decided by the harness (hook-held target), not by the sequential model.',
    "design_ref": "DESIGN.md §6 C13",
}


def run(ctx):
    run_engine(ctx, "C13", "Build/Props_C13.v", ["C13 "], 4,
               "Oracle: tree hash (files and persisted state) equal before/after a dry Run; the dry run's evaluating set equals the following real build's.")
