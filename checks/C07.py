"""C07 — Pickle codec round-trips every value exactly.

Also hosts the machinery shared with C15 (value descriptions, dump parser, Coq rendering, constants
translator, the pickle-package harness driver)."""
import os
import random
import re
import resource
import struct
from lib.vlib import *

META = {
    "property_id": "C07",
    "technique": "Coq proof over a Gallina model of pickle/encode.go + decode.go (heap with sharing and cycles) + "
                 "byte-exact correspondence on generated value graphs; opcode constants regenerated from the source on every run; "
                 "instance isolation: the same values encoded/decoded by several codec instances run interleaved under seeded "
                 "schedules must give the bytes/graphs of the stand-alone runs",
    "level_text": "Theorems (Coq, unbounded): decode(encode v) = v for every integer (all four width classes incl. the decimal "
                  "INT form, with a proved UnmarshalText(MarshalText z) = z), every string/bytes of length < 2^32, every float, "
                  "every arbitrarily nested immutable value (tree_roundtrip, tuples of any arity; tree_encodable: the encoder "
                  "accepts them all); encode_terminates: with the fuel enc_fuel = 1 + depth + |heap| * (2 + deepest stored value) "
                  "the encoder never runs out of fuel on ANY heap (shared and cyclic lists/dicts/sets, dangling references and "
                  "failing picklers included) in which no object taken by the host pickler is reachable from its own constructor "
                  "arguments (encode_terminates_no_host: unconditional without host objects); heap_encodable: it returns bytes "
                  "on every encodable graph; heap_roundtrip: for lists, dicts and sets of any size (any number of batches) AND "
                  "objects taken by an object-preserving host pickler/unpickler pair, nested, shared and self-referential, the "
                  "constructor arguments of host objects being arbitrary mutable/shared/cyclic values, the decoded graph is "
                  "isomorphic to the source graph (one-to-one object correspondence preserving kinds, module/name, contents, "
                  "order and sharing; cycles included); same_encoding_iso / tree_distinct: values that differ never decode "
                  "equal; obj_roundtrip: closed form for a host object with immutable arguments. host_selfref_diverges and "
                  "host_cycle_roundtrip_refuted show that the host_acyclic hypothesis is necessary, with witnesses on which "
                  "the Go code behaves as the model says (fatal stack overflow; a decoded graph with the object duplicated). "
                  "The model is tied to encode.go/decode.go by byte-exact comparison of encodings and "
                  "exact comparison of canonical graph dumps on generated values (every width boundary, length class, "
                  "container size class at every nesting position, aliasing patterns, host objects shared/nested). "
                  "interleaved_codecs_isolated: for any number of encoder instances whose Write calls are interleaved by any "
                  "schedule, every Writer ends up with exactly its instance's stand-alone encoding, which decodes to a graph "
                  "isomorphic to that instance's value; the premise that instances share no state is checked on the code by the "
                  "isolation harness (cooperative scheduler with hand-over at every Write/Read/Pickle/Unpickle call-out, "
                  "policies rr/rand/burst, readers delivering 1..n bytes per call, plus free-running goroutines over io.Pipe): "
                  "every round-trip case and an opcode zoo, each instance compared byte-for-byte with its run alone.",
    "level_note": "Trusted: Coq kernel; the model's transcription of Go (validated by the correspondence run only); Go's "
                  "hash function for dict/set keys is abstracted to key equality (exact unless unequal tuple keys nested "
                  "deeper than 10 collide in a 32-bit hash). Host objects that reach themselves through their own "
                  "constructor arguments are excluded by hypothesis (host_acyclic): a directly self-referential one overflows "
                  "the Go stack, one that reaches itself through a list/dict is encoded without error and decodes to a graph "
                  "with two copies of it (both proved of the model and reproduced on the code; dawn's recursionPickler "
                  "avoids them with a placeholder). This is the known finding key=host-object-reaches-itself: the second "
                  "shape is a directed case of every run (its round-trip oracle failure is reported as KNOWN-FINDING, any "
                  "other oracle failure is a VIOLATION), the first runs in a process of its own in the thorough tier. heap_roundtrip's host part is for the object-preserving pair of the "
                  "harness (host_pair), not for dawn's envPickler/envUnpickler, which rebuilds functions (C08/C01 territory). "
                  "Only *List/*Dict among Sequence/IterableMapping hosts. iso is proved an equivalence on well-formed graphs and the "
                  "consequently clause holds for heaps (heap_distinct); for dawn's own pair the round trip is refuted for every "
                  "object kind (env_roundtrip_never_iso), only the clause on stamps holds (env_stamp_injective). Isolation: the "
                  "deterministic schedules interleave instances only at call-outs of the package; state shared between instances "
                  "that is written and read with no call-out in between is only reachable by the free-running groups (real "
                  "parallelism, detection not deterministic).",
    "design_ref": "DESIGN.md §6 C07",
}

# Known finding (findings/known_findings.txt): an object taken by the host pickler that is reachable from its own
# constructor arguments.  The NEWOBJ protocol cannot refer to an object before its arguments exist; the library neither
# rejects such a value nor breaks the cycle (dawn's recursionPickler does, with a placeholder).
KNOWN_HOST_CYCLE = "host-object-reaches-itself"
KNOWN_HOST_CYCLE_CLASS = "known:host-object-reaches-itself"
# shape 1 (thorough tier only, own process): the object is its own argument -> fatal stack overflow in Encoder.encode
HOST_SELF_DESC = "O76.48[@0]|=@0"

HDR = "From Dawn Require Import Pickle.Model Pickle.Run.\nOpen Scope list_scope.\nOpen Scope N_scope.\n"

GENCONSTS = os.path.join(HARNESS, "genconsts")
GEN_V = os.path.join(COQ, "Gen", "Opcodes.v")


def raise_stack():
    try:
        soft, hard = resource.getrlimit(resource.RLIMIT_STACK)
        resource.setrlimit(resource.RLIMIT_STACK, (hard, hard))
    except Exception:
        pass


# ---------------------------------------------------------------------------------------------------
# constants translator


def regen_constants(ctx):
    """Re-run the constants translator on the current sources (honouring VERIF_REPLACE). Returns True when
    Gen/Opcodes.v is up to date with the code; records a violation (found_input=False) otherwise."""
    rep = env_replace()
    opc = rep.get(os.path.join(REPO, "pickle/opcodes.go"), os.path.join(REPO, "pickle/opcodes.go"))
    enc = rep.get(os.path.join(REPO, "pickle/encode.go"), os.path.join(REPO, "pickle/encode.go"))
    rc, out = sh(["go", "run", ".", "-opcodes", opc, "-encode", enc, "-out", GEN_V], cwd=GENCONSTS, env=GOENV, timeout=300)
    if rc != 0:
        ctx.log("genconsts failed:", out[-1500:])
        ctx.violation("constants translator cannot find a constant in pickle/opcodes.go / encode.go: %s" % out.strip()[-300:],
                      {"theorem_or_correspondence": "Gen/Opcodes.v <-> pickle/opcodes.go, pickle/encode.go (constants translator)",
                       "output": out[-1500:]}, found_input=False)
        return False
    return True


class GenGuard:
    """Keeps the commit-time copy of Gen/Opcodes.v when the run is a what-if experiment (VERIF_REPLACE)."""

    def __enter__(self):
        self.saved = open(GEN_V).read() if os.environ.get("VERIF_REPLACE") and os.path.exists(GEN_V) else None
        return self

    def __exit__(self, *a):
        if self.saved is not None and open(GEN_V).read() != self.saved:
            with open(GEN_V, "w") as f:
                f.write(self.saved)
        return False


# ---------------------------------------------------------------------------------------------------
# value descriptions
#   value: ("N",) ("T",) ("F",) ("I", int) ("G", bits) ("S", bytes) ("B", bytes) ("t", [values]) ("@", k)
#   node : ("L", [values]) ("D", [k, v, k, v, ...]) ("E", [values]) ("O", module bytes, name bytes, [values])


def I(n):
    return ("I", n)


def S(b):
    return ("S", b if isinstance(b, bytes) else b.encode())


def B(b):
    return ("B", b)


def T(*xs):
    return ("t", list(xs))


def R(k):
    return ("@", k)


NONE, TRUE, FALSE = ("N",), ("T",), ("F",)


def pattern(n, seed):
    return bytes((seed + 7 * i) % 256 for i in range(n))


def fbits(x):
    return struct.unpack("<Q", struct.pack("<d", x))[0]


def go_val(v):
    t = v[0]
    if t in "NTF":
        return t
    if t == "I":
        return "I%d" % v[1]
    if t == "G":
        return "G%016x" % v[1]
    if t in "SB":
        return t + v[1].hex()
    if t == "t":
        return "t(" + ",".join(go_val(x) for x in v[1]) + ")"
    if t == "@":
        return "@%d" % v[1]
    raise ValueError(v)


def go_desc(nodes, root):
    out = []
    for n in nodes:
        if n[0] == "O":
            out.append("O%s.%s[%s]|" % (n[1].hex(), n[2].hex(), ",".join(go_val(x) for x in n[3])))
        else:
            out.append("%s[%s]|" % (n[0], ",".join(go_val(x) for x in n[1])))
    return "".join(out) + "=" + go_val(root)


class Render:
    """Coq rendering with compaction of long patterned byte strings and of runs of consecutive integers."""

    def __init__(self, patterns=()):
        # patterns: list of (n, seed) used by the case
        self.pats = sorted(((pattern(n, s), n, s) for n, s in patterns), key=lambda p: -len(p[0]))

    def bytes(self, b):
        if len(b) <= 1200:
            return cq_bytes(b)
        for pb, n, s in self.pats:
            if len(pb) >= 600:
                i = b.find(pb)
                if i >= 0:
                    parts = []
                    if i:
                        parts.append(self.bytes(b[:i]))
                    parts.append("pat %d %d" % (n, s))
                    if i + len(pb) < len(b):
                        parts.append(self.bytes(b[i + len(pb):]))
                    return "(" + " ++ ".join(parts) + ")"
        return "(" + " ++ ".join(cq_bytes(b[i:i + 1200]) for i in range(0, len(b), 1200)) + ")"

    def seq(self, items, one, run_fn, ty):
        """items: list of values; one: renderer; run_fn: name of the Coq run constructor (ints/cints)."""
        parts, cur = [], []
        i = 0
        while i < len(items):
            j = i
            while (j + 1 < len(items) and items[j][0] == "I" and items[j + 1][0] == "I"
                   and items[j + 1][1] == items[j][1] + 1):
                j += 1
            if j - i + 1 >= 8 and items[i][0] == "I":
                if cur:
                    parts.append("[" + "; ".join(cur) + "]")
                    cur = []
                parts.append("%s (%d)%%Z %d%%nat" % (run_fn, items[i][1], j - i + 1))
                i = j + 1
            else:
                cur.append(one(items[i]))
                i += 1
                if len(cur) >= 400:
                    parts.append("[" + "; ".join(cur) + "]")
                    cur = []
        if cur:
            parts.append("[" + "; ".join(cur) + "]")
        if not parts:
            return "(@nil %s)" % ty
        if len(parts) == 1 and parts[0].startswith("["):
            return parts[0]
        return "(" + " ++ ".join(parts) + ")"

    def val(self, v):
        t = v[0]
        if t == "N":
            return "VNone"
        if t == "T":
            return "(VBool true)"
        if t == "F":
            return "(VBool false)"
        if t == "I":
            return "(VInt (%d)%%Z)" % v[1]
        if t == "G":
            return "(VFloat %d)" % v[1]
        if t == "S":
            return "(VStr %s)" % self.bytes(v[1])
        if t == "B":
            return "(VBytes %s)" % self.bytes(v[1])
        if t == "t":
            return "(VTuple %s)" % self.seq(v[1], self.val, "ints", "val")
        if t == "@":
            return "(VRef %d%%nat)" % v[1]
        raise ValueError(v)

    def pairs(self, flat):
        ps = ["(%s, %s)" % (self.val(flat[i]), self.val(flat[i + 1])) for i in range(0, len(flat) - 1, 2)]
        if not ps:
            return "(@nil (val * val))"
        chunks = ["[" + "; ".join(ps[i:i + 300]) + "]" for i in range(0, len(ps), 300)]
        return chunks[0] if len(chunks) == 1 else "(" + " ++ ".join(chunks) + ")"

    def heap(self, nodes):
        out = []
        for n in nodes:
            if n[0] == "L":
                out.append("NList %s" % self.seq(n[1], self.val, "ints", "val"))
            elif n[0] == "E":
                out.append("NSet %s" % self.seq(n[1], self.val, "ints", "val"))
            elif n[0] == "D":
                out.append("NDict %s" % self.pairs(n[1]))
            else:
                out.append("NObj %s %s %s" % (self.bytes(n[1]), self.bytes(n[2]), self.seq(n[3], self.val, "ints", "val")))
        return cq_list(out, "node")

    # -- dumps (parsed from the harness' text) ------------------------------------------------------
    def cv(self, d):
        t = d[0]
        if t == "N":
            return "CNone"
        if t == "T":
            return "(CBool true)"
        if t == "F":
            return "(CBool false)"
        if t == "I":
            return "(CInt (%d)%%Z)" % d[1]
        if t == "G":
            return "(CFloat %d)" % d[1]
        if t == "S":
            return "(CStr %s)" % self.bytes(d[1])
        if t == "B":
            return "(CBytes %s)" % self.bytes(d[1])
        if t == "t":
            return "(CTuple %s)" % self.seq(d[1], self.cv, "cints", "cv")
        if t in "LDE":
            return "(%s %d %s)" % ({"L": "CList", "D": "CDict", "E": "CSet"}[t], d[1], self.seq(d[2], self.cv, "cints", "cv"))
        if t == "O":
            return "(CObj %d %s %s %s)" % (d[1], self.bytes(d[2]), self.bytes(d[3]), self.seq(d[4], self.cv, "cints", "cv"))
        if t == "@":
            return "(CBack %d)" % d[1]
        if t == "M":
            return "CMark"
        if t == "g":
            return "(CGlobal %s %s)" % (self.bytes(d[1]), self.bytes(d[2]))
        return "CBad"


_HEX = re.compile(r"[0-9a-f]*")
_NUM = re.compile(r"-?[0-9]+")


def parse_dump(s):
    """Parse the harness' canonical dump into a tree: same shapes as values, heap objects carry ids:
    ("L", id, [..]) ("D", id, [..]) ("E", id, [..]) ("O", id, m, n, [..]) ("@", id) ("M",) ("g", m, n) ("?", text)"""
    pos = 0

    def hexs():
        nonlocal pos
        m = _HEX.match(s, pos)
        pos = m.end()
        return bytes.fromhex(m.group(0))

    def num():
        nonlocal pos
        m = _NUM.match(s, pos)
        pos = m.end()
        return int(m.group(0))

    def vals(end):
        nonlocal pos
        out = []
        while s[pos] != end:
            out.append(value())
            if s[pos] == ",":
                pos += 1
        pos += 1
        return out

    def value():
        nonlocal pos
        c = s[pos]
        pos += 1
        if c in "NTFM":
            return (c,)
        if c == "I":
            return ("I", num())
        if c == "G":
            v = int(s[pos:pos + 16], 16)
            pos += 16
            return ("G", v)
        if c in "SB":
            return (c, hexs())
        if c == "t":
            pos += 1
            return ("t", vals(")"))
        if c in "LDE":
            i = num()
            pos += 1
            return (c, i, vals("]"))
        if c == "O":
            i = num()
            pos += 1
            m = hexs()
            pos += 1
            n = hexs()
            pos += 1
            return ("O", i, m, n, vals("]"))
        if c == "@":
            return ("@", num())
        if c == "g":
            m = hexs()
            pos += 1
            return ("g", m, hexs())
        pos = len(s)
        return ("?", s)

    return value()


# ---------------------------------------------------------------------------------------------------
# generators (C07)

INT_BOUNDARIES = [0, 1, 255, 256, 257, 65535, 65536, 65537, 2**31 - 1, 2**31, -1, -255, -256, -65536, -2**31, -2**31 - 1,
                  2**32, -2**32, 2**63 - 1, 2**63, -2**63, -2**63 - 1, 2**64 + 1, -(2**64 + 1), 10**30, -10**30]
STR_LENGTHS = [0, 1, 255, 256, 257, 65535, 65536]
SIZES = [0, 1, 2, 3, 4, 5, 999, 1000, 1001, 2000, 2001]
FLOATS = [fbits(0.0), fbits(-0.0), fbits(1.5), fbits(1.0), fbits(-2.5e300), fbits(float("inf")), fbits(float("-inf")),
          0x7ff8000000000000, 0x7ff8000000000001, 0xfff0000000000001, 1, 0x000fffffffffffff, 0x0010000000000000]


def container(kind, n, nodes, rng, special=None):
    """A container of the given kind with n elements (distinct ints; `special` replaces element n//2 for
    kinds that accept it). Returns the value; may add a node."""
    items = [I(i) for i in range(n)]
    if special is not None and n > 0 and kind in ("t", "L"):
        items[n // 2] = special
    if kind == "t":
        return ("t", items)
    if kind == "L":
        nodes.append(("L", items))
    elif kind == "E":
        nodes.append(("E", items))
    elif kind == "D":
        flat = []
        for i in range(n):
            flat += [I(i), I(1000 + i) if special is None or i != n // 2 else special]
        nodes.append(("D", flat))
    return R(len(nodes) - 1)


POSITIONS = ["root", "tuple1", "tuple2", "tuple3", "tuple5", "list1", "listn", "dictkey", "dictval", "setelem", "objarg",
             "listlist"]


def place(pos, v, nodes):
    """Put value v at the given nesting position; returns the root (may add nodes)."""
    hashable_needed = pos in ("dictkey", "setelem")
    if hashable_needed and not is_hashable(v):
        return None
    if pos == "root":
        return v
    if pos == "tuple1":
        return T(v)
    if pos == "tuple2":
        return T(I(7), v)
    if pos == "tuple3":
        return T(v, S("x"), NONE)
    if pos == "tuple5":
        return T(I(1), I(2), v, I(4), I(5))
    if pos == "list1":
        nodes.append(("L", [v]))
    elif pos == "listn":
        nodes.append(("L", [I(1), v, S("z"), v]))
    elif pos == "dictkey":
        nodes.append(("D", [S("a"), I(1), v, I(2), S("b"), I(3)]))
    elif pos == "dictval":
        nodes.append(("D", [S("a"), v, S("b"), v]))
    elif pos == "setelem":
        nodes.append(("E", [S("a"), v, I(-1)]))
    elif pos == "objarg":
        nodes.append(("O", b"mod", b"Name", [I(1), v]))
    elif pos == "listlist":
        nodes.append(("L", [v]))
        nodes.append(("L", [R(len(nodes) - 1), R(len(nodes) - 1)]))
    return R(len(nodes) - 1)


def is_hashable(v):
    if v[0] == "@":
        return False
    if v[0] == "t":
        return all(is_hashable(x) for x in v[1])
    return True


def gen_c07(rng, quick):
    """Returns list of (class, nodes, root, patterns)."""
    cases = []

    def add(cls, nodes, root, pats=()):
        if root is not None:
            cases.append((cls, nodes, root, tuple(pats)))

    # integers: every boundary, neighbours, random members of each class
    ints = set(INT_BOUNDARIES)
    for lo, hi in [(0, 255), (256, 65535), (65536, 2**31 - 1), (-2**31, -1), (2**31, 2**64), (-2**64, -2**31 - 1),
                   (2**64, 2**200), (-2**200, -2**64)]:
        for _ in range(6 if quick else 60):
            ints.add(rng.randint(lo, hi))
    for z in sorted(ints):
        add("int", [], I(z))
    add("int-in-container", [("L", [I(z) for z in INT_BOUNDARIES])], R(0))
    for b in FLOATS + [rng.getrandbits(64) for _ in range(10 if quick else 200)]:
        add("float", [], ("G", b))
    for v in (NONE, TRUE, FALSE):
        add("scalar", [], v)
    # strings / bytes: every length class
    seed = 0
    for n in STR_LENGTHS + [rng.randint(2, 254), rng.randint(258, 5000)]:
        for mk in ("S", "B"):
            seed += 1
            add("string-len", [], (mk, pattern(n, seed)), [(n, seed)])
    for n in (255, 256, 65536):
        seed += 1
        for pos in ("tuple2", "list1", "dictval", "setelem", "objarg"):
            nodes = []
            add("string-nested", nodes, place(pos, ("S", pattern(n, seed)), nodes), [(n, seed)])
    add("string-utf8", [], S("héllo 世界"))
    # container sizes at every nesting position
    kinds = ["t", "L", "D", "E"]
    for kind in kinds:
        for n in SIZES:
            poss = POSITIONS
            if quick and n > 5:
                poss = ["root"] + rng.sample(POSITIONS[1:], 3)
            elif quick:
                poss = ["root"] + rng.sample(POSITIONS[1:], 5)
            for pos in poss:
                nodes = []
                v = container(kind, n, nodes, rng)
                add("size:%s:%s" % (kind, "big" if n > 5 else "small"), nodes, place(pos, v, nodes))
    # nested containers inside big containers (the F5 shape): a big list whose middle element is a big list
    for outer in ("t", "L", "D"):
        for inner in ("L", "D", "E", "t"):
            for n, m in ((1001, 3), (3, 1001), (1001, 1001), (2001, 1000)) if not quick else ((1001, 3), (1001, 1001)):
                nodes = []
                iv = container(inner, m, nodes, rng)
                add("nested-big", nodes, container(outer, n, nodes, rng, special=iv))
    # aliasing patterns
    add("alias:same-list-twice", [("L", [I(1), I(2)])], T(R(0), R(0)))
    add("alias:same-list-twice-in-list", [("L", [I(1)]), ("L", [R(0), R(0), R(0)])], R(1))
    add("alias:self-list", [("L", [R(0)])], R(0))
    add("alias:self-list-n", [("L", [I(1), R(0), I(2), R(0)])], R(0))
    add("alias:mutual-lists", [("L", [R(1), I(1)]), ("L", [I(2), R(0)])], R(0))
    add("alias:dict-own-value", [("D", [S("self"), R(0), S("n"), I(1)])], R(0))
    add("alias:diamond", [("L", [R(1), R(2)]), ("L", [R(3)]), ("L", [R(3), I(0)]), ("L", [S("d")])], R(0))
    add("alias:diamond-dict-set", [("D", [I(1), R(1), I(2), R(1), I(3), R(2)]), ("E", [I(1), T(I(2), S("x"))]), ("L", [R(1), R(0)])], R(0))
    add("alias:tuple-shared-list", [("L", [])], T(T(R(0)), T(R(0), R(0))))
    add("alias:list-in-own-tuple", [("L", [T(R(0), I(1))])], R(0))
    add("alias:obj-shared", [("O", b"m", b"n", [I(1)]), ("L", [R(0), R(0)])], T(R(1), R(0)))
    add("alias:obj-nested", [("O", b"m", b"Outer", [R(1), R(2)]), ("O", b"m", b"Inner", [S("a")]), ("L", [R(1)])], R(0))
    add("alias:obj-with-cyclic-list", [("O", b"m", b"n", [R(1)]), ("L", [R(1), I(3)])], T(R(0), R(1)))
    add("alias:list-holding-obj-holding-nothing", [("L", [R(1), R(1)]), ("O", b"", b"", [])], R(0))
    # directed case of the known finding (shape 2, Props_C07.host_cycle_roundtrip_refuted: cyc_heap): a host object whose
    # argument is a list containing the object -- O76.48[@1]|L[@0]|=@0 -- encodes without error, decodes to two copies
    add(KNOWN_HOST_CYCLE_CLASS, [("O", b"v", b"H", [R(1)]), ("L", [R(0)])], R(0))
    add("alias:big-self", [("L", [I(i) for i in range(1000)] + [R(0)] + [I(i) for i in range(1001, 2002)])], R(0))
    # more than 256 memoized objects: LONG_BINGET
    many = [("L", [I(i)]) for i in range(300)]
    many.append(("L", [R(i) for i in range(300)] + [R(299), R(256), R(255), R(0)]))
    add("alias:long-binget", many, R(300))
    # random graphs
    for k in range(40 if quick else 1500):
        nodes, root = random_graph(rng)
        add("random-graph", nodes, root)
    return cases


def random_immutable(rng, depth=0, hashable=True):
    r = rng.random()
    if r < 0.3:
        return I(rng.choice(INT_BOUNDARIES) if rng.random() < 0.5 else rng.randint(-70000, 70000))
    if r < 0.45:
        return S(bytes(rng.randrange(97, 123) for _ in range(rng.randrange(0, 6))))
    if r < 0.55:
        return B(bytes(rng.randrange(256) for _ in range(rng.randrange(0, 5))))
    if r < 0.62:
        return rng.choice([NONE, TRUE, FALSE])
    if r < 0.7:
        return ("G", rng.choice(FLOATS[2:5] + [fbits(rng.random() * 1000 + 0.5)]))
    if depth < 3:
        return ("t", [random_immutable(rng, depth + 1) for _ in range(rng.choice([0, 1, 2, 3, 4, 6]))])
    return I(rng.randint(0, 300))


def key_id(v):
    """identity under Starlark key equality for the generated (hashable, immutable) keys"""
    t = v[0]
    if t == "I":
        return ("num", v[1])
    if t == "G":
        f = struct.unpack("<d", struct.pack("<Q", v[1]))[0]
        if f != f:
            return ("nan",)
        if f in (float("inf"), float("-inf")):
            return ("inf", f > 0)
        if f == int(f):
            return ("num", int(f))
        return ("num", f)
    if t == "t":
        return ("t",) + tuple(key_id(x) for x in v[1])
    return v


def random_graph(rng):
    n = rng.randint(1, 6)
    kinds = [rng.choice("LLDDEO") for _ in range(n)]
    first_obj = min([i for i, k in enumerate(kinds) if k == "O"] + [n])
    nodes = []

    def ref_or_val(i):
        # nodes at or after the first host object only refer upwards (no cycle through a host object)
        lo = i + 1 if i >= first_obj else 0
        if rng.random() < 0.5 and lo < n:
            return R(rng.randrange(lo, n))
        return random_immutable(rng)

    for i, k in enumerate(kinds):
        m = rng.choice([0, 1, 1, 2, 3, 4, 5])
        if k == "L":
            nodes.append(("L", [ref_or_val(i) for _ in range(m)]))
        elif k == "O":
            nodes.append(("O", rng.choice([b"dawn", b"m", b""]), rng.choice([b"Thing", b"Function", b"x" * 300]),
                          [ref_or_val(i) for _ in range(m)]))
        elif k == "E":
            seen, items = set(), []
            for _ in range(m):
                v = random_immutable(rng)
                if key_id(v) not in seen:
                    seen.add(key_id(v))
                    items.append(v)
            nodes.append(("E", items))
        else:
            seen, flat = set(), []
            for _ in range(m):
                kx = random_immutable(rng)
                if key_id(kx) not in seen:
                    seen.add(key_id(kx))
                    flat += [kx, ref_or_val(i)]
            nodes.append(("D", flat))
    root = R(0) if rng.random() < 0.6 else ("t", [R(rng.randrange(n)) for _ in range(rng.randint(1, 5))])
    return nodes, root


# ---------------------------------------------------------------------------------------------------
# instance isolation: the same values, encoded and decoded by several codec instances run interleaved
# (harness/overlay/pickle/zz_verif_c07_conc_test.go); every instance must behave exactly as it does alone

COOP_POLICIES = ["rr", "rand", "burst"]


def opcode_zoo():
    """Small values that between them emit every opcode the encoder has (one-byte opcodes, opcodes with operands,
    the decimal INT form, both string headers, MARK-delimited and short tuples, every container kind, host objects,
    BINGET) -- so that in a pair of different zoo members the two streams differ at almost every write."""
    z = []

    def add(nodes, root):
        z.append(("zoo", nodes, root))

    for v in (NONE, TRUE, FALSE, I(0), I(255), I(256), I(65536), I(-1), I(2**31), I(-10**30), ("G", fbits(1.5)), S(""), S("ab"),
              B(b""), B(b"\x00\xff"), S("x" * 256), T(), T(NONE), T(I(1), I(2)), T(I(1), I(2), I(3)), T(I(1), I(2), I(3), I(4)),
              T(T(TRUE), T(FALSE, NONE))):
        add([], v)
    for node in (("L", []), ("L", [NONE]), ("L", [I(1), I(2)]), ("D", []), ("D", [S("k"), TRUE]), ("D", [I(1), I(2), I(3), I(4)]),
                 ("E", []), ("E", [FALSE]), ("E", [S("a"), S("b")]), ("O", b"m", b"N", []), ("O", b"mod", b"Name", [NONE, I(7)])):
        add([node], R(0))
    add([("L", [R(0)])], R(0))
    add([("L", [I(1)])], T(R(0), R(0)))
    add([("O", b"m", b"n", [R(1)]), ("L", [TRUE])], T(R(0), R(0), R(1)))
    return z


def gen_isolation(rng, cases, quick):
    """Groups of codec instances to run interleaved: list of (gid, policy, seed, chunk, [(member id, class, description)]).
    Every generated round-trip case (all classes of gen_c07) is a member of at least one cooperative group; the opcode zoo is
    paired systematically; a few groups run free on real goroutines."""
    groups = []

    def add(policy, chunk, members):
        if len(members) >= 1:
            groups.append((len(groups), policy, rng.randrange(1, 2**31), chunk, members))

    zoo = [("z%d" % k, c[0], go_desc(c[1], c[2])) for k, c in enumerate(opcode_zoo())]
    n = len(zoo)
    # (a) the zoo: each member against its neighbour in strict alternation, against a random other member under a random
    #     schedule with a one-byte reader, then all of them at once
    for k in range(n):
        add("rr", 0, [zoo[k], zoo[(k + 1) % n]])
        add("rand", 1, [zoo[k], zoo[rng.randrange(n)]])
    add("rand", 0, zoo)
    add("burst", 3, zoo)
    add("serial", 0, zoo[:8])                      # control: nothing interleaves, must trivially agree
    # (b) every round-trip case, in random groups of 2..8, policies and reader chunk sizes in rotation
    members = [("%d" % i, c[0], go_desc(c[1], c[2])) for i, c in enumerate(cases) if c[0] != KNOWN_HOST_CYCLE_CLASS]
    for rep in range(1 if quick else 4):
        order = members[:]
        rng.shuffle(order)
        k = 0
        while k < len(order):
            size = rng.choice([2, 2, 3, 4, 8])
            grp = order[k:k + size]
            k += size
            if len(grp) == 1:
                grp.append(rng.choice(zoo))
            big = max(len(m[2]) for m in grp) > 20000
            chunk = 0 if big else rng.choice([0, 1, 3, 4096])
            add(COOP_POLICIES[len(groups) % 3], chunk, grp)
    # (c) free-running goroutines (io.Pipe between each encoder and its decoder; a writer that yields before it copies)
    small = [m for m in members if len(m[2]) < 3000]
    for k in range(6 if quick else 60):
        add("pipe" if k % 2 == 0 else "gosched", 0, rng.sample(zoo + small, 8))
    return groups


def conc_line(g):
    gid, policy, seed, chunk, members = g
    return "conc\t%d\t%s\t%d\t%d\t%s" % (gid, policy, seed, chunk, "\t".join("%s=%s" % (m[0], m[2]) for m in members))


def read_conc(path):
    """-> {"done": {gid: (tasks, steps)}, "oracles": [fields], "begun": gid or None}"""
    out = {"done": {}, "oracles": [], "begun": None}
    if os.path.exists(path):
        for line in open(path, errors="replace"):
            f = line.rstrip("\n").split("\t")
            if f[0] == "ORACLE":
                out["oracles"].append(f)
            elif f[0] == "cbegin":
                out["begun"] = int(f[1])
            elif f[0] == "conc" and len(f) >= 4:
                out["done"][int(f[1])] = (int(f[2]), int(f[3]))
    return out


def report_isolation(ctx, groups):
    """Oracle failures of the isolation harness -> violations (found_input=True); coverage numbers. Returns the number of
    failures."""
    conc = ctx.conc or {"done": {}, "oracles": [], "begun": None}
    byid = {g[0]: g for g in groups}
    pol = {}
    for g in groups:
        pol[g[1]] = pol.get(g[1], 0) + 1
    fail_pol = {}
    for f in conc["oracles"]:
        k = byid[int(f[2])][1]
        fail_pol[k] = fail_pol.get(k, 0) + 1
    ctx.coverage["correspondence"]["isolation"] = {
        "groups": len(groups), "groups_run": len(conc["done"]), "policies": pol,
        "members": sum(t for t, _ in conc["done"].values()),
        "scheduler_steps": sum(s for _, s in conc["done"].values()),
        "failures": len(conc["oracles"]),
        "failures_by_policy": fail_pol,
        "rule": "each group: one Encoder per member plus one Decoder per member (fed the member's stand-alone encoding), own "
                "Writer/Reader/memo/value each, run under one schedule with hand-over points at every call out of the package "
                "(Write entry/return, Read entry/after fill, Pickle, Unpickle); oracle: bytes written and graph decoded are "
                "identical to the same instance run alone. Members: opcode zoo pairs + every round-trip case."}
    how = "TestVerifPickleIsolation in harness/overlay/pickle/zz_verif_c07_conc_test.go: VERIF_CONC_IN line "
    shown = 0
    for f in conc["oracles"]:
        gid = int(f[2])
        g = byid[gid]
        mem = dict((m[0], m) for m in g[4])
        m = mem.get(f[3], ("?", "?", "?"))
        others = [x[2][:120] for x in g[4] if x[0] != f[3]]
        replay = {"oracle": f[1], "policy": g[1], "schedule_seed": g[2], "reader_chunk": g[3],
                  "member": {"id": m[0], "class": m[1], "description": m[2][:100000]},
                  "group": [{"id": x[0], "class": x[1], "description": x[2][:20000]} for x in g[4]],
                  "detail": f[4:], "how": how + conc_line(g)[:200000]}
        if f[1] == "isolation-encode":
            what = ("an Encoder's output depends on other codec instances: encoding %s while %d other instance(s) (e.g. of %s) "
                    "run interleaved (policy %s, seed %d) wrote %s; alone it writes %s (first difference at byte %s)"
                    % (m[2][:120], 2 * len(g[4]) - 1, (others or ["-"])[0], g[1], g[2], f[5][:140], f[6][:140], f[4]))
        elif f[1] == "isolation-decode":
            what = ("a Decoder's result depends on other codec instances: decoding the encoding of %s while %d other instance(s) "
                    "run interleaved (policy %s, seed %d, reader chunk %d) gave %s; alone it gives %s"
                    % (m[2][:120], 2 * len(g[4]) - 1, g[1], g[2], g[3], f[4][:140], f[5][:140]))
        else:
            what = "isolation harness control group disagrees with itself on %s: %s" % (m[2][:120], f[4:])
        if shown < 3:
            ctx.violation("implementation violates C07 oracle %s: %s" % (f[1], what), replay)
            shown += 1
    return len(conc["oracles"])


# ---------------------------------------------------------------------------------------------------
# harness drivers


def run_pickle_harness(ctx, lines, tag, conc_lines=None):
    """lines: list of input lines; returns (rc, output text, {id: fields}, oracle lines).
    conc_lines (C07 only): input of the instance-isolation harness, run in the same `go test` process after the
    round-trip cases; its output is left in ctx.conc (see read_conc)."""
    inp = os.path.join(ctx.tmp, "%s.in" % tag)
    outp = os.path.join(ctx.tmp, "%s.out" % tag)
    with open(inp, "w") as f:
        f.write("\n".join(lines) + "\n")
    files = {"zz_verif_c07_test.go": os.path.join(HARNESS, "overlay/pickle/zz_verif_c07_test.go")}
    env = {"VERIF_IN": inp, "VERIF_OUT": outp, "VERIF_SEED": str(ctx.seed)}
    pat = "^TestVerifPickle$"
    ctx.conc = None
    if conc_lines is not None:
        # file name sorts after zz_verif_c07_test.go so that the round-trip cases run first
        files["zz_verif_c07_zconc_test.go"] = os.path.join(HARNESS, "overlay/pickle/zz_verif_c07_conc_test.go")
        cin, cout = os.path.join(ctx.tmp, "%s.conc.in" % tag), os.path.join(ctx.tmp, "%s.conc.out" % tag)
        with open(cin, "w") as f:
            f.write("\n".join(conc_lines) + "\n")
        env.update({"VERIF_CONC_IN": cin, "VERIF_CONC_OUT": cout})
        pat = "^(TestVerifPickle|TestVerifPickleIsolation)$"
    rc, o = ctx.go_overlay_test("pickle", files, pat, env)
    if conc_lines is not None:
        ctx.conc = read_conc(cout)
    res, oracles, begun = {}, [], None
    if os.path.exists(outp):
        for line in open(outp, errors="replace"):
            f = line.rstrip("\n").split("\t")
            if f[0] == "ORACLE":
                oracles.append(f)
            elif f[0] == "begin":
                begun = int(f[1])
            elif len(f) >= 3 and f[1].isdigit():
                res[int(f[1])] = f
    ctx.died_on = begun if (rc != 0 and begun is not None and begun not in res) else None
    return rc, o, res, oracles


def coq_mismatches(ctx, items, shard_weight=60000):
    """items: list of (index, coq case term, weight). Shards by weight; returns (ok, mismatching indices, logs)."""
    shards, cur, w = [], [], 0
    for idx, term, wt in items:
        cur.append("(%s, %s)" % (cq_N(idx), term))
        w += wt
        if w >= shard_weight or len(cur) >= 1500:
            shards.append(cur)
            cur, w = [], 0
    if cur:
        shards.append(cur)
    exprs = ["mismatches [\n" + ";\n".join(s) + "]" for s in shards]
    okc, res, logs = ctx.coq_eval(HDR, exprs)
    mism = []
    for r in res:
        if r:
            mism += r
    return okc, mism, logs, len(shards)


def run(ctx):
    raise_stack()
    with GenGuard():
        if not regen_constants(ctx):
            return
        run_inner(ctx)


def host_selfref_subprocess(ctx):
    """Shape 1 of the known finding, thorough tier only: a host object that is its own constructor argument, encoded in a
    process of its own (go test with a timeout).  Props_C07.host_selfref_diverges: the model recurses forever; the code
    is expected to die with a fatal stack overflow, which is reported under the known-finding key."""
    rc, o, res, oracles = run_pickle_harness(ctx, ["rt\t0\t" + HOST_SELF_DESC], "c07self")
    replay = {"oracle": "process-died", "class": KNOWN_HOST_CYCLE_CLASS, "description": HOST_SELF_DESC,
              "output_tail": o[-1500:],
              "how": "TestVerifPickle in harness/overlay/pickle/zz_verif_c07_test.go: rt line with this description"}
    ctx.coverage["correspondence"]["host_selfref_subprocess"] = (
        "stack overflow" if "stack overflow" in o else "exit %d" % rc)
    if rc != 0 and ctx.died_on == 0 and "stack overflow" in o:
        ctx.violation("the process died with a stack overflow while encoding %s" % HOST_SELF_DESC, replay, key=KNOWN_HOST_CYCLE)
    elif rc != 0:
        ctx.violation("the harness process failed (exit %d) on %s without a stack overflow" % (rc, HOST_SELF_DESC), replay)
    else:
        # no crash: an error from Encode is a legitimate answer for this value; a wrong round trip is the same defect
        for f in oracles:
            if f[2] == "0" and f[1] != "encode-failed":
                ctx.violation("implementation violates C07 oracle %s on %s" % (f[1], HOST_SELF_DESC),
                              dict(replay, oracle=f[1], result=res.get(0)), key=KNOWN_HOST_CYCLE)


def run_inner(ctx):
    ok, rep = ctx.coq_props("Pickle/Props_C07.v")
    proof_broken = not ok
    okr, _ = ctx.coq_build(["Pickle/Run.vo"])
    if not okr:
        ctx.violation("the pickle model no longer builds against the regenerated constants",
                      {"theorem_or_correspondence": "Pickle/Model.v, Pickle/Run.v against Gen/Opcodes.v"}, found_input=False)
        return

    rng = random.Random(ctx.seed)
    cases = gen_c07(rng, ctx.quick())
    lines = ["rt\t%d\t%s" % (i, go_desc(c[1], c[2])) for i, c in enumerate(cases)]
    groups = gen_isolation(random.Random(ctx.seed * 7919 + 13), cases, ctx.quick())
    rc, o, res, oracles = run_pickle_harness(ctx, lines, "c07", conc_lines=[conc_line(g) for g in groups])
    conc = ctx.conc or {"done": {}, "oracles": [], "begun": None}
    if rc != 0 and ctx.died_on is None and conc["begun"] is not None and conc["begun"] not in conc["done"]:
        g = [x for x in groups if x[0] == conc["begun"]][0]
        ctx.log(o[-1500:])
        report_isolation(ctx, groups)
        ctx.violation("the process died or deadlocked while %d codec instances ran interleaved (policy %s, seed %d), members %s"
                      % (2 * len(g[4]), g[1], g[2], [m[2][:80] for m in g[4]][:4]),
                      {"oracle": "process-died", "policy": g[1], "schedule_seed": g[2], "reader_chunk": g[3],
                       "group": [{"id": x[0], "class": x[1], "description": x[2][:20000]} for x in g[4]], "output_tail": o[-1500:],
                       "how": "TestVerifPickleIsolation in harness/overlay/pickle/zz_verif_c07_conc_test.go: VERIF_CONC_IN line "
                              + conc_line(g)[:200000]})
        return
    if rc != 0 and ctx.died_on is not None:
        c = cases[ctx.died_on]
        ctx.log(o[-1500:])
        ctx.violation("the process died (fatal error) while encoding/decoding %s %s" % (c[0], go_desc(c[1], c[2])[:200]),
                      {"oracle": "process-died", "class": c[0], "description": go_desc(c[1], c[2])[:100000], "output_tail": o[-1500:],
                       "how": "TestVerifPickle in harness/overlay/pickle/zz_verif_c07_test.go: rt line with this description"})
        return
    if rc != 0:
        ctx.log(o[-3000:])
        ctx.violation("pickle harness failed to build or run against /repo (exit %d)" % rc,
                      {"theorem_or_correspondence": "C07 correspondence harness (pickle)", "output": o[-3000:]}, found_input=False)
        return

    dist = {}
    items = []
    nontrivial = set()
    for i, c in enumerate(cases):
        cls, nodes, root, pats = c
        dist[cls] = dist.get(cls, 0) + 1
        f = res.get(i)
        if f is None:
            ctx.violation("harness produced no output for case %d" % i, {"theorem_or_correspondence": "C07 harness", "case": go_desc(nodes, root)[:500]},
                          found_input=False)
            return
        r = Render(pats)
        src, enc, dec = f[2], f[3], f[4]
        weight = len(src) + len(enc) // 2 + len(dec) + 200
        h, v = r.heap(nodes), r.val(root)
        items.append((2 * i, "CSource %s %s %s" % (h, v, r.cv(parse_dump(src))), weight))
        if enc in ("err", "panic") or not dec.startswith("ok "):
            items.append((2 * i + 1, "CRoundTrip %s %s None" % (h, v), weight))
        else:
            nontrivial.add(enc)
            items.append((2 * i + 1, "CRoundTrip %s %s (Some (%s, %s))" % (
                h, v, r.bytes(bytes.fromhex(enc)), r.cv(parse_dump(dec[3:]))), weight))

    ctx.coverage["evaluations"] = len(cases)
    ctx.coverage["distinct_nontrivial"] = len(nontrivial)
    ctx.coverage["rule"] = ("generated value graphs: every integer width boundary and random members of each width class, "
                            "floats incl. NaN payloads/-0/denormals, string and bytes lengths %s, container sizes %s for "
                            "tuple/list/dict/set at nesting positions %s (%s), nested >1000-element containers, aliasing "
                            "patterns (same list twice, self list, mutual lists, dict as own value, diamond, >256 memo ids, "
                            "shared/nested host objects), random graphs; non-trivial = encoded and decoded successfully; "
                            "distinct by encoding" % (STR_LENGTHS, SIZES, POSITIONS,
                                                      "sampled positions for each size" if ctx.quick() else "full product"))
    ctx.coverage["exhaustive"] = False
    ctx.coverage["correspondence"]["distribution"] = dist
    ctx.add_samples([[c[0], go_desc(c[1], c[2])[:120], res[i][3][:80]] for i, c in list(enumerate(cases))[::max(1, len(cases) // 5)]])

    unexpected = []     # oracle failures other than the known finding
    if report_isolation(ctx, groups):
        unexpected.append(["ORACLE", "isolation"])
    if len(conc["done"]) != len(groups):
        ctx.violation("the isolation harness ran %d of %d groups" % (len(conc["done"]), len(groups)),
                      {"theorem_or_correspondence": "C07 isolation harness (TestVerifPickleIsolation)", "output": o[-1500:]},
                      found_input=False)
    for f in oracles:
        if f[2].isdigit() and f[1] == "roundtrip" and cases[int(f[2])][0] == KNOWN_HOST_CYCLE_CLASS:
            i = int(f[2])
            ctx.violation("round-trip oracle on %s: decoded %s" % (go_desc(cases[i][1], cases[i][2]), res[i][4][:200]),
                          {"oracle": f[1], "class": cases[i][0], "description": go_desc(cases[i][1], cases[i][2]),
                           "source_dump": res[i][2], "encoding_hex": res[i][3], "decoded": res[i][4],
                           "how": "TestVerifPickle in harness/overlay/pickle/zz_verif_c07_test.go: rt line with this description"},
                          key=KNOWN_HOST_CYCLE)
            continue
        unexpected.append(f)
        if not f[2].isdigit():
            # oracle-only cases built inside the harness (placeholder pickler: an object memoized twice)
            ctx.violation("implementation violates C07 oracle %s on %s: %s" % (f[1], f[2], f[3] if len(f) > 3 else ""),
                          {"oracle": f[1], "case": f[2], "detail": f[3:],
                           "how": "verifPlaceholderCases in harness/overlay/pickle/zz_verif_c07_test.go"})
            continue
        i = int(f[2])
        ctx.violation("implementation violates C07 oracle %s on %s" % (f[1], go_desc(cases[i][1], cases[i][2])[:200]),
                      {"oracle": f[1], "class": cases[i][0], "description": go_desc(cases[i][1], cases[i][2])[:100000],
                       "source_dump": res[i][2][:2000], "encoding_hex": res[i][3][:4000], "decoded": res[i][4][:2000],
                       "how": "TestVerifPickle in harness/overlay/pickle/zz_verif_c07_test.go: rt line with this description"})

    okc, mism, logs, nshards = coq_mismatches(ctx, items)
    if not okc:
        ctx.log("coq evaluation failed", logs[:1])
        ctx.violation("model evaluation failed", {"theorem_or_correspondence": "C07 cases evaluation", "log": logs[:2]}, found_input=False)
        return
    ctx.coverage["correspondence"]["cases"] = len(items)
    ctx.coverage["correspondence"]["mismatches"] = len(mism)
    ctx.log("cases=%d coq-items=%d shards=%d mismatches=%d oracle_failures=%d" % (len(cases), len(items), nshards, len(mism), len(oracles)))
    if mism and not unexpected:
        ex = []
        for m in mism[:5]:
            c = cases[m // 2]
            ex.append({"what": "source dump" if m % 2 == 0 else "encoding bytes / decoded dump", "class": c[0],
                       "description": go_desc(c[1], c[2])[:3000], "impl_encoding_hex": res[m // 2][3][:3000],
                       "impl_decoded": res[m // 2][4][:3000]})
        ctx.violation("model/implementation disagree on %d cases, e.g. %s %s" % (len(mism), ex[0]["class"], ex[0]["description"][:150]),
                      {"theorem_or_correspondence": "correspondence Pickle/Model.v <-> pickle/encode.go, pickle/decode.go",
                       "disagreeing_cases": ex}, found_input=False)
    if not ctx.quick():
        host_selfref_subprocess(ctx)
    if proof_broken and not ctx.violations:
        ctx.violation("a C07 theorem no longer checks", {"theorem_or_correspondence": getattr(ctx, "broken_proof", {})},
                      found_input=False)
