"""C15 — Decoding arbitrary bytes yields a value or an error, never a crash."""
import os
import random
from lib.vlib import *
from checks import C07 as base
from checks.C07 import I, S, B, T, R, NONE, TRUE, FALSE, Render, parse_dump, go_desc

META = {
    "property_id": "C15",
    "technique": "Coq proof over the Gallina model of pickle/decode.go (same model as C07) and of function.go's envUnpickler / "
                 "diffEnv reason construction + correspondence on valid, mutated and random byte strings, read from memory and "
                 "from sources that fail (non-EOF read errors, damaged base64) + record-file corruption runs in subprocesses",
    "level_text": "Theorems (Coq, unbounded): for every unpickler that returns a value or an error and every byte string, "
                  "decode terminates within length+1 steps with Ok(value) or Err, never OutOfFuel/NilNil, and never Crash "
                  "when declared lengths are bounded by the input size (decode_total); envUnpickler as transcribed returns a "
                  "value, an error or a Go runtime error (converted to an error by Decode's recover), never nil "
                  "(env_unpickle_total); the same for decoding from a source = any bytes followed by any failure of the reader "
                  "(decode_source_total; reader.Read turns every read error into the decoder's error, so a source is the bytes it "
                  "delivers), and a source that fails before the end of an input yields that input's value or an error, never "
                  "another value (failed_source_never_changes_value, from decode_app: a decoded value does not depend on later "
                  "bytes); the diffEnv reason construction never indexes out of range for any set of differing "
                  "keys (diff_reason_total). Correspondence: model and implementation agree on ok/err and on the canonical "
                  "dump of the value for valid encodings, all single-byte truncations/deletions and sampled substitutions of "
                  "them, opcode-weighted random strings and directed cases, with a nil, an object-preserving and the real "
                  "envUnpickler; the same inputs read from a source that fails after every prefix (sticky / transient / with the last "
                  "data / bytewise / standard-library error / error wrapping EOF) and from a base64 stream with one damaged "
                  "character per quantum: no hang (bounded number of reads from a failed source), no panic, no (nil, nil), no "
                  "value that the delivered bytes do not encode, and the answer the model gives for the delivered bytes; all "
                  "1023 non-empty key-difference sets through the real diffEnv. Record layer (test, not "
                  "proof): every truncation, sampled substitutions/deletions, field edits and stamp replacements of real record "
                  "files, re-loaded and built in a subprocess: outcome is a reported error, a re-execution, or up to date with a "
                  "record whose stamp is byte-identical to the current stamp (same dependency stamps, rerun clear); never a "
                  "dead or hung process; every character of the stamps of a project whose environment holds every operand-bearing "
                  "opcode damaged (non-alphabet character) and decoded in process as function.load does through a guarded "
                  "reader, one damaged character per base64 quantum also loaded and built in the subprocess. Every family is "
                  "applied to both states of every record, clean and carrying the re-run marker (the state a build leaves "
                  "while and after a body runs or fails; the one field whose loss means up to date), and three families go "
                  "beyond single bytes: structure (every byte outside the interior of the stamps deleted / replaced by JSON "
                  "punctuation), retype (well-formed JSON in which a field's value has another JSON type: every field x every "
                  "kind of value, dependency entries, duplicated / re-cased / renamed keys, wrapped and doubled records) and "
                  "multi (2-4 substitutions, bursts, doubled and lost blocks); up to date is accepted only when an independent "
                  "strict decoding of the corrupted bytes (the harness's own record type; the file must be exactly one JSON "
                  "object with the record's keys: unknown keys, data after the object and every decoding error are errors) is "
                  "an unmarked record with the current stamps. A four-package project with a shared module has the record of one "
                  "target per package corrupted and is loaded under three schedules enforced through the loader's observation "
                  "points (free; the victim's module fails before any other package's module starts; it starts after all "
                  "the others have finished): the failed read must be reported in each, a load that does not return is a hang. "
                  "Directed family shared tuples as hashed keys (t1=(x,x), t2=(t1,t1), ... built with the memo, 4 or 6 bytes "
                  "per level; as dict key, set element, inside a tuple key; controls: top level, dict value, list element): "
                  "depths 1-12 through the model correspondence with all three unpicklers, 13-18 in process (the decoded "
                  "value checked in depth steps), 40 (thorough: 255) in a subprocess under a 6 s watchdog: the controls must "
                  "answer, the hashed shapes do not (known finding dag-tuple-key-hash); a hang anywhere else is a violation.",
    "level_note": "Trusted: Coq kernel; the transcription (validated by the correspondence run only); Go's recover semantics "
                  "(a runtime.Error satisfies the `failure` interface assertion) is validated on the real code by the "
                  "corrupted-input runs, not proved; big.Int.UnmarshalText is modelled in full (base prefixes, underscores); "
                  "hash collisions abstracted as in C07; the record layer is covered by testing only (json/base64 are not "
                  "modelled); Go stack exhaustion and allocation of declared lengths larger than the input are outside "
                  "the property and the model (reported as Crash by the model and excluded from the streams); that a reader's "
                  "failure is unobservable beyond the bytes it delivered (Pickle/Source.v) is a transcription of reader.Read, "
                  "validated by the failing-source runs; hang = more than 65536 reads from a source that has already failed "
                  "(in process) or no answer within 30 s / 1 GiB resident (subprocess); a corruption of a marked record into "
                  "a byte string that is, strictly decoded, a valid current record without the marker (true -> null / false, "
                  "a duplicated key, a lost `,\"rerun\":true` block) cannot be told from a real record without a checksum: it "
                  "is accepted as up to date and counted (uptodate-valid-unmarked-record); the record format (field names, "
                  "one object per file) is stated by the harness (c15recordRef), not taken from the loader. "
                  "decode_never_hangs_or_nilnil / decode_total are about the decoder's own loop (one step per opcode, at most "
                  "length+1 steps); the model's dict and set insertion is structural and does not hash, so the cost of "
                  "hashing in the host value library (go.starlark.net Tuple.Hash walks a tuple DAG as a tree: 2^depth for "
                  "the memo-built shared tuples of the directed family, known finding dag-tuple-key-hash) is outside the "
                  "model and the theorems: for those inputs the model answers Ok in depth steps while the implementation "
                  "does not come back.",
    "design_ref": "DESIGN.md §6 C15",
}

OPS = {
    "MARK": 0x28, "STOP": 0x2e, "INT": 0x49, "BININT": 0x4a, "BININT1": 0x4b, "BININT2": 0x4d, "NONE": 0x4e,
    "BINUNICODE": 0x58, "APPEND": 0x61, "EMPTY_DICT": 0x7d, "APPENDS": 0x65, "BINGET": 0x68, "LONG_BINGET": 0x6a,
    "EMPTY_LIST": 0x5d, "TUPLE": 0x74, "EMPTY_TUPLE": 0x29, "SETITEMS": 0x75, "BINFLOAT": 0x47, "NEWOBJ": 0x81,
    "TUPLE1": 0x85, "TUPLE2": 0x86, "TUPLE3": 0x87, "NEWTRUE": 0x88, "NEWFALSE": 0x89, "BINBYTES": 0x42,
    "SHORT_BINBYTES": 0x43, "SHORT_BINUNICODE": 0x8c, "EMPTY_SET": 0x8f, "ADDITEMS": 0x90, "STACK_GLOBAL": 0x93,
    "MEMOIZE": 0x94,
}
OPBYTES = sorted(OPS.values())


def oversize(bs):
    """Conservative scan along opcode boundaries: does any 4-byte declared string length exceed the input size?
    (Such inputs are outside C15's hypothesis; the model answers Crash for them.)"""
    i, n = 0, len(bs)
    while i < n:
        op = bs[i]
        i += 1
        if op in (OPS["BINGET"], OPS["BININT1"]):
            i += 1
        elif op in (OPS["LONG_BINGET"], OPS["BININT"]):
            i += 4
        elif op == OPS["BININT2"]:
            i += 2
        elif op == OPS["BINFLOAT"]:
            i += 8
        elif op == OPS["INT"]:
            j = bs.find(b"\n", i)
            if j < 0:
                return False
            i = j + 1
        elif op in (OPS["SHORT_BINUNICODE"], OPS["SHORT_BINBYTES"]):
            if i >= n:
                return False
            i += 1 + bs[i]
        elif op in (OPS["BINUNICODE"], OPS["BINBYTES"]):
            if i + 4 > n:
                return False
            ln = int.from_bytes(bs[i:i + 4], "little")
            if ln > n:
                return True
            i += 4 + ln
        elif op == OPS["STOP"]:
            return False
    return False


def p8(n):
    return bytes([n])


def sstr(s):
    s = s if isinstance(s, bytes) else s.encode()
    return p8(0x8c) + p8(len(s)) + s


# ---- directed family "shared tuples as hashed keys": with the memo, 4 bytes per level build t1 = (x, x), t2 = (t1, t1), ...:
# d tuples in memory, 2^d leaves as a tree.  Hashed shapes put the DAG where the host value library hashes it (dict key, set
# element, inside a tuple that is a key); control shapes put the same DAG where nothing hashes it.
DAG_HASHED = ["dict-key", "dict-key-two-gets", "tuple-in-dict-key", "set-element"]
DAG_CONTROL = ["top", "dict-value", "list-element"]
KNOWN_DAG_HASH = "dag-tuple-key-hash"
DAG_MODEL_DEPTH = 12          # depths 1..12: ordinary directed inputs (model <-> implementation, all three unpicklers)
DAG_INPROC_DEPTH = 18         # depths 13..18: in process, decoded value checked in d steps
DAG_CHILD_DEPTH = 40          # in a subprocess under a watchdog


def dag_tuple(d):
    """leaves t_d on the stack (x = 1): MEMOIZE, BINGET i, TUPLE2 per level"""
    return b"K\x01" + b"".join(b"\x94h" + p8(i) + b"\x86" for i in range(d))


def dag_input(shape, d):
    if shape == "top":
        return dag_tuple(d) + b"."
    if shape == "dict-key":
        return b"}(" + dag_tuple(d) + b"K\x02u."
    if shape == "dict-key-two-gets":      # two BINGETs per level (6 bytes), the levels stay on the stack below the dict
        return (b"K\x01\x94" + b"".join(b"h" + p8(i) + b"h" + p8(i) + b"\x86\x94" for i in range(d))
                + b"}(h" + p8(d) + b"K\x02u.")
    if shape == "tuple-in-dict-key":
        return b"}(" + dag_tuple(d) + b"K\x07\x86K\x02u."
    if shape == "set-element":
        return b"\x8f(" + dag_tuple(d) + b"\x90."
    if shape == "dict-value":
        return b"}(K\x02" + dag_tuple(d) + b"u."
    if shape == "list-element":
        return b"](" + dag_tuple(d) + b"e."
    raise ValueError(shape)


def directed():
    f1 = b"G" + bytes.fromhex("000000000000f03f")       # 1.0 (little endian as the codec writes it)
    nan1 = b"G" + bytes.fromhex("010000000000f87f")
    nan2 = b"G" + bytes.fromhex("000000000000f8ff")
    mzero = b"G" + bytes.fromhex("0000000000000080")
    zero = b"G" + bytes.fromhex("0000000000000000")
    big = b"G" + bytes.fromhex("000000000000f043")      # 2^64
    deep = b"K\x01" + b"\x85" * 10                      # 11 levels
    deep9 = b"K\x01" + b"\x85" * 9
    cases = [
        b"", b".", b"N.", b"N", b"(.", b"((.", b"\x94.", b"N\x94.", b"N\x94h\x00.", b"N\x94h\x01.", b"h\x00.",
        b"j\x00\x00\x00\x00.", b"N\x94j\x00\x00\x00\x00.", b"N\x94j\x01\x00\x00\x00.", b"j\xff\xff\xff\xff.", b"j\x00\x00",
        # dict key equality
        b"}(K\x01K\x02" + f1 + b"K\x03u.", b"}(" + f1 + b"K\x02K\x01K\x03u.", b"}(" + nan1 + b"K\x01" + nan2 + b"K\x02u.",
        b"}(" + zero + b"K\x01" + mzero + b"K\x02K\x00K\x03u.", b"}(\x88K\x01K\x01K\x02u.", b"}(NK\x01NK\x02u.",
        b"}(I18446744073709551616\nK\x01" + big + b"K\x02u.", b"}(]K\x01u.", b"}(]\x85K\x01K\x05K\x06u.", b"}(}K\x01u.",
        b"}((K\x01u.", b"}(((K\x01(K\x02u.", b"}(" + sstr("a") + sstr("b") + b"\x93K\x01" + sstr("a") + sstr("b") + b"\x93K\x02u.",
        b"}(" + sstr("a") + sstr("b") + b"\x93\x94K\x01h\x00K\x02u.", b"}(" + deep + b"K\x01" + deep + b"K\x02u.",
        b"}(" + deep9 + b"K\x01" + deep9 + b"K\x02u.", b"}(" + sstr("k") + b"K\x01C\x01kK\x02u.",
        b"}(K\x01K\x02K\x03u.", b"}(u.", b"}u.", b"(u.", b"u.", b"](K\x01u.", b"}\x94(K\x01h\x00u.",
        # sets
        b"\x8f(K\x01K\x01" + f1 + b"K\x02\x90.", b"\x8f(]\x90.", b"\x8f(" + deep + deep + b"\x90.", b"\x8f(\x90.", b"\x8f\x90.",
        b"(\x90.", b"](K\x01\x90.", b"\x8f((\x90.", b"\x8f(" + nan1 + nan2 + zero + mzero + b"\x90.",
        # lists
        b"]K\x01a.", b"K\x01a.", b"a.", b"]a.", b"}K\x01a.", b"](K\x01K\x02e.", b"(K\x01e.", b"K\x01(K\x02e.", b"e.", b"](e.",
        b"]((e.", b"]\x94h\x00a.", b"]\x94(h\x00h\x00e.", b"](K\x01e(K\x02e.", b"]K\x01aK\x02a.",
        # tuples
        b").", b"K\x01\x85.", b"\x85.", b"K\x01\x86.", b"K\x01K\x02\x86.", b"K\x01K\x02\x87.", b"K\x01K\x02K\x03\x87.",
        b"(t.", b"t.", b"K\x01t.", b"(K\x01K\x02K\x03K\x04t.", b"K\x09(K\x01t.", b"((t.", b"((tt.",
        # globals / objects
        sstr("m") + sstr("n") + b"\x93.", sstr("m") + b"\x93.", b"\x93.", b"K\x01" + sstr("n") + b"\x93.", sstr("m") + b"K\x01\x93.",
        sstr("m") + sstr("n") + b"\x93)\x81.", sstr("m") + sstr("n") + b"\x93K\x01\x81.", b")\x81.", b"K\x01)\x81.", b"\x81.",
        sstr("m") + sstr("n") + b"\x93K\x01\x85\x81\x94h\x00\x86.", sstr("m") + sstr("n") + b"\x93(t\x81.",
        # strings
        b"\x8c\x00.", b"\x8c\x01.", b"\x8c\x01a.", b"\x8c", b"X\x00\x00\x00\x00.", b"X\x01\x00\x00\x00a.", b"X\x02\x00\x00\x00a.",
        b"X\x01\x00", b"C\x00.", b"C\x02ab.", b"B\x01\x00\x00\x00a.", b"B\x05\x00\x00\x00a.", b"\x8c\x03\xff\xfe\x00.",
        # ints
        b"K", b"K\xff.", b"M\x00", b"M\x00\x01.", b"M\xff\xff.", b"J\xff\xff\xff\xff.", b"J\x00\x00\x00\x80.", b"J\xff\xff\xff\x7f.",
        b"J\x00\x00\x00", b"G\x00\x00\x00\x00\x00\x00\x00", b"G\x00\x00\x00\x00\x00\x00\xf0\x7f.",
        # unknown / unsupported opcodes
        b"0.", b"1.", b"2.", b"F1.0\n.", b"L1L\n.", b"\x80\x04N.", b"\x95\x00\x00\x00\x00\x00\x00\x00\x00N.", b"\xff.", b"\x00.",
        b"q\x00.", b"s.", b"d.", b"l.", b"R.", b"b.", b"c.", b"\x8a\x01\x01.", b"\x91.", b"\x92.",
    ]
    for txt in [b"0", b"1", b"-1", b"+5", b"0x10", b"0X1f", b"0b101", b"0B2", b"0o17", b"0O8", b"017", b"08", b"00", b"-0", b"+0",
                b"", b"-", b"+", b"--1", b"+-1", b"1_000", b"1__0", b"_1", b"1_", b"0_7", b"0_", b"0x_1", b"0x", b"0x_", b"0b", b"0__7",
                b"1e5", b" 1", b"1 ", b"1.0", b"0xg", b"0xG", b"abc", b"0Xabcdef", b"0xABCDEF", b"z", b"0_x1", b"0x1_f", b"0x1__f",
                b"123456789012345678901234567890", b"-340282366920938463463374607431768211456", b"0777_7", b"0o_7", b"0b_1_0",
                b"\xd9\xa1", b"1\x00", b"\x00", b"9" * 60, b"0" * 40, b"-00", b"0_0", b"0_8", b"1a", b"0b12", b"0o78"]:
        cases.append(b"I" + txt + b"\n.")
    cases += [b"I1", b"I", b"I\n.", b"I1\n", b"I1\n2\n."]
    for d in range(1, DAG_MODEL_DEPTH + 1):
        for shape in DAG_HASHED + DAG_CONTROL:
            cases.append(dag_input(shape, d))
    return cases


# description-level values used for the valid-encoding stream (small)
def env_like(rng):
    """host objects named like dawn's environment objects, well-formed and ill-formed"""
    def assoc(n, bad=None):
        items = [T(S("k%d" % i), I(i)) for i in range(n)]
        if bad == "nontuple":
            items.append(I(5))
        elif bad == "empty":
            items.append(T())
        elif bad == "one":
            items.append(T(S("k")))
        elif bad == "nonstring":
            items.append(T(I(1), I(2)))
        elif bad == "dupkey":
            items.append(T(S("k0"), I(99)))
        elif bad == "three":
            items.append(T(S("t"), I(1), I(2)))
        return ("t", items)

    def module(bad=None, k=5):
        fields = [T(S("print"), S("len")), T(I(1), S("c")), assoc(1, bad), assoc(2), T()]
        return ("t", fields[:k])

    out = []
    D = b"dawn"
    out.append(([("O", D, b"Target", [S("//:a")])], R(0)))
    out.append(([("O", D, b"Target", [])], R(0)))
    out.append(([("O", D, b"Target", [I(1), I(2)])], R(0)))
    out.append(([("O", D, b"Recursive", [S("f")])], R(0)))
    out.append(([("O", D, b"Recursive", [])], R(0)))
    out.append(([("O", D, b"Recursive", [S("f"), I(3)])], R(0)))
    out.append(([("O", D, b"Recursive", [S("f"), I(3), I(4)])], R(0)))
    out.append(([("O", D, b"Mandatory", [])], R(0)))
    out.append(([("O", D, b"Mandatory", [I(1)])], R(0)))
    out.append(([("O", D, b"Unassigned", [])], R(0)))
    out.append(([("O", D, b"Unassigned", [S("x")])], R(0)))
    out.append(([("O", D, b"Builtin", [])], T(R(0), R(0))))
    out.append(([("O", D, b"Builtin", [I(1)])], R(0)))
    out.append(([("O", D, b"Nope", [])], R(0)))
    out.append(([("O", b"other", b"Builtin", [])], R(0)))
    out.append(([("O", b"", b"", [])], R(0)))
    for bad in (None, "nontuple", "empty", "one", "nonstring", "dupkey", "three"):
        out.append(([("O", D, b"FunctionCode", [module(bad), assoc(1), B(b"\x01\x02")])], R(0)))
        out.append(([("O", D, b"FunctionCode", [module(), assoc(1, bad), B(b"\x01\x02")])], R(0)))
        out.append(([("O", D, b"Function", [assoc(1, bad), assoc(0), R(1)]),
                     ("O", D, b"FunctionCode", [module(), assoc(1), B(b"")])], R(0)))
        out.append(([("O", D, b"Function", [assoc(0), assoc(1, bad), R(1)]),
                     ("O", D, b"FunctionCode", [module(), assoc(1), B(b"")])], R(0)))
    for k in range(6):
        out.append(([("O", D, b"FunctionCode", [module(None, k), assoc(1), B(b"c")])], R(0)))
    out.append(([("O", D, b"FunctionCode", [I(1), assoc(1), B(b"c")])], R(0)))
    out.append(([("O", D, b"FunctionCode", [module(), NONE, NONE])], R(0)))
    out.append(([("O", D, b"FunctionCode", [module(), assoc(1)])], R(0)))
    out.append(([("O", D, b"Function", [assoc(1), assoc(1), I(3)])], R(0)))
    out.append(([("O", D, b"Function", [assoc(1), assoc(1), R(1)]), ("L", [I(1)])], R(0)))
    out.append(([("O", D, b"Function", [assoc(1), assoc(1), R(1)]), ("D", [S("default parameter values"), I(1), S("x"), I(2)])], R(0)))
    out.append(([("O", D, b"Function", [NONE, I(4), R(1)]), ("D", [])], T(R(0), R(1))))
    out.append(([("O", D, b"Function", [assoc(1), assoc(1)])], R(0)))
    # a function whose globals hold a function sharing its code, and a recursive reference
    out.append(([("O", D, b"Function", [assoc(1), assoc(0), R(1)]),
                 ("O", D, b"FunctionCode", [module(), ("t", [T(S("g"), R(2)), T(S("h"), R(3))]), B(b"\x00")]),
                 ("O", D, b"Recursive", [S("f")]),
                 ("O", D, b"Function", [assoc(0), assoc(0), R(4)]),
                 ("O", D, b"FunctionCode", [module(), assoc(0), B(b"\x07")])], T(R(0), R(3))))
    return out


def gen_valid(rng, quick):
    vals = []
    for z in [0, 255, 256, 65535, 65536, -1, 2**31 - 1, -2**31, 2**31, -2**31 - 1, 2**64 + 1, -(2**63)]:
        vals.append(([], I(z)))
    for b in base.FLOATS[:8]:
        vals.append(([], ("G", b)))
    vals += [([], NONE), ([], TRUE), ([], FALSE), ([], S("")), ([], S("héllo")), ([], B(b"\x00\xff")), ([], S(b"a" * 256)),
             ([], B(bytes(range(256)) + b"x")), ([], T()), ([], T(I(1))), ([], T(I(1), I(2))), ([], T(I(1), I(2), I(3))),
             ([], T(I(1), I(2), I(3), I(4))), ([], T(T(T()), T(NONE, T(TRUE))))]
    vals += [([("L", [])], R(0)), ([("L", [I(1)])], R(0)), ([("L", [I(1), I(2)])], R(0)), ([("D", [])], R(0)),
             ([("D", [S("a"), I(1)])], R(0)), ([("D", [I(1), S("a"), T(I(1), I(2)), NONE])], R(0)), ([("E", [])], R(0)),
             ([("E", [I(1), S("x"), T()])], R(0)), ([("L", [R(0)])], R(0)), ([("L", [R(1)]), ("L", [R(0)])], R(0)),
             ([("D", [S("self"), R(0)])], R(0)), ([("L", [I(1)])], T(R(0), R(0))),
             ([("L", [R(1), R(2)]), ("L", [R(3)]), ("L", [R(3)]), ("E", [I(7)])], R(0)),
             ([("O", b"m", b"n", [I(1), S("a")])], R(0)), ([("O", b"m", b"n", [R(1)]), ("L", [I(1)])], T(R(0), R(1), R(0)))]
    vals += env_like(rng)
    for _ in range(60 if quick else 400):
        vals.append(base.random_graph(rng))
    return vals


def mutations(enc, rng, quick):
    out = []
    n = len(enc)
    for i in range(n):                                   # every truncation
        out.append(("truncate", enc[:i]))
    pos = list(range(n)) if (n <= 80 or not quick) else sorted(rng.sample(range(n), 80))
    for i in pos:                                        # deletions
        out.append(("delete", enc[:i] + enc[i + 1:]))
    for i in pos:                                        # substitutions: an opcode, a neighbour value, a random byte
        cands = {rng.choice(OPBYTES), (enc[i] + 1) % 256, (enc[i] - 1) % 256, rng.randrange(256), enc[i] ^ 0x80}
        if not quick:
            cands |= {rng.choice(OPBYTES) for _ in range(4)}
        for c in cands:
            if c != enc[i]:
                out.append(("substitute", enc[:i] + bytes([c]) + enc[i + 1:]))
    return out


INT_ALPHA = b"0123456789abcdefxXoObB_+-"


def random_stream(rng):
    n = rng.randint(1, 64)
    out = bytearray()
    while len(out) < n:
        r = rng.random()
        if r < 0.62:
            op = rng.choice(OPBYTES)
            out.append(op)
            if op == OPS["INT"]:
                out += bytes(rng.choice(INT_ALPHA) for _ in range(rng.randint(0, 6))) + (b"\n" if rng.random() < 0.9 else b"")
            elif op in (OPS["SHORT_BINUNICODE"], OPS["SHORT_BINBYTES"]):
                k = rng.randint(0, 4)
                out += bytes([k if rng.random() < 0.85 else rng.randrange(256)]) + bytes(rng.randrange(97, 100) for _ in range(k))
            elif op in (OPS["BINUNICODE"], OPS["BINBYTES"]):
                k = rng.randint(0, 3)
                out += bytes([k, 0, 0, 0]) + bytes(rng.randrange(97, 100) for _ in range(k))
            elif op in (OPS["BINGET"], OPS["BININT1"]):
                out.append(rng.choice([0, 0, 1, 1, 2, 3, 255]))
            elif op == OPS["LONG_BINGET"]:
                out += bytes([rng.choice([0, 1, 2]), 0, 0, rng.choice([0, 0, 0, 1])])
            elif op == OPS["BININT2"]:
                out += bytes([rng.randrange(3), rng.randrange(3)])
            elif op == OPS["BININT"]:
                out += bytes(rng.choice([0, 1, 255]) for _ in range(4))
            elif op == OPS["BINFLOAT"]:
                out += rng.choice([bytes(8), bytes.fromhex("000000000000f03f"), bytes.fromhex("000000000000f87f"),
                                   bytes.fromhex("0000000000000040"), bytes(rng.randrange(256) for _ in range(8))])
        elif r < 0.8:
            out += rng.choice([b"]", b"}", b"\x8f", b"(", b"K\x01", b"K\x02", b"\x94", b")", b"N"])
        else:
            out.append(rng.randrange(256))
    if rng.random() < 0.7:
        out.append(OPS["STOP"])
    return bytes(out[:64])



# ---- the decoder's source: an io.Reader that delivers a prefix and then fails (not only by ending)
SRC_MODES = ["sticky", "withdata", "bytewise", "transient", "closedpipe", "wrapeof"]
B64_BAD = [42, 0, 45, 95, 32, 61, 255]     # characters outside the standard alphabet, and '=' in the wrong place


def gen_source_cases(inputs, rng, quick):
    """Failing sources over the input streams: returns (byte strings, [(data index, stream, unp, mode, k)]).
    valid encodings and directed strings: a sticky failure after every k < length (both unpicklers), the other failure
    modes after every k (short inputs) or sampled k, and one corrupted base64 character in every quantum (thorough: every
    character) of their base64 form; a sample of the mutated / random strings: failures at random places."""
    datas, cases = [], []
    full = [(s, b) for s, b in inputs if s in ("valid", "directed") and len(b) > 0]
    rest = [(s, b) for s, b in inputs if s not in ("valid", "directed") and len(b) > 1]
    rest = rng.sample(rest, min(1500 if quick else 8000, len(rest)))
    for s, b in full:
        di, n = len(datas), len(b)
        datas.append(b)
        for k in range(n):
            for unp in (0, 1):
                cases.append((di, s, unp, "sticky", k))
        ks = list(range(n)) if (n <= 96 or not quick) else sorted(rng.sample(range(n), 24))
        for mode in SRC_MODES[1:]:
            for k in ks:
                cases.append((di, s, len(cases) % 2, mode, k))
        nq = (n + 2) // 3
        cs = [4 * q + (q + di) % 4 for q in range(nq)] if quick else list(range(4 * nq))
        for j, c in enumerate(cs):
            cases.append((di, s, len(cases) % 2, "b64:%d" % B64_BAD[(j + di) % len(B64_BAD)], c))
    for s, b in rest:
        di, n = len(datas), len(b)
        datas.append(b)
        for k in rng.sample(range(n), 2):
            cases.append((di, s, len(cases) % 2, rng.choice(SRC_MODES), k))
        cases.append((di, s, len(cases) % 2, "b64:%d" % rng.choice(B64_BAD), rng.randrange(4 * ((n + 2) // 3))))
    return datas, cases


def run_source_harness(ctx, datas, cases):
    """returns (rc, output, {case index: fields}, oracle lines, index of the case the process died on or None)"""
    inp = os.path.join(ctx.tmp, "c15src.in")
    outp = os.path.join(ctx.tmp, "c15src.out")
    with open(inp, "w") as f:
        for i, b in enumerate(datas):
            f.write("data\t%d\t%s\n" % (i, b.hex()))
        for i, (di, s, unp, mode, k) in enumerate(cases):
            f.write("src\t%d\t%d\t%s\t%d\t%d\n" % (i, unp, mode, k, di))
    files = {"zz_verif_c07_test.go": os.path.join(HARNESS, "overlay/pickle/zz_verif_c07_test.go"),
             "zz_verif_c15_source_test.go": os.path.join(HARNESS, "overlay/pickle/zz_verif_c15_source_test.go")}
    rc, o = ctx.go_overlay_test("pickle", files, "^TestVerifC15Source$", {"VERIF_SRC_IN": inp, "VERIF_SRC_OUT": outp})
    res, oracles, begun = {}, [], None
    if os.path.exists(outp):
        for line in open(outp, errors="replace"):
            f = line.rstrip("\n").split("\t")
            if f[0] == "ORACLE":
                oracles.append(f)
            elif f[0] == "begin":
                begun = int(f[1])
            elif f[0] == "src" and len(f) >= 7:
                res[int(f[1])] = f
    died = begun if (rc != 0 and begun is not None and begun not in res) else None
    return rc, o, res, oracles, died


def run_dag_harness(ctx, quick):
    """the deep members of the family: returns (rc, output, [(shape, depth, unp, where, bytes, outcome, microseconds, what)])"""
    cases = []
    for d in range(DAG_MODEL_DEPTH + 1, DAG_INPROC_DEPTH + 1):
        for shape in DAG_HASHED + DAG_CONTROL:
            for unp in (0, 1):
                cases.append((shape, d, unp, "inproc"))
    for shape in DAG_HASHED + DAG_CONTROL:
        cases.append((shape, DAG_CHILD_DEPTH, 0, "child:6"))
    if not quick:
        for shape in DAG_HASHED + DAG_CONTROL:
            cases.append((shape, 255, 1, "child:6"))
        for d in (20, 22, 24):                       # the doubling, measured
            cases.append(("dict-key", d, 0, "child:120"))
    inp, outp = os.path.join(ctx.tmp, "c15dag.in"), os.path.join(ctx.tmp, "c15dag.out")
    with open(inp, "w") as f:
        for i, (shape, d, unp, where) in enumerate(cases):
            f.write("dag\t%d\t%s\t%d\t%d\t%s\t%s\n" % (i, shape, d, unp, where, dag_input(shape, d).hex()))
    files = {"zz_verif_c07_test.go": os.path.join(HARNESS, "overlay/pickle/zz_verif_c07_test.go"),
             "zz_verif_c15_dag_test.go": os.path.join(HARNESS, "overlay/pickle/zz_verif_c15_dag_test.go")}
    rc, o = ctx.go_overlay_test("pickle", files, "^TestVerifC15Dag$", {"VERIF_IN": inp, "VERIF_OUT": outp})
    got = {}
    if os.path.exists(outp):
        for line in open(outp, errors="replace"):
            f = line.rstrip("\n").split("\t")
            if f[0] == "dag" and len(f) == 5:
                got[int(f[1])] = f
    res = []
    for i, (shape, d, unp, where) in enumerate(cases):
        f = got.get(i, ["dag", str(i), "no-answer", "0", "-"])
        res.append((shape, d, unp, where, dag_input(shape, d), f[2], int(f[3]), f[4]))
    return rc, o, res


def src_how(mode, k):
    if mode.startswith("b64:"):
        return ("pickle.NewDecoder(base64.NewDecoder(base64.StdEncoding, r), unpickler).Decode() where r holds the standard "
                "base64 encoding of input_hex with the character at index %d replaced by the character with code %s"
                % (k, mode[4:]))
    return ("pickle.NewDecoder(src, unpickler).Decode() where src delivers the first %d bytes of input_hex and then fails "
            "(mode %s: see srcFault in harness/overlay/pickle/zz_verif_c15_source_test.go)" % (k, mode))


def classify(out):
    return out.split(" ", 1)[0]


def run(ctx):
    base.raise_stack()
    with base.GenGuard():
        if not base.regen_constants(ctx):
            return
        run_inner(ctx)


def run_inner(ctx):
    ok, rep = ctx.coq_props("Pickle/Props_C15.v")
    proof_broken = not ok
    okr, _ = ctx.coq_build(["Pickle/Run.vo"])
    if not okr:
        ctx.violation("the pickle model no longer builds against the regenerated constants",
                      {"theorem_or_correspondence": "Pickle/Model.v, Pickle/Run.v against Gen/Opcodes.v"}, found_input=False)
        return
    rng = random.Random(ctx.seed)
    quick = ctx.quick()

    # pass 1: valid encodings from the implementation's encoder
    valid = gen_valid(rng, quick)
    lines = ["rt\t%d\t%s" % (i, go_desc(n, r)) for i, (n, r) in enumerate(valid)]
    rc, o, res, oracles1 = base.run_pickle_harness(ctx, lines, "c15valid")
    if rc != 0:
        ctx.log(o[-3000:])
        ctx.violation("pickle harness failed to build or run against /repo (exit %d)" % rc,
                      {"theorem_or_correspondence": "C15 correspondence harness (pickle)", "output": o[-3000:]}, found_input=False)
        return
    encs = []
    for i in range(len(valid)):
        e = res[i][3]
        if e not in ("err", "panic") and len(e) // 2 <= 700:
            encs.append(bytes.fromhex(e))
    encs = list(dict.fromkeys(encs))

    # the input streams
    inputs = []   # (stream, bytes)
    for e in encs:
        inputs.append(("valid", e))
    for d in directed():
        inputs.append(("directed", d))
    budget = 14000 if quick else 45000
    muts = []
    for e in encs:
        muts += mutations(e, rng, quick)
    if len(muts) > budget:
        # keep every truncation of the short encodings, sample the rest
        keep = [m for m in muts if m[0] == "truncate" and len(m[1]) < 120]
        rest = [m for m in muts if not (m[0] == "truncate" and len(m[1]) < 120)]
        muts = keep + rng.sample(rest, max(0, budget - len(keep)))
    inputs += muts
    for _ in range(3000 if quick else 12000):
        inputs.append(("random", random_stream(rng)))
    seen, uniq, skipped = set(), [], 0
    for s, b in inputs:
        if b in seen:
            continue
        seen.add(b)
        if oversize(b):
            skipped += 1
            continue
        uniq.append((s, b))
    inputs = uniq

    # pass 2: pickle package (nil unpickler for even ids, object-preserving test unpickler for odd; directed: both)
    plines, pmeta = [], []
    for s, b in inputs:
        for unp in ((0, 1) if s in ("directed", "valid") else (len(pmeta) % 2,)):
            plines.append("dec\t%d\t%d\t%s" % (len(pmeta), unp, b.hex()))
            pmeta.append((s, b, unp))
    rc, o, pres, oracles2 = base.run_pickle_harness(ctx, plines, "c15dec")
    if rc != 0 and ctx.died_on is not None:
        s, b, unp = pmeta[ctx.died_on]
        ctx.violation("the process died (fatal error) while decoding %d input bytes (%s stream)" % (len(b), s),
                      {"oracle": "process-died", "input_hex": b.hex(), "unpickler": ["nil", "object-preserving test unpickler"][unp],
                       "output_tail": o[-1500:], "how": "pickle.NewDecoder(bytes.NewReader(input), unpickler).Decode()"})
        return
    if rc != 0:
        ctx.log(o[-3000:])
        ctx.violation("pickle harness failed on the decode stream (exit %d): the test process died" % rc,
                      {"theorem_or_correspondence": "C15 decode stream (pickle)", "output": o[-3000:]}, found_input=False)
        return


    # pass 2b: the same decoder reading from sources that fail (a non-EOF read error after a prefix, a corrupted base64
    # character in the persisted form): a failure of the source must come out as an error, never as a hang
    sdatas, scases = gen_source_cases(inputs, rng, quick)
    t0 = time.time()
    rc, o, sres, oracles5, sdied = run_source_harness(ctx, sdatas, scases)
    if rc != 0 and sdied is not None:
        di, s, unp, mode, k = scases[sdied]
        ctx.violation("the process died (fatal error) while decoding %d input bytes (%s stream) from a failing source"
                      % (len(sdatas[di]), s),
                      {"oracle": "process-died", "input_hex": sdatas[di].hex(), "source": mode, "k": k,
                       "unpickler": ["nil", "object-preserving test unpickler"][unp], "output_tail": o[-1500:],
                       "how": src_how(mode, k)})
        return
    if rc != 0 or len(sres) != len(scases):
        ctx.log(o[-3000:])
        ctx.violation("failing-source harness failed to build or run (exit %d, %d of %d cases answered)" % (rc, len(sres), len(scases)),
                      {"theorem_or_correspondence": "C15 failing-source harness (pickle)", "output": o[-3000:]}, found_input=False)
        return
    ctx.log("failing sources: %d cases over %d byte strings in %.1fs, %d oracle failures" % (len(scases), len(sdatas), time.time() - t0, len(oracles5)))

    # pass 2c: shared tuples as hashed keys, the deep members (depths 1..12 are ordinary directed inputs above)
    t0 = time.time()
    rc, o, dagres = run_dag_harness(ctx, quick)
    if rc != 0:
        ctx.log(o[-3000:])
        ctx.violation("shared-tuple harness failed to build or run (exit %d)" % rc,
                      {"theorem_or_correspondence": "C15 shared-tuple harness (pickle)", "output": o[-3000:]}, found_input=False)
        return
    dag_dist, dag_times, known_hangs = {}, {}, []
    for shape, d, unp, where, b, outcome, us, what in dagres:
        kind = "hashed" if shape in DAG_HASHED else "control"
        k = "dag:%s:%s:%s" % (kind, "inproc" if where == "inproc" else "child", outcome)
        dag_dist[k] = dag_dist.get(k, 0) + 1
        if shape == "dict-key" and unp == 0 and outcome == "ok":
            dag_times[d] = us
        replay = {"oracle": "dag-" + outcome, "input_hex": b.hex(), "shape": shape, "depth": d,
                  "unpickler": ["nil", "object-preserving test unpickler"][unp], "microseconds": us,
                  "how": "pickle.NewDecoder(bytes.NewReader(input), unpickler).Decode() "
                         + ("in process" if where == "inproc" else "in a subprocess, %s s watchdog" % where[6:])
                         + "; input = dag_input(%r, %d) of checks/C15.py" % (shape, d)}
        if outcome == "ok" and what == "dag:%d" % d:
            continue
        if outcome == "hang" and kind == "hashed" and where != "inproc" and d > 24:
            known_hangs.append((shape, d, len(b), replay))
            continue
        ctx.violation("pickle Decode of a %d-level shared tuple as %s (%d input bytes): %s%s"
                      % (d, shape, len(b), outcome, "" if outcome != "ok" else ", but the decoded value is not the shared tuple (%s)" % what),
                      replay)
    if known_hangs:
        # the decoder has finished with the input; the time goes into hashing the key in the host value library
        ctx.violation("pickle Decode does not return within the watchdog: a shared tuple of %s levels as %s (%s input bytes)"
                      % ("/".join(sorted({str(h[1]) for h in known_hangs})), ", ".join(dict.fromkeys(h[0] for h in known_hangs)),
                         "-".join(str(n) for n in sorted({min(h[2] for h in known_hangs), max(h[2] for h in known_hangs)}))),
                      dict(known_hangs[0][3], all_inputs=[{"shape": h[0], "depth": h[1], "input_hex": h[3]["input_hex"]} for h in known_hangs]),
                      key=KNOWN_DAG_HASH)
    ctx.log("shared tuples as hashed keys: %d deep cases in %.1fs: %s; dict key decoded in %s"
            % (len(dagres), time.time() - t0, dict(sorted(dag_dist.items())),
               ", ".join("%d levels: %d us" % (d, dag_times[d]) for d in sorted(dag_times))))

    # pass 3: package dawn (real envUnpickler, diffEnv reasons), then the record layer
    inp = os.path.join(ctx.tmp, "c15env.in")
    outp = os.path.join(ctx.tmp, "c15env.out")
    with open(inp, "w") as f:
        for i, (s, b) in enumerate(inputs):
            f.write("dec\t%d\t%s\n" % (i, b.hex()))
    files = {"zz_verif_c15_env_test.go": os.path.join(HARNESS, "overlay/root/zz_verif_c15_env_test.go"),
             "zz_verif_c15_record_test.go": os.path.join(HARNESS, "overlay/root/zz_verif_c15_record_test.go")}
    rc, o = ctx.go_overlay_test("", files, "^TestVerifC15Env$", {"VERIF_IN": inp, "VERIF_OUT": outp})
    if rc != 0 and os.path.exists(outp):
        begun, done = None, set()
        for line in open(outp, errors="replace"):
            f = line.rstrip("\n").split("\t")
            if f[0] == "begin":
                begun = int(f[1])
            elif f[0] == "dec":
                done.add(int(f[1]))
        if begun is not None and begun not in done:
            ctx.violation("the process died (fatal error) while decoding with envUnpickler: %s" % inputs[begun][1].hex()[:120],
                          {"oracle": "process-died", "input_hex": inputs[begun][1].hex(), "output_tail": o[-1500:],
                           "how": "pickle.NewDecoder(r, pickle.UnpicklerFunc(envUnpickler)).Decode()"})
            return
    if rc != 0:
        ctx.log(o[-3000:])
        ctx.violation("dawn-package harness failed to build or run (exit %d)" % rc,
                      {"theorem_or_correspondence": "C15 correspondence harness (envUnpickler)", "output": o[-3000:]}, found_input=False)
        return
    eres, reasons, oracles3 = {}, [], []
    for line in open(outp):
        f = line.rstrip("\n").split("\t")
        if f[0] == "ORACLE":
            oracles3.append(f)
        elif f[0] == "dec":
            eres[int(f[1])] = f[2]
        elif f[0] == "begin":
            pass
        elif f[0] == "reason":
            reasons.append(f)

    recp = os.path.join(ctx.tmp, "c15rec.out")
    t0 = time.time()
    rc, o = ctx.go_overlay_test("", files, "^TestVerifC15Record$",
                                {"VERIF_OUT": recp, "VERIF_SEED": str(ctx.seed), "VERIF_TIER": ctx.tier}, timeout=1500)
    if rc != 0:
        ctx.log(o[-3000:])
        ctx.violation("record-layer harness failed to build or run (exit %d)" % rc,
                      {"theorem_or_correspondence": "C15 record-layer harness", "output": o[-3000:]}, found_input=False)
        return
    rec_dist, oracles4, nrec = {}, [], 0
    for line in open(recp):
        f = line.rstrip("\n").split("\t")
        if f[0] == "ORACLE":
            oracles4.append(f)
        else:
            nrec += (f[2] != "mp-schedule")
            k = "record:%s:%s" % (f[2], f[4])
            rec_dist[k] = rec_dist.get(k, 0) + 1
    ctx.log("record layer: %d corruptions in %.1fs: %s" % (nrec, time.time() - t0, {k: v for k, v in sorted(rec_dist.items())}))
    nvalid = sum(v for k, v in rec_dist.items() if k.endswith(":uptodate-valid-unmarked-record"))
    if nvalid:
        ctx.log("record layer: %d corruptions of a marked record are, strictly decoded, valid current records without the marker "
                "(undetectable without a checksum; accepted)" % nvalid)
    unenforced = sum(v for k, v in rec_dist.items() if k.startswith("record:mp-schedule:"))
    if unenforced:
        ctx.log("note: %d load schedules of project multi could not be enforced (hold released after 5 s)" % unenforced)

    # ---- oracle failures on the implementation
    for f in oracles2:
        s, b, unp = pmeta[int(f[2])]
        ctx.violation("pickle Decode %s on %d input bytes (%s stream)" % (f[1], len(b), s),
                      {"oracle": f[1], "input_hex": b.hex(), "unpickler": ["nil", "object-preserving test unpickler"][unp],
                       "how": "pickle.NewDecoder(bytes.NewReader(input), unpickler).Decode()"})
    shown5, seen5 = [], set()
    for f in oracles5:                                   # one report per (oracle, failure mode), at most four
        mode = scases[int(f[2])][3]
        kk = (f[1], "b64" if mode.startswith("b64:") else mode)
        if kk not in seen5 and len(shown5) < 4:
            seen5.add(kk)
            shown5.append(f)
    if len(oracles5) > len(shown5):
        ctx.log("failing sources: %d oracle failures, %d reported" % (len(oracles5), len(shown5)))
    for f in shown5:
        di, s, unp, mode, k = scases[int(f[2])]
        what = {"source-hang": "does not return (more than 65536 further reads from a source that has failed)",
                "source-panic": "panics", "source-nilnil": "returns (nil, nil)",
                "source-error-swallowed": "returns a value although the source failed before delivering it"}.get(f[1], f[1])
        ctx.violation("pickle Decode %s: %d input bytes (%s stream), source %s at %d" % (what, len(sdatas[di]), s, mode, k),
                      {"oracle": f[1], "input_hex": sdatas[di].hex(), "source": mode, "k": k, "detail": f[3],
                       "unpickler": ["nil", "object-preserving test unpickler"][unp], "how": src_how(mode, k)})
    for f in oracles3:
        if f[1].startswith("env-decode"):
            ctx.violation("pickle Decode with envUnpickler: %s" % f[1],
                          {"oracle": f[1], "input_hex": f[3], "how": "pickle.NewDecoder(r, pickle.UnpicklerFunc(envUnpickler)).Decode()"})
        else:
            ctx.violation("diffEnv reason construction: %s for key set %s extra=%s" % (f[1], f[2], f[3]),
                          {"oracle": f[1], "mask": f[2], "extra_key": f[3], "how": "(&function{oldEnv, newEnv}).diffEnv(), see c15reason"})
    shown4, seen4 = [], set()
    # hangs and deaths first, then the corruptions of a record that carried the re-run marker
    oracles4.sort(key=lambda f: (f[1] not in ("record-hang", "record-died"), not (f[3].startswith("marked-") or "marked" in f[4])))
    for f in oracles4:                                   # at most two reports per (oracle, record, corruption kind)
        kk = (f[1], f[2], f[3])
        if sum(1 for x in shown4 if (x[1], x[2], x[3]) == kk) < 2 and len(shown4) < 6:
            shown4.append(f)
    if len(oracles4) > len(shown4):
        ctx.log("record layer: %d oracle failures, %d reported" % (len(oracles4), len(shown4)))
    for f in shown4:
        ctx.violation("corrupted record %s (%s %s): %s" % (f[2], f[3], f[4], f[1]),
                      {"oracle": f[1], "record_file": ".dawn/build/targets/" + f[2].split("/", 1)[-1],
                       "project": ("c15RichBuildFile" if f[2].startswith("rich/") else
                                   "c15MultiFiles (four packages and a shared module), loaded under the schedule named in detail "
                                   "(free | first | last: VERIF_C15_SCHED, c15schedule)" if f[2].startswith("multi/") else "c15BuildFile"),
                       "corruption": f[3], "detail": f[4],
                       "corrupted_record_hex": f[5], "how": ("TestVerifC15Record: decode the stamp (field \"stamp\" of this record) as function.load does: "
                               "pickle.NewDecoder(base64.NewDecoder(base64.StdEncoding, strings.NewReader(stamp)), "
                               "pickle.UnpicklerFunc(envUnpickler)).Decode()") if f[3] == "stamp-b64-inprocess" else
                       "TestVerifC15Record: restore pristine .dawn, write this record, Load+Run //:default in a subprocess"})
    for f in oracles1:
        ctx.log("note: C07 oracle failure on a C15 valid value (reported by C07):", f[:3])

    # ---- model evaluation
    items, dist = [], {}
    r = Render()
    idx = 0
    meta = []

    def exp_term(out):
        if out.startswith("ok "):
            return "(DOk %s)" % r.cv(parse_dump(out[3:]))
        return "DErr" if out == "err" else None

    nontrivial = set()
    for i, (s, b, unp) in enumerate(pmeta):
        out = pres[i][2]
        key = "%s:%s:%s" % (s, ["nil", "obj"][unp], classify(out))
        dist[key] = dist.get(key, 0) + 1
        e = exp_term(out)
        if e is None:
            continue      # panic / nilnil: already an oracle failure
        if out.startswith("ok "):
            nontrivial.add((b, unp))
        items.append((len(meta), "CDecode %d %s %s" % (unp, cq_bytes(b), e), len(b) + len(out) + 100))
        meta.append((s, b, ["nil", "obj"][unp], out))
    for i, (s, b) in enumerate(inputs):
        out = eres[i]
        key = "%s:env:%s" % (s, classify(out))
        dist[key] = dist.get(key, 0) + 1
        e = exp_term(out)
        if e is None:
            continue
        if out.startswith("ok "):
            nontrivial.add((b, 2))
        items.append((len(meta), "CDecode 2 %s %s" % (cq_bytes(b), e), len(b) + len(out) + 100))
        meta.append((s, b, "env", out))
    # failing sources: the answer must be the answer for the bytes delivered before the failure (to the model, a source
    # is the bytes it delivers: Pickle/Source.v), which the implementation itself gives for that prefix in memory
    have = {(unp, b) for (s_, b, unp) in pmeta}
    src_disagree, cand, nfault = [], [], 0
    for i, (di, s, unp, mode, k) in enumerate(scases):
        f = sres[i]
        nerr, out, prefix = int(f[3]), f[4], f[5]
        mclass = "b64" if mode.startswith("b64:") else mode
        key = "source:%s:%s:%s" % (s, mclass, classify(out) if nerr else "no-failure-" + classify(out))
        dist[key] = dist.get(key, 0) + 1
        if nerr == 0:
            continue
        nfault += 1
        got = sdatas[di][:int(f[2])] if f[6] == "=" else bytes.fromhex(f[6])
        if out != prefix and out not in ("hang", "panic", "nilnil"):
            src_disagree.append((i, got, out, prefix))
        if (out == "err" or out.startswith("ok ")) and (unp, got) not in have and not oversize(got) and len(got) <= 700:
            cand.append((i, unp, got, out))
    seen_c, uniq_c = set(), []
    for c in cand:
        if (c[1], c[2]) not in seen_c:
            seen_c.add((c[1], c[2]))
            uniq_c.append(c)
    nsrc_budget = 2000 if quick else 8000
    if len(uniq_c) > nsrc_budget:
        uniq_c = rng.sample(uniq_c, nsrc_budget)
    for i, unp, got, out in uniq_c:
        di, s, _, mode, k = scases[i]
        if out.startswith("ok "):
            nontrivial.add((got, unp))
        items.append((len(meta), "CDecode %d %s %s" % (unp, cq_bytes(got), exp_term(out)), len(got) + len(out) + 100))
        meta.append(("source:%s:%s@%d" % (s, mode, k), sdatas[di], ["nil", "obj"][unp], out))
    dist["source:model-evaluated-prefixes"] = len(uniq_c)
    for f in reasons:
        if f[3] in ("eq", "panic", "err"):
            continue
        mask = "[" + "; ".join("true" if c == "1" else "false" for c in f[1]) + "]"
        items.append((len(meta), "CReason %s %s" % (mask, cq_bytes(bytes.fromhex(f[3]))), 300))
        meta.append(("reason", f[1].encode(), "extra=" + f[2], f[3]))
        dist["reason"] = dist.get("reason", 0) + 1
    dist["skipped:declared-length-exceeds-input"] = skipped
    dist.update(rec_dist)
    dist.update(dag_dist)
    dist["dag:dict-key:microseconds-by-depth " + " ".join("%d:%d" % (d, dag_times[d]) for d in sorted(dag_times))] = len(dag_times)

    ctx.coverage["evaluations"] = len(meta) + nrec + nfault + len(dagres)
    ctx.coverage["distinct_nontrivial"] = len(nontrivial)
    ctx.coverage["rule"] = ("%d valid encodings (scalars at width boundaries, containers, aliasing, dawn-shaped host objects well- and "
                            "ill-formed, random graphs); every truncation, %s single-byte deletions and opcode-weighted substitutions "
                            "of them; %d opcode-weighted random strings <= 64 bytes; %d directed strings (key equality, mark "
                            "placement, INT text grammar, unknown opcodes, memo-built shared tuples of 1-12 levels as dict key / "
                            "set element / inside a tuple key / unhashed); each decoded with nil / object-preserving / real "
                            "envUnpickler; inputs whose declared 4-byte length exceeds the input size are skipped (%d); %d decodings "
                            "from failing sources over %d of these byte strings (valid + directed: sticky failure after every "
                            "prefix with both unpicklers, five other failure modes after every / 24 sampled prefixes, one damaged "
                            "base64 character per quantum (thorough: every character); sampled mutated / random strings: failures "
                            "at random places), %d of them with a failure actually met, %d delivered prefixes not already in the "
                            "streams evaluated by the model; all 1023 key-difference sets through diffEnv; %d record corruptions "
                            "(in-process stamp decodings with every character damaged + subprocess builds of: truncations, "
                            "single-byte, structure, retype and multi-byte corruptions of the clean and of the marked (re-run "
                            "marker set) state of each record of a one-package project, damaged base64 characters of a project "
                            "with every operand kind, and a corruption menu x 4 victims x 3 load schedules of a four-package "
                            "project). non-trivial = decodes "
                            "to a value; distinct by (input, unpickler)"
                            % (len(encs), "sampled" if quick else "all", 3000 if quick else 12000, len(directed()), skipped,
                               len(scases), len(sdatas), nfault, len(uniq_c), nrec))
    ctx.coverage["exhaustive"] = False
    ctx.coverage["correspondence"]["distribution"] = dist
    ctx.add_samples([[m[0], m[1].hex()[:80], m[2], m[3][:80]] for m in meta[::max(1, len(meta) // 5)]])

    okc, mism, logs, nshards = base.coq_mismatches(ctx, items, shard_weight=150000)
    if not okc:
        ctx.log("coq evaluation failed", logs[:1])
        ctx.violation("model evaluation failed", {"theorem_or_correspondence": "C15 cases evaluation", "log": logs[:2]}, found_input=False)
        return
    ctx.coverage["correspondence"]["cases"] = len(items)
    ctx.coverage["correspondence"]["mismatches"] = len(mism)
    noracle = len(oracles2) + len(oracles3) + len(oracles4) + len(oracles5)
    if src_disagree and not noracle:
        ex = []
        for i, got, out, prefix in src_disagree[:8]:
            di, s, unp, mode, k = scases[i]
            ex.append({"stream": s, "input_hex": sdatas[di].hex(), "source": mode, "k": k, "delivered_hex": got.hex(),
                       "unpickler": ["nil", "obj"][unp], "implementation_failing_source": out[:2000],
                       "implementation_delivered_bytes_in_memory": prefix[:2000], "how": src_how(mode, k)})
        ctx.violation("a failing source is not decoded like the bytes it delivered (the model's answer): %d cases, e.g. %s "
                      "source %s at %d: %s, but %s for the delivered bytes in memory"
                      % (len(src_disagree), ex[0]["input_hex"][:60], ex[0]["source"], ex[0]["k"], ex[0]["implementation_failing_source"][:40],
                         ex[0]["implementation_delivered_bytes_in_memory"][:40]),
                      {"theorem_or_correspondence": "correspondence Pickle/Source.v (decode_source) <-> pickle/decode.go reader.Read",
                       "disagreeing_cases": ex}, found_input=False)
    ctx.log("inputs=%d coq-items=%d shards=%d mismatches=%d oracle_failures=%d" % (len(inputs), len(items), nshards, len(mism), noracle))
    if mism and not noracle:
        ex = [{"stream": meta[m][0], "input_hex": meta[m][1].hex(), "unpickler": meta[m][2], "implementation": meta[m][3][:2000]}
              for m in mism[:8]]
        ctx.violation("model/implementation disagree on %d inputs, e.g. %s with %s unpickler: implementation says %s"
                      % (len(mism), ex[0]["input_hex"][:80], ex[0]["unpickler"], ex[0]["implementation"][:80]),
                      {"theorem_or_correspondence": "correspondence Pickle/Model.v <-> pickle/decode.go, function.go envUnpickler/diffEnv",
                       "disagreeing_cases": ex}, found_input=False)
    if proof_broken and not ctx.violations:
        ctx.violation("a C15 theorem no longer checks", {"theorem_or_correspondence": getattr(ctx, "broken_proof", {})},
                      found_input=False)
