"""C11 — Requirement edits keep the requirement graph consistent."""
import json
import os
import re
from lib.vlib import *
from checks import C10 as base

META = {
    "property_id": "C11",
    "technique": "Coq proof over a Gallina model of pgavlin/mvs Req/Upgrade/UpgradeAll/Downgrade, dawn's Reqs, query "
                 "resolver and transformReqs + correspondence on generated universes and operation sequences",
    "level_text": "Theorems (Coq, unbounded, all closed under the global context) about the model of get.go/query.go/"
                  "reqs.go and the library: tidy_preserves_build_list; tidy_versions_sound (Algorithm R regenerates the "
                  "build list); upgrade_contains_and_no_lower + upgrade_resolves (get add/no-op/upgrade for whatever "
                  "version the query resolved to: >= resolved, nothing lowered); patch_upgrade_not_below_selection + "
                  "patch_upgrade_lowers_nothing (a patch or upgrade query never resolves below the selected version, be "
                  "it a tag or the pseudo-version of an untagged commit, so get never downgrades for them); "
                  "upgrade_all_no_lower (+ every project "
                  "reaches Reqs.Upgrade's version); names_preserved_new_names_unique; tidy_idempotent; get_idempotent "
                  "under the reported hypothesis 'the build list has the resolved version' with "
                  "get_idempotent_refuted (F16 witness, vm_compute) and resolve_query_bl_independent; "
                  "previous_strictly_lower (the F13 fact). None of them assumes that a path has one name: a root may name "
                  "one path under several names at equal or different versions (the former hypothesis paths_unique is "
                  "gone from upgrade_contains_and_no_lower, patch_upgrade_lowers_nothing and get_idempotent, now that "
                  "transformReqs is modelled after c4f8df7: a name whose own requirement is handed back keeps it, any "
                  "other name of the path gets the highest returned version); names_preserved_any_list states the name "
                  "clause for ANY computed list (repeated paths included), highest_is_the_maximum characterises "
                  "'highest', old_names_order_independent shows the re-bound names do not depend on the order in which "
                  "the (Go-map ordered) list is scanned, aliased_root_example is the instance behind fixes af3ea3a/c4f8df7. "
                  "mvs.Downgrade is proved in full: down_list_reach + "
                  "down_list_no_hang (the add/exclude/previous phase - the formerly missing lemma down_list_spec: its "
                  "result only reaches nodes of the finite node set, none a version of the requested project above "
                  "the request, and it exhausts neither the add/exclude depth fuel nor the for-excluded loop fuel), "
                  "mvs_downgrade_at_or_below (library level), downgrade_at_or_below (get's downgrade branch for "
                  "whatever version the query resolved to: the new requirements resolve and their build list has the "
                  "project absent or at or below the resolved version), downgrade_terminates (neither mvs.Downgrade "
                  "nor Downgrade-then-ReqList hangs or panics), with downgrade_example (cycle, rdeps propagation, "
                  "previous-loop). upgrade_all_idempotent (the repeat explores a subgraph that still contains the plain graph of the "
                  "new requirements) with upgrade_all_idempotent_example. The model is tied to the code by running Get "
                  "(every query class), Tidy and UpgradeAll in sequences of 1-4 operations on generated universes, including "
                  "universes and roots that require untagged commits (selections that are no tag) with queries aimed at "
                  "those selections, and ALIASED roots (one path under 2-3 names: equal versions, the lower version under "
                  "the alphabetically first / last name, mixed) with get of absent projects, get of the selected version, "
                  "queries on the aliased path, tidy and upgrade-all; patch/upgrade resolution is compared with an "
                  "independent reference; every application is run 3 times (aliased: 8 times) on a fresh root map and "
                  "the runs must agree (result-depends-on-map-order); every "
                  "resulting configuration is recomputed by the model (including every downgrade, with a watchdog) and the "
                  "statement's inequalities are checked directly against an independent build-list reference.",
    "level_note": "Trusted: Coq kernel; python rendering of versions into semver records and the syntactic "
                  "classification of the query string (after the implementation's own parseVersionQuery). Hypotheses "
                  "stated in the theorems: requirements name non-empty paths at canonical versions (wf_universe/"
                  "wf_reqs), the resolved version is such a node (wf_node version), requirement names are unique (a Go "
                  "map). Known findings get-downgrade-overshoot and get-patch-absent are "
                  "reported under their keys.",
    "design_ref": "DESIGN.md §6 C11",
}

HDR = base.HDR
PSEUDO = re.compile(r"[-.]\d{14}-[0-9A-Za-z]+$")   # module.IsPseudoVersion


def cq_range_version(s):
    """version text of a range query -> (canonical record, was_canonical) or None when not valid semver"""
    import re
    m = re.match(r"^v(0|[1-9]\d*)(?:\.(0|[1-9]\d*))?(?:\.(0|[1-9]\d*))?(-[0-9A-Za-z.-]+)?(\+[0-9A-Za-z.-]+)?$", s)
    if not m:
        return None
    short = m.group(2) is None or m.group(3) is None
    if short and (m.group(4) or m.group(5)):
        return None  # semver.IsValid: vMAJOR[.MINOR] takes no prerelease/build
    ids = m.group(4)[1:].split(".") if m.group(4) else []
    for i in ids:
        if i == "" or (i.isdigit() and len(i) > 1 and i[0] == "0"):
            return None
    if m.group(5) and any(x == "" for x in m.group(5)[1:].split(".")):
        return None
    t = (int(m.group(1)), int(m.group(2) or 0), int(m.group(3) or 0), ids)
    canonical = not short and not m.group(5)
    return t, canonical


def cq_query(q):
    """query.query (after parseVersionQuery) -> qkind term, mirroring the switch of resolveVersionQuery"""
    if q in ("", "latest"):
        return "QLatest"
    if q == "upgrade":
        return "QUpgrade"
    if q == "patch":
        return "QPatch"
    if q[0] in "<>":
        body = q[1:]
        incl = body.startswith("=")
        if incl:
            body = body[1:]
        r = cq_range_version(body) if body else None
        if r is None:
            return "QBad"
        con = {("<", False): "RLt", ("<", True): "RLe", (">", False): "RGt", (">", True): "RGe"}[(q[0], incl)]
        return "(QRange (%s (VSem %s)))" % (con, base.cq_semver(r[0]))
    if q[0] == "v":
        r = cq_range_version(q)
        if r is not None:
            return "(QRange (%s (VSem %s)))" % ("RExact" if r[1] else "RFrom", base.cq_semver(r[0]))
    return "(QRef %s)" % base.cq_str(q)


def cq_op(c):
    op = c["op"]["op"]
    if op == "tidy":
        return "OpTidy"
    if op == "upgradeall":
        return "OpUpgradeAll"
    return "(OpGet %s %s)" % (base.cq_str(c["qp"][0]), cq_query(c["qp"][1]))


def cq_cfg_result(r):
    if r["st"] == "ok":
        return "(Ok %s)" % base.cq_config(r["cfg"])
    return {"err": "Err", "panic": "Panic", "hang": "OutOfFuel"}[r["st"]]


def run(ctx):
    ok, rep = ctx.coq_props("Mvs/Props_C11.v")
    proof_broken = not ok
    okr, outr = ctx.coq_build(["Mvs/Run.vo"])
    if not okr:
        ctx.violation("the model does not compile", {"theorem_or_correspondence": "Mvs/Run.vo", "log": outr[-2000:]},
                      found_input=False)
        return

    nuniv = 220 if ctx.quick() else 1500
    out = os.path.join(ctx.tmp, "c11.jsonl")
    env = {"VERIF_OUT": out, "VERIF_NUNIV": str(nuniv), "VERIF_NSEQ": "3", "VERIF_SEED": str(ctx.seed),
           "VERIF_DUP_PATHS": os.environ.get("VERIF_DUP_PATHS", "0")}
    rc, o = ctx.go_overlay_test("internal/mvs", base.harness_files(), "^TestVerifC11$", env, timeout=1500)
    recs = base.read_jsonl(out)
    ctx.log("proofs checked: %s; harness finished (exit %d, %d records)" % (ok, rc, len(recs)))
    if rc != 0:
        ctx.log(o[-3000:])
        cc = base.crashed_case(recs)
        if cc is not None and recs:
            unis = {r["id"]: r for r in recs if r["t"] == "U"}
            ctx.violation("a requirement edit crashed the process on generated case %d" % cc,
                          {"case": cc, "last_universe": unis[max(unis)] if unis else None, "output": o[-3000:],
                           "how": "VERIF_SEED=%d go test -overlay ... -run TestVerifC11 ./internal/mvs" % ctx.seed})
        else:
            ctx.violation("mvs harness failed to build or run against /repo (exit %d)" % rc,
                          {"theorem_or_correspondence": "C11 correspondence harness", "output": o[-3000:]}, found_input=False)
        return

    unis = {r["id"]: r for r in recs if r["t"] == "U"}
    cases = [r for r in recs if r["t"] == "C11"]
    oracles = [r for r in recs if r["t"] == "ORACLE"]
    dist = {}
    dist_untagged = {}   # get on a project that is selected at a pseudo-version (no tag), by query class
    for c in cases:
        k = c["op"]["op"]
        if k == "get":
            t = cq_query(c["qp"][1])
            k += ":" + ("QRef" if t.startswith("(QRef") else t.split("(")[2].split(" ")[0] if t.startswith("(QRange") else t)
        k += ":" + c["res"]["st"]
        dist[k] = dist.get(k, 0) + 1
        if PSEUDO.search(c.get("sel", "")):
            dist_untagged[k] = dist_untagged.get(k, 0) + 1
    ctx.coverage["evaluations"] = len(cases)
    ctx.coverage["distinct_nontrivial"] = len({json.dumps([c["u"], c["cfg"], c["op"]]) for c in cases
                                               if c["res"]["st"] == "ok" and c["res"]["cfg"] != c["cfg"]})
    ctx.coverage["rule"] = ("%d generated universes (as C10) x 3 root requirement sets x sequences of 1-4 operations drawn "
                            "from get (no query, latest, upgrade, patch, exact version, vX.Y prefix, >, >=, <, <=, branch "
                            "ref, unknown ref, malformed range, unknown project, explicit @v1, untagged major), tidy, "
                            "upgrade-all; every fourth universe has projects that require untagged commits (pseudo-"
                            "versions) of other projects, and one more sequence per universe starts from a root that "
                            "requires untagged commits and aims patch/upgrade/latest/version/range/ref queries at the "
                            "projects selected at one; a ref query that selects an untagged commit is followed by such a "
                            "query on the same project; one more sequence per universe (1-3 operations) starts from an "
                            "ALIASED root - one project path under 2-3 names, modes equal / low-first / low-last / mixed "
                            "in rotation - and draws get of a project absent from the build list, get of a present "
                            "project at its selected version, queries on the aliased path, tidy, upgrade-all; every "
                            "application is run 3 times (8 times from an aliased root) on freshly built root maps and "
                            "every distinct outcome is checked and compared with the model; every application is "
                            "repeated once on its own result; "
                            "non-trivial = the operation succeeded and changed the configuration" % nuniv)
    ctx.coverage["exhaustive"] = False
    ctx.coverage["correspondence"]["distribution"] = dist
    ctx.coverage["correspondence"]["distribution_selected_untagged"] = dist_untagged
    ctx.coverage["correspondence"]["untagged_family_cases"] = len([c for c in cases if c.get("fam") == "untagged"])
    alias_dist = {}
    for c in cases:
        if c.get("fam", "").startswith("aliased:"):
            vs = {}
            for e in c["cfg"]:
                vs.setdefault(e[1], set()).add(e[2])
            opk = c["op"]["op"]
            if opk == "get":
                opk = "get-present" if "sel" in c else "get-absent"
            k = c["fam"][8:] + ":" + opk + (":versions-differ" if any(len(x) > 1 for x in vs.values()) else ":versions-equal")
            alias_dist[k] = alias_dist.get(k, 0) + 1
    ctx.coverage["correspondence"]["aliased_family_cases"] = sum(alias_dist.values())
    ctx.coverage["correspondence"]["distribution_aliased"] = alias_dist
    ctx.coverage["correspondence"]["runs_per_application"] = {"default": int(os.environ.get("VERIF_RUNS", "3")),
                                                              "aliased_root": int(os.environ.get("VERIF_RUNS_ALIASED", "8"))}
    ctx.coverage["correspondence"]["universes_requiring_untagged_commits"] = len(
        [u for u in unis.values() if any(PSEUDO.search(r[1]) for s in u["sums"] for r in s[3])])
    ctx.add_samples([{"cfg": c["cfg"], "op": c["op"], "result": c["res"]} for c in cases
                     if c["res"]["st"] == "ok" and c["res"]["cfg"] != c["cfg"]][:4])

    real_oracles = 0
    seen = set()
    for f in oracles:
        name, _, key = f["name"].partition(":")
        if not key:
            real_oracles += 1
        if f["name"] in seen:
            continue
        seen.add(f["name"])
        detail = {k: v for k, v in f.items() if k not in ("t", "name", "u", "cfg", "op")}
        ctx.violation("implementation violates C11 oracle %s on %s %s: %s" % (
            name, f["op"]["op"], f["op"].get("q", ""), json.dumps(detail)[:400]),
            {"oracle": f["name"], "universe": unis[f["u"]], "configuration": f["cfg"], "operation": f["op"],
             "detail": detail, "how": "internal/mvs Get/Tidy/UpgradeAll on the universe served by the package's fake "
                                      "dialer; see harness/overlay/internal/mvs/zz_verif_c11_test.go (VERIF_SEED=%d)" % ctx.seed},
            key=key or None)

    # model evaluation inside Coq, sharded by universe
    groups = {}
    for i, c in enumerate(cases):
        groups.setdefault(c["u"], []).append((i, c))
    exprs = []
    cur, n = [], 0
    for uid, cs in groups.items():
        items = ["(%s, (%s, %s, %s))" % (cq_N(i), base.cq_config(c["cfg"]), cq_op(c), cq_cfg_result(c["res"]))
                 for i, c in cs]
        cur.append("(%s,\n  %s)" % (base.cq_universe(unis[uid]), cq_list(items)))
        n += len(cs)
        if n >= 150:
            exprs.append("mismatches_c11 [\n" + ";\n".join(cur) + "]")
            cur, n = [], 0
    if cur:
        exprs.append("mismatches_c11 [\n" + ";\n".join(cur) + "]")
    okc, res, logs = ctx.coq_eval(HDR, exprs)
    if not okc:
        ctx.log("coq evaluation failed", logs[:1])
        ctx.violation("model evaluation failed", {"theorem_or_correspondence": "C11 cases.v evaluation", "log": logs[:2]},
                      found_input=False)
        return
    mism = [i for r in res for i in r]
    ctx.coverage["correspondence"]["cases"] = len(cases)
    ctx.coverage["correspondence"]["mismatches"] = len(mism)
    ctx.log("cases=%d mismatches=%d oracle_failures=%d (outside known classes: %d)" % (
        len(cases), len(mism), len(oracles), real_oracles))
    if mism and not real_oracles:
        ex = [{"universe": unis[cases[i]["u"]], "configuration": cases[i]["cfg"], "operation": cases[i]["op"],
               "implementation": cases[i]["res"]} for i in mism[:3]]
        ctx.violation("model/implementation disagree on %d edits, e.g. %s on %s" % (len(mism), ex[0]["operation"],
                                                                                     ex[0]["configuration"]),
                      {"theorem_or_correspondence": "correspondence Mvs/Edit.v <-> internal/mvs get.go/query.go/reqs.go "
                                                    "+ pgavlin/mvs", "disagreeing_cases": ex}, found_input=False)
    if proof_broken and not ctx.violations:
        ctx.violation("a C11 theorem no longer checks", {"theorem_or_correspondence": getattr(ctx, "broken_proof", {})},
                      found_input=False)
