"""C11 — Requirement edits keep the requirement graph consistent."""
import json
import os
import re
from lib.vlib import *
from checks import C10 as base

META = {
    "property_id": "C11",
    "technique": "Coq proof over a Gallina model of pgavlin/mvs Req/Upgrade/UpgradeAll/Downgrade, dawn's Reqs, query "
                 "resolver and transformReqs + correspondence on generated universes and operation sequences",
    "level_text": "Theorems (Coq, unbounded, all closed under the global context) about the model of get.go/query.go/"
                  "reqs.go and the library: tidy_preserves_build_list; tidy_versions_sound (Algorithm R regenerates the "
                  "build list); upgrade_contains_and_no_lower + upgrade_resolves (get add/no-op/upgrade for whatever "
                  "version the query resolved to: >= resolved, nothing lowered); patch_upgrade_not_below_selection + "
                  "patch_upgrade_lowers_nothing (a patch or upgrade query never resolves below the selected version, be "
                  "it a tag or the pseudo-version of an untagged commit, so get never downgrades for them); "
                  "upgrade_all_no_lower (+ every project "
                  "reaches Reqs.Upgrade's version); names_preserved_new_names_unique; tidy_idempotent; get_idempotent "
                  "under the reported hypothesis 'the build list has the resolved version' with "
                  "get_idempotent_refuted (F16 witness, vm_compute) and resolve_query_bl_independent; "
                  "previous_strictly_lower (the F13 fact). mvs.Downgrade is proved in full: down_list_reach + "
                  "down_list_no_hang (the add/exclude/previous phase - the formerly missing lemma down_list_spec: its "
                  "result only reaches nodes of the finite node set, none a version of the requested project above "
                  "the request, and it exhausts neither the add/exclude depth fuel nor the for-excluded loop fuel), "
                  "mvs_downgrade_at_or_below (library level), downgrade_at_or_below (get's downgrade branch for "
                  "whatever version the query resolved to: the new requirements resolve and their build list has the "
                  "project absent or at or below the resolved version), downgrade_terminates (neither mvs.Downgrade "
                  "nor Downgrade-then-ReqList hangs or panics), with downgrade_example (cycle, rdeps propagation, "
                  "previous-loop). upgrade_all_idempotent (the repeat explores a subgraph that still contains the plain graph of the "
                  "new requirements) with upgrade_all_idempotent_example. The model is tied to the code by running Get "
                  "(every query class), Tidy and UpgradeAll in sequences of 1-4 operations on generated universes, including "
                  "universes and roots that require untagged commits (selections that are no tag) with queries aimed at "
                  "those selections, and with patch/upgrade resolution compared with an independent reference; every "
                  "resulting configuration is recomputed by the model (including every downgrade, with a watchdog) and the "
                  "statement's inequalities are checked directly against an independent build-list reference.",
    "level_note": "Trusted: Coq kernel; python rendering of versions into semver records and the syntactic "
                  "classification of the query string (after the implementation's own parseVersionQuery). Hypotheses "
                  "stated in the theorems: requirements name non-empty paths at canonical versions (wf_universe/"
                  "wf_reqs), the resolved version is such a node (wf_node version), and for get 'no two requirement "
                  "names share a path' (paths_unique): with two names for one path at different versions get assigns "
                  "both the version that comes last in Go-map iteration order (class excluded from the generator; "
                  "VERIF_DUP_PATHS=1 shows it). Known findings get-downgrade-overshoot and get-patch-absent are "
                  "reported under their keys.",
    "design_ref": "DESIGN.md §6 C11",
}

HDR = base.HDR
PSEUDO = re.compile(r"[-.]\d{14}-[0-9A-Za-z]+$")   # module.IsPseudoVersion


def cq_range_version(s):
    """version text of a range query -> (canonical record, was_canonical) or None when not valid semver"""
    import re
    m = re.match(r"^v(0|[1-9]\d*)(?:\.(0|[1-9]\d*))?(?:\.(0|[1-9]\d*))?(-[0-9A-Za-z.-]+)?(\+[0-9A-Za-z.-]+)?$", s)
    if not m:
        return None
    short = m.group(2) is None or m.group(3) is None
    if short and (m.group(4) or m.group(5)):
        return None  # semver.IsValid: vMAJOR[.MINOR] takes no prerelease/build
    ids = m.group(4)[1:].split(".") if m.group(4) else []
    for i in ids:
        if i == "" or (i.isdigit() and len(i) > 1 and i[0] == "0"):
            return None
    if m.group(5) and any(x == "" for x in m.group(5)[1:].split(".")):
        return None
    t = (int(m.group(1)), int(m.group(2) or 0), int(m.group(3) or 0), ids)
    canonical = not short and not m.group(5)
    return t, canonical


def cq_query(q):
    """query.query (after parseVersionQuery) -> qkind term, mirroring the switch of resolveVersionQuery"""
    if q in ("", "latest"):
        return "QLatest"
    if q == "upgrade":
        return "QUpgrade"
    if q == "patch":
        return "QPatch"
    if q[0] in "<>":
        body = q[1:]
        incl = body.startswith("=")
        if incl:
            body = body[1:]
        r = cq_range_version(body) if body else None
        if r is None:
            return "QBad"
        con = {("<", False): "RLt", ("<", True): "RLe", (">", False): "RGt", (">", True): "RGe"}[(q[0], incl)]
        return "(QRange (%s (VSem %s)))" % (con, base.cq_semver(r[0]))
    if q[0] == "v":
        r = cq_range_version(q)
        if r is not None:
            return "(QRange (%s (VSem %s)))" % ("RExact" if r[1] else "RFrom", base.cq_semver(r[0]))
    return "(QRef %s)" % base.cq_str(q)


def cq_op(c):
    op = c["op"]["op"]
    if op == "tidy":
        return "OpTidy"
    if op == "upgradeall":
        return "OpUpgradeAll"
    return "(OpGet %s %s)" % (base.cq_str(c["qp"][0]), cq_query(c["qp"][1]))


def cq_cfg_result(r):
    if r["st"] == "ok":
        return "(Ok %s)" % base.cq_config(r["cfg"])
    return {"err": "Err", "panic": "Panic", "hang": "OutOfFuel"}[r["st"]]


def run(ctx):
    ok, rep = ctx.coq_props("Mvs/Props_C11.v")
    proof_broken = not ok
    okr, outr = ctx.coq_build(["Mvs/Run.vo"])
    if not okr:
        ctx.violation("the model does not compile", {"theorem_or_correspondence": "Mvs/Run.vo", "log": outr[-2000:]},
                      found_input=False)
        return

    nuniv = 220 if ctx.quick() else 1500
    out = os.path.join(ctx.tmp, "c11.jsonl")
    env = {"VERIF_OUT": out, "VERIF_NUNIV": str(nuniv), "VERIF_NSEQ": "3", "VERIF_SEED": str(ctx.seed),
           "VERIF_DUP_PATHS": os.environ.get("VERIF_DUP_PATHS", "0")}
    rc, o = ctx.go_overlay_test("internal/mvs", base.harness_files(), "^TestVerifC11$", env, timeout=1500)
    recs = base.read_jsonl(out)
    ctx.log("proofs checked: %s; harness finished (exit %d, %d records)" % (ok, rc, len(recs)))
    if rc != 0:
        ctx.log(o[-3000:])
        cc = base.crashed_case(recs)
        if cc is not None and recs:
            unis = {r["id"]: r for r in recs if r["t"] == "U"}
            ctx.violation("a requirement edit crashed the process on generated case %d" % cc,
                          {"case": cc, "last_universe": unis[max(unis)] if unis else None, "output": o[-3000:],
                           "how": "VERIF_SEED=%d go test -overlay ... -run TestVerifC11 ./internal/mvs" % ctx.seed})
        else:
            ctx.violation("mvs harness failed to build or run against /repo (exit %d)" % rc,
                          {"theorem_or_correspondence": "C11 correspondence harness", "output": o[-3000:]}, found_input=False)
        return

    unis = {r["id"]: r for r in recs if r["t"] == "U"}
    cases = [r for r in recs if r["t"] == "C11"]
    oracles = [r for r in recs if r["t"] == "ORACLE"]
    dist = {}
    dist_untagged = {}   # get on a project that is selected at a pseudo-version (no tag), by query class
    for c in cases:
        k = c["op"]["op"]
        if k == "get":
            t = cq_query(c["qp"][1])
            k += ":" + ("QRef" if t.startswith("(QRef") else t.split("(")[2].split(" ")[0] if t.startswith("(QRange") else t)
        k += ":" + c["res"]["st"]
        dist[k] = dist.get(k, 0) + 1
        if PSEUDO.search(c.get("sel", "")):
            dist_untagged[k] = dist_untagged.get(k, 0) + 1
    ctx.coverage["evaluations"] = len(cases)
    ctx.coverage["distinct_nontrivial"] = len({json.dumps([c["u"], c["cfg"], c["op"]]) for c in cases
                                               if c["res"]["st"] == "ok" and c["res"]["cfg"] != c["cfg"]})
    ctx.coverage["rule"] = ("%d generated universes (as C10) x 3 root requirement sets x sequences of 1-4 operations drawn "
                            "from get (no query, latest, upgrade, patch, exact version, vX.Y prefix, >, >=, <, <=, branch "
                            "ref, unknown ref, malformed range, unknown project, explicit @v1, untagged major), tidy, "
                            "upgrade-all; every fourth universe has projects that require untagged commits (pseudo-"
                            "versions) of other projects, and one more sequence per universe starts from a root that "
                            "requires untagged commits and aims patch/upgrade/latest/version/range/ref queries at the "
                            "projects selected at one; a ref query that selects an untagged commit is followed by such a "
                            "query on the same project; every application is repeated once on its own result; "
                            "non-trivial = the operation succeeded and changed the configuration" % nuniv)
    ctx.coverage["exhaustive"] = False
    ctx.coverage["correspondence"]["distribution"] = dist
    ctx.coverage["correspondence"]["distribution_selected_untagged"] = dist_untagged
    ctx.coverage["correspondence"]["untagged_family_cases"] = len([c for c in cases if c.get("fam") == "untagged"])
    ctx.coverage["correspondence"]["universes_requiring_untagged_commits"] = len(
        [u for u in unis.values() if any(PSEUDO.search(r[1]) for s in u["sums"] for r in s[3])])
    ctx.add_samples([{"cfg": c["cfg"], "op": c["op"], "result": c["res"]} for c in cases
                     if c["res"]["st"] == "ok" and c["res"]["cfg"] != c["cfg"]][:4])

    real_oracles = 0
    seen = set()
    for f in oracles:
        name, _, key = f["name"].partition(":")
        if not key:
            real_oracles += 1
        if f["name"] in seen:
            continue
        seen.add(f["name"])
        detail = {k: v for k, v in f.items() if k not in ("t", "name", "u", "cfg", "op")}
        ctx.violation("implementation violates C11 oracle %s on %s %s: %s" % (
            name, f["op"]["op"], f["op"].get("q", ""), json.dumps(detail)[:400]),
            {"oracle": f["name"], "universe": unis[f["u"]], "configuration": f["cfg"], "operation": f["op"],
             "detail": detail, "how": "internal/mvs Get/Tidy/UpgradeAll on the universe served by the package's fake "
                                      "dialer; see harness/overlay/internal/mvs/zz_verif_c11_test.go (VERIF_SEED=%d)" % ctx.seed},
            key=key or None)

    # model evaluation inside Coq, sharded by universe
    groups = {}
    for i, c in enumerate(cases):
        groups.setdefault(c["u"], []).append((i, c))
    exprs = []
    cur, n = [], 0
    for uid, cs in groups.items():
        items = ["(%s, (%s, %s, %s))" % (cq_N(i), base.cq_config(c["cfg"]), cq_op(c), cq_cfg_result(c["res"]))
                 for i, c in cs]
        cur.append("(%s,\n  %s)" % (base.cq_universe(unis[uid]), cq_list(items)))
        n += len(cs)
        if n >= 150:
            exprs.append("mismatches_c11 [\n" + ";\n".join(cur) + "]")
            cur, n = [], 0
    if cur:
        exprs.append("mismatches_c11 [\n" + ";\n".join(cur) + "]")
    okc, res, logs = ctx.coq_eval(HDR, exprs)
    if not okc:
        ctx.log("coq evaluation failed", logs[:1])
        ctx.violation("model evaluation failed", {"theorem_or_correspondence": "C11 cases.v evaluation", "log": logs[:2]},
                      found_input=False)
        return
    mism = [i for r in res for i in r]
    ctx.coverage["correspondence"]["cases"] = len(cases)
    ctx.coverage["correspondence"]["mismatches"] = len(mism)
    ctx.log("cases=%d mismatches=%d oracle_failures=%d (outside known classes: %d)" % (
        len(cases), len(mism), len(oracles), real_oracles))
    if mism and not real_oracles:
        ex = [{"universe": unis[cases[i]["u"]], "configuration": cases[i]["cfg"], "operation": cases[i]["op"],
               "implementation": cases[i]["res"]} for i in mism[:3]]
        ctx.violation("model/implementation disagree on %d edits, e.g. %s on %s" % (len(mism), ex[0]["operation"],
                                                                                     ex[0]["configuration"]),
                      {"theorem_or_correspondence": "correspondence Mvs/Edit.v <-> internal/mvs get.go/query.go/reqs.go "
                                                    "+ pgavlin/mvs", "disagreeing_cases": ex}, found_input=False)
    if proof_broken and not ctx.violations:
        ctx.violation("a C11 theorem no longer checks", {"theorem_or_correspondence": getattr(ctx, "broken_proof", {})},
                      found_input=False)
