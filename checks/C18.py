"""C18 — Build events and target output follow a well-formed protocol."""
import json
import os

from checks.engine_common import run_engine, run_linewriter, run_renderers
from lib.vlib import HARNESS

META = {
    "property_id": "C18",
    "technique": "Coq proof over a Gallina model of the build engine + history correspondence with fresh-process builds",
    "level_text": "Theorems: per_label_shape (every build, every mode), evaluating_iff_body_runs, lines_chunking_invariant, flush_leaves_empty, second_run_repeats_nothing (lineWriter), run_done_once_last (the complete stream of a build ends with exactly one run-done carrying the requested target's result), output_inside_window (per label the stream is nothing / up-to-date / lone failed / evaluating, then iff the body ran exactly the lines of what it wrote whatever the chunking, then one completion), callback_receives_the_stream / callback_run_done_once_last / callback_label_events (Build/Pump.v, the REPL's run(..., callback=f): whatever the callback raises it is called with the build's complete stream in order and no send stays blocked), stopping_pump_blocks_the_build, stop_at_first_error_refuted, and for every receiver policy callback_holds_a_prefix (received ++ never-received = the build's stream), alive_receiver_blocks_nothing, stopping_pump_blocks_iff (a stop-at-first-error receiver blocks senders exactly when the callback raises for an event that is not the last), session_restores_the_listener (over any sequence of runs with and without a callback the project's own listener is current at the end and has received exactly the streams of the runs without one) / no_restore_refuted; Output/Props_C18.v: one_channel_each_stream_in_order (producers of whole-line blocks -- a process's standard output and standard error -- through ONE channel and one copier: any interleaving, any chunking, every line once and intact, each stream in its own order), separate_copiers_refuted (a copier per stream into the one line writer tears lines), writer_per_copier_delivers_its_stream. Correspondence: per-label event sequences of every build vs the model; real lineWriter vs model on random chunkings, two rounds per writer; the four CLI renderers (line, status, JSON, DOT) driven by the event streams of ten real build scenarios (no panic, well-formed JSON stream). Oracles on the implementation: run-done once/last with Run's error, prints inside the evaluating window, evaluating iff body ran, lone failed event for missing dependencies, output of succeeding AND failing bodies (incl. an unterminated last line) delivered exactly once before the completion event; output of real processes started by os.exec / sh.exec / os.output / sh.output that write thousands of numbered lines to one stream, to both in turn, or to both at the same time (atomic whole-line blocks), with fast and slow consumers, several processes per body, failing processes, parallel targets, two processes of one shell command: every delivered line is the next line of its stream, every stream complete, inside the window; the REPL's run(label, callback=f) with callbacks that raise errors (for every non-Print event, every event, the first, every k-th, run-done only) over scripted and random projects and sequences of runs: run returns, the callback receives per label one of the three shapes, run-done once and last with the build's error, and exactly what a plain Events implementation receives for the same builds, and a plain run after the runs with a callback reports to the project's own listener again; every such run is also a case for Build/Pump.v (events sent, which of them raise, events received, events never received) and every scenario a case for its session model (runs with/without a callback, events the project's own listener received), evaluated inside Coq.",
    "level_note": "Trusted: as C01; the stream model (Build/Stream.v) composes the engine model's events with the line-writer model and is tied to the code by the protocol oracles (not by a term-by-term comparison of print events); interleavings of parallel targets and of a process's two streams are sampled by the real runner / real processes (the model quantifies over all of them; os/exec's one-pipe-per-distinct-writer behaviour is the Go standard library's and is observed, not modelled).",
    "design_ref": "DESIGN.md §6 C18",
}


def run_procout(ctx):
    """C18: output of real processes (both standard streams, at the same time) through the target's writer."""
    ok, _rep = ctx.coq_props("Output/Props_C18.v")
    if not ok and not ctx.violations:
        ctx.violation("a C18 theorem (Output/Props_C18.v) no longer checks", {"theorem_or_correspondence": getattr(ctx, "broken_proof", {})},
                      found_input=False)
    out = os.path.join(ctx.tmp, "procout.tsv")
    src = os.path.join(HARNESS, "overlay/root/zz_verif_c18_procout_test.go")
    rc, o = ctx.go_overlay_test("", {"zz_verif_c18_procout_test.go": src}, "^TestVerifC18Procout$",
                                {"VERIF_OUT": out, "VERIF_SEED": str(ctx.seed), "VERIF_TIER": ctx.tier}, timeout=900)
    if rc != 0 or not os.path.exists(out):
        ctx.violation("process-output harness failed (exit %d)" % rc, {"theorem_or_correspondence": "C18 process-output harness", "output": o[-2000:]},
                      found_input=False)
        return
    cases, by_scen = [], {}
    for line in open(out):
        f = line.rstrip("\n").split("\t")
        if f[0] == "ORACLE":
            by_scen.setdefault((f[1], f[3]), []).append(f[2])
        elif f[0] == "case":
            cases.append((f[1], int(f[2]), json.loads(f[3]) if f[3] != "null" else {}))
    how = "harness/overlay/root/zz_verif_c18_procout_test.go, VERIF_SEED=%d VERIF_TIER=%s (VERIF_C18_ONLY=<scenario name> plays one); TOOL = the test binary itself: `TOOL verif-c18-tool tag:mode:n_out:n_err:block_bytes:cut_bytes:tail:fail`" % (ctx.seed, ctx.tier)
    reported = {}
    for (cls, scen), texts in by_scen.items():
        if reported.get(cls, 0) >= 3:
            continue
        reported[cls] = reported.get(cls, 0) + 1
        # Class "shell-glued" (decided by the harness): the body is ONE sh.exec command with two processes running at the same
        # time (pipeline, background job) -- each gets a copier of its own from the shell interpreter --, AND the only thing
        # wrong is that pieces of the two processes' output are joined into one line where the pieces end (every byte of every
        # producer delivered once and in order, as many lines as newlines, never two deliveries in flight).  Only that carries
        # the known-finding key; lost / repeated / foreign bytes, concurrent deliveries, a crash, and anything at all in a
        # body with one process at a time (os.exec, a single shell command, alternating or consecutive producers) do not.
        key = "shell-concurrent-writers" if cls == "shell-glued" else None
        ctx.violation("implementation violates %s" % texts[0], {"oracle": texts[:6], "scenario": json.loads(scen), "how": how}, key=key)
    lines = sum(c[2].get("lines", 0) for c in cases)
    ctx.coverage["correspondence"]["process_output"] = {
        "scenarios": len(cases), "streams": sum(c[2].get("streams", 0) for c in cases), "lines_expected": lines,
        "bad_lines": sum(c[2].get("bad_lines", 0) for c in cases),
        "switches_between_streams_in_delivered_output": sum(c[2].get("stream_switches", 0) for c in cases),
        "scenario_names_ms": {c[0]: c[1] for c in cases},
        "rule": "builtin {os.exec, sh.exec} x streams {out, err, both in turn, both at the same time} x consumer {fast, slow}; os.output / sh.output "
                "(captured standard output, standard error delivered); raw pieces of 1 / 7 / 4096 / 65536 / 2^20 bytes with an unterminated "
                "last line and failing processes; three processes in one body; four chatty targets in parallel; two processes of one shell "
                "command (pipeline, background job); volumes and block sizes drawn from the seed; one process per scenario",
    }
    ctx.coverage["evaluations"] += len(cases)
    ctx.log("process output: scenarios=%d streams=%d lines=%d scenarios-with-oracle-failures=%d" % (
        len(cases), ctx.coverage["correspondence"]["process_output"]["streams"], lines, len(by_scen)))


def run_callback(ctx):
    """C18: the REPL's run(label, callback=f) -- the stream the callback receives is the stream the build delivers."""
    out = os.path.join(ctx.tmp, "callback.tsv")
    src = os.path.join(HARNESS, "overlay/root/zz_verif_c18_callback_test.go")
    rc, o = ctx.go_overlay_test("", {"zz_verif_c18_callback_test.go": src}, "^TestVerifC18Callback$",
                                {"VERIF_OUT": out, "VERIF_SEED": str(ctx.seed), "VERIF_TIER": ctx.tier}, timeout=900)
    if rc != 0 or not os.path.exists(out):
        ctx.violation("run-callback harness failed (exit %d)" % rc, {"theorem_or_correspondence": "C18 run-callback harness", "output": o[-2000:]},
                      found_input=False)
        return
    cases, by_scen, pumps, sessions = [], {}, [], []
    for line in open(out):
        f = line.rstrip("\n").split("\t")
        if f[0] == "ORACLE":
            by_scen.setdefault(f[3], []).append(f[2])
        elif f[0] == "case":
            cases.append((f[1], int(f[2]), json.loads(f[3])))
        elif f[0] == "pump":
            pumps.append((f[1], int(f[2]), int(f[3]), f[4]))
        elif f[0] == "session":
            sessions.append(([(r[0] == "c", int(r[2:])) for r in f[1].split(",")], int(f[2]), f[3]))
    how = "harness/overlay/root/zz_verif_c18_callback_test.go, VERIF_SEED=%d VERIF_TIER=%s (VERIF_C18_ONLY=<scenario name> plays one)" % (ctx.seed, ctx.tier)
    for scen, texts in list(by_scen.items())[:3]:
        ctx.violation("implementation violates %s" % texts[0], {"oracle": texts[:6], "scenario": json.loads(scen), "how": how})
    # the pump model (Build/Pump.v) on every run: events sent and which of them raise -> (events the callback is called with,
    # events never received)
    items = ["(%d%%N, ([%s], (%d%%N, %d%%N)))" % (i, ";".join("true" if ch == "1" else "false" for ch in b), g, bl)
             for i, (b, g, bl, _s) in enumerate(pumps)]
    okc, res, logs = ctx.coq_eval("From Coq Require Import List NArith Bool.\nImport ListNotations.\nFrom Dawn Require Import Build.Pump.\n",
                                  ["pump_mismatches [\n" + ";\n".join(items) + "]"]) if items else (True, [[]], [])
    if not okc:
        ctx.violation("pump model evaluation failed", {"theorem_or_correspondence": "Build/Pump.v evaluation", "log": logs[:1]}, found_input=False)
    else:
        mism = [x for r in res for x in r]
        if mism and not by_scen:
            b, g, bl, scen = pumps[mism[0]]
            ctx.violation("implementation and Build/Pump.v disagree: of %d events sent (callback raises at %s) the callback was called with %d and %d "
                          "were never received; the model delivers all of them" % (len(b), [i for i, ch in enumerate(b) if ch == "1"][:8], g, bl),
                          {"scenario": json.loads(scen), "raises": b, "received": g, "never_received": bl, "how": how})
        ctx.coverage["correspondence"]["run_callback_pump_cases"] = len(pumps)
        ctx.coverage["correspondence"]["run_callback_pump_mismatches"] = len(mism)
    # the session model (Build/Pump.v, [session]): the runs of a scenario (callback?, events sent) -> events the project's own
    # listener receives over the scenario
    sitems = ["(%d%%N, ([%s], %d%%N))" % (i, ";".join("(%s, %d%%N)" % ("true" if cb else "false", n) for cb, n in runs), tot)
              for i, (runs, tot, _s) in enumerate(sessions)]
    oks, sres, slogs = ctx.coq_eval("From Coq Require Import List NArith Bool.\nImport ListNotations.\nFrom Dawn Require Import Build.Pump.\n",
                                    ["session_mismatches [\n" + ";\n".join(sitems) + "]"]) if sitems else (True, [[]], [])
    if not oks:
        ctx.violation("session model evaluation failed", {"theorem_or_correspondence": "Build/Pump.v session evaluation", "log": slogs[:1]}, found_input=False)
    else:
        smism = [x for r in sres for x in r]
        if smism and not by_scen:
            runs, tot, scen = sessions[smism[0]]
            ctx.violation("implementation and Build/Pump.v (session) disagree: over the runs %s (callback?, events sent) the project's own listener "
                          "received %d events; the model delivers it exactly the streams of the runs without a callback (%d)" % (
                              runs, tot, sum(n for cb, n in runs if not cb)),
                          {"scenario": json.loads(scen), "runs": runs, "listener_received": tot, "how": how})
        ctx.coverage["correspondence"]["run_callback_session_cases"] = len(sessions)
        ctx.coverage["correspondence"]["run_callback_session_mismatches"] = len(smism)
    ctx.coverage["correspondence"]["run_callback"] = {
        "scenarios": len(cases), "runs": sum(c[2]["runs"] for c in cases), "events_delivered_to_callbacks": sum(c[2]["events"] for c in cases),
        "scenarios_by_callback_style": {str(k): sum(1 for c in cases if c[2]["style"] == k) for k in range(6)},
        "rule": "projects {chain, diamond, failing body, missing dependency, random DAGs of 2-8 targets with 0-3 lines each, sometimes a failing "
                "body or an absent dependency} x callback {records only, error on every non-Print, error on every event, on the first only, on "
                "every k-th, on run-done only} x a sequence of runs (first, repeated, dry_run, always); reference = a plain Events "
                "implementation on a fresh copy of the project, same sequence of Project.Run",
    }
    ctx.coverage["evaluations"] += sum(c[2]["runs"] for c in cases)
    ctx.log("run callback: scenarios=%d runs=%d events=%d scenarios-with-oracle-failures=%d" % (
        len(cases), ctx.coverage["correspondence"]["run_callback"]["runs"], ctx.coverage["correspondence"]["run_callback"]["events_delivered_to_callbacks"], len(by_scen)))


def run(ctx):
    # "'evaluating' is reported exactly when the body runs (or would, in a dry run)": the comparison of a dry run's evaluating
    # set with the real build that follows it (oracle text "C13 dry run of ... predicted ...") belongs to C18 as well
    run_engine(ctx, "C18", "Build/Props_C18.v", ["C18 ", "C04 ", ("C13 dry run of", lambda h, o: " predicted " in o)], 6,
               "Oracle: per-label event shape, run-done once and last with Run's error, output lines delivered once, in order, inside the evaluating window, evaluating iff the body runs.")
    run_linewriter(ctx)
    run_renderers(ctx)
    run_procout(ctx)
    run_callback(ctx)
