"""C18 — Build events and target output follow a well-formed protocol."""
from checks.engine_common import run_engine, run_linewriter, run_renderers

META = {
    "property_id": "C18",
    "technique": "Coq proof over a Gallina model of the build engine + history correspondence with fresh-process builds",
    "level_text": "Theorems: per_label_shape (every build, every mode), evaluating_iff_body_runs, lines_chunking_invariant, flush_leaves_empty, second_run_repeats_nothing (lineWriter), run_done_once_last (the complete stream of a build ends with exactly one run-done carrying the requested target's result), output_inside_window (per label the stream is nothing / up-to-date / lone failed / evaluating, then iff the body ran exactly the lines of what it wrote whatever the chunking, then one completion). Correspondence: per-label event sequences of every build vs the model; real lineWriter vs model on random chunkings, two rounds per writer; the four CLI renderers (line, status, JSON, DOT) driven by the event streams of ten real build scenarios (no panic, well-formed JSON stream). Oracles on the implementation: run-done once/last with Run's error, prints inside the evaluating window, evaluating iff body ran, lone failed event for missing dependencies, output of succeeding AND failing bodies (incl. an unterminated last line) delivered exactly once before the completion event.",
    "level_note": "Trusted: as C01; the stream model (Build/Stream.v) composes the engine model's events with the line-writer model and is tied to the code by the protocol oracles (not by a term-by-term comparison of print events); interleavings of parallel targets are sampled by the real runner.",
    "design_ref": "DESIGN.md §6 C18",
}


def run(ctx):
    # "'evaluating' is reported exactly when the body runs (or would, in a dry run)": the comparison of a dry run's evaluating
    # set with the real build that follows it (oracle text "C13 dry run of ... predicted ...") belongs to C18 as well
    run_engine(ctx, "C18", "Build/Props_C18.v", ["C18 ", "C04 ", ("C13 dry run of", lambda h, o: " predicted " in o)], 6,
               "Oracle: per-label event shape, run-done once and last with Run's error, output lines delivered once, in order, inside the evaluating window, evaluating iff the body runs.")
    run_linewriter(ctx)
    run_renderers(ctx)
