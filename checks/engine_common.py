"""Shared machinery of the engine-group checks (C01, C02, C03, C13, C14, C18): one Go harness
(harness/overlay/root/zz_verif_engine*_test.go) drives random projects through random histories, every build in a
fresh process; the Coq model (coq/Build/Model.v) recomputes every step; direct oracles run on the implementation."""
import glob
import re
import json
import os
from lib.vlib import *

HDR = "From Dawn Require Import Build.Model Build.Run.\nOpen Scope N_scope.\n"
EV = {"UpToDate": 0, "Evaluating": 1, "Succeeded": 2, "Failed": 3}


def nl(xs):
    xs = xs or []
    return "[" + "; ".join(str(x) for x in xs) + "]" if xs else "(@nil N)"


def proj_term(proj):
    items = []
    for t in proj:
        if t["fn"]:
            items.append("(%d, Fn %s %s %s %d %d %s)" % (t["id"], nl(t["deps"]), nl(t["srcs"]), nl(t["gens"]),
                                                       t["env"], t["k"], cq_bool(t["always"])))
        else:
            items.append("(%d, Src %d)" % (t["id"], t["path"]))
    return "[" + "; ".join(items) + "]" if items else "(@nil (label * tdef))"


def recs_term(recs):
    recs = recs or []
    if not recs:
        return "(@nil (label * (bool * bool)))"
    return "[" + "; ".join("(%d, (%s, %s))" % (r[0], cq_bool(r[1]), cq_bool(r[2])) for r in recs) + "]"


def events_term(ev):
    ev = ev or {}
    items = []
    for k in sorted(ev, key=lambda x: int(x)):
        items.append("(%d, %s)" % (int(k), nl([EV[x] for x in ev[k]])))
    return "[" + "; ".join(items) + "]" if items else "(@nil (label * list N))"


def op_terms(op):
    """-> list of (op_term, obs_term) (a crash during load contributes nothing)"""
    o = op["op"]
    if o == "proj":
        return [("OSetProj %s" % proj_term(op["proj"]), "ObsNone")]
    if o == "file":
        lit = op.get("lit", 0)
        return [("OSetFile %d %s" % (op["path"], "(Some (CLit %d))" % lit if lit else "None"), "ObsNone")]
    if o == "gc":
        ob = op["obs"]
        if ob["kind"] == "gc-noobs":     # a collection inside a longer-lived process: its record listing is not observable
            return [("OGC", "ObsNone")]
        if ob["kind"] != "gc":
            return []
        return [("OGC", "ObsGC %s" % recs_term(ob["recs"]))]
    if o == "build":
        ob = op["obs"]
        mode = op.get("mode", "build")
        kind = ob["kind"]
        if kind in ("crash-load", "died"):
            return []
        crashed = kind == "crash"
        cfg = "(mkCfg %s %s %s %s %s %s %s)" % (cq_bool(mode == "always"), cq_bool(mode == "dry"), nl(op.get("fail")),
                                                 cq_bool(crashed), nl(ob.get("ran") if crashed else []),
                                                 nl(ob.get("recorded") if crashed else []),
                                                 nl(ob.get("premarked") if crashed else []))
        t = "OBuild %s %d" % (cfg, op["label"])
        if crashed:
            return [(t, "ObsCrash %s" % recs_term(ob["recs"]))]
        if ob.get("load_err"):
            return []
        if kind == "skip-recs":
            return [(t, "ObsBuildNoRecs %s %s %s" % (cq_bool(ob["ok"]), nl(ob.get("ran")), events_term(ob.get("events"))))]
        return [(t, "ObsBuild %s %s %s %s" % (cq_bool(ob["ok"]), nl(ob.get("ran")), events_term(ob.get("events")),
                                             recs_term(ob["recs"])))]
    raise ValueError(o)


def history_term(h):
    pairs = []
    for op in h["ops"]:
        for (a, b) in op_terms(op):
            pairs.append("(%s, %s)" % (a, b))
    return "(%d, [%s])" % (h["index"], ";\n ".join(pairs))


def run_harness(ctx, histories, steps, seed):
    files = {os.path.basename(p): p for p in glob.glob(os.path.join(HARNESS, "overlay/root/zz_verif_engine*_test.go"))}
    out = os.path.join(ctx.tmp, "engine-%d.jsonl" % seed)
    env = {"VERIF_OUT": out, "VERIF_SEED": str(seed), "VERIF_HISTORIES": str(histories), "VERIF_STEPS": str(steps),
           "TMPDIR": ctx.tmp}
    rc, o = ctx.go_overlay_test("", files, "^TestVerifEngine$", env, timeout=1500)
    if rc != 0 or not os.path.exists(out):
        ctx.log(o[-3000:])
        ctx.violation("engine harness failed to build or run against /repo (exit %d)" % rc,
                      {"theorem_or_correspondence": "engine correspondence harness", "output": o[-3000:]}, found_input=False)
        return None
    return [json.loads(l) for l in open(out) if l.strip()]


def run_engine_oracles(ctx, prop, prefixes, histories=16, steps=10, seed_offset=9):
    """Drive whole builds of real projects (the engine harness: scripted scenarios first, then random histories, every build a
    fresh process) and report the direct oracles that belong to `prop`. Used by properties whose model is elsewhere (C04:
    the runner) for the part of the statement that is only visible at project level (labels, LoadTarget)."""
    hs = run_harness(ctx, histories, steps, ctx.seed * 100 + seed_offset)
    if hs is None:
        return
    mine = [(h, o) for h in hs for o in (h.get("oracles") or []) if any(o.startswith(p) for p in prefixes)]
    for h, o in mine[:5]:
        ctx.violation("implementation violates %s: %s" % (prop, o),
                      {"oracle": o, "seed": h["seed"], "history_index": h["index"], "history": h["ops"],
                       "how": "harness/overlay/root/zz_verif_engine*_test.go replays it (VERIF_SEED/VERIF_HISTORIES as recorded)"})
    nb = sum(1 for h in hs for op in h["ops"] if op["op"] == "build")
    ctx.coverage["correspondence"]["project_level_histories"] = len(hs)
    ctx.coverage["correspondence"]["project_level_builds"] = nb
    ctx.coverage["correspondence"]["project_level_oracle_failures"] = len(mine)
    ctx.log("project-level: histories=%d builds=%d oracle_failures=%d" % (len(hs), nb, len(mine)))


COMPONENT = {1: "evaluation order", 2: "build result", 3: "set of executed bodies", 4: "per-label events", 5: "persisted records"}


def run_engine(ctx, prop, props_file, prefixes, seed_offset, what):
    ok, rep = ctx.coq_props(props_file)
    proof_broken = not ok
    okb, outb = ctx.coq_build(["Build/Run.vo"])
    if not okb:
        ctx.violation("the engine model does not build", {"theorem_or_correspondence": "Build/Model.v, Build/Run.v", "log": outb[-2000:]},
                      found_input=False)
        return

    n = 96 if ctx.quick() else 652   # the first ~40 are the scripted scenarios
    steps = 14 if ctx.quick() else 18
    hs = run_harness(ctx, n, steps, ctx.seed * 100 + seed_offset)
    if hs is None:
        return
    dist = {}
    nbuilds = 0
    for h in hs:
        for op in h["ops"]:
            k = op["op"] + (":" + op.get("mode", "") if op["op"] == "build" else "") + \
                (":" + (op.get("obs") or {}).get("kind", "") if op.get("obs") else "") + \
                (":" + op["note"].split(" ")[0] if op.get("note") and op["op"] != "build" else "")
            dist[k] = dist.get(k, 0) + 1
            if op["op"] == "build":
                nbuilds += 1
    ctx.coverage["evaluations"] = sum(len(h["ops"]) for h in hs)
    ctx.coverage["distinct_nontrivial"] = len({json.dumps(h["ops"], sort_keys=True) for h in hs if len(h["ops"]) > 4})
    ctx.coverage["rule"] = ("%d random projects (1-4 packages, 3-8 targets with deps/sources/generated files, helper module, "
                            "closures, default arguments, constants in every pickle width class, always-targets) x random "
                            "histories of up to %d steps (edits of sources/constants/helper/cosmetics/edges/targets, builds of "
                            "random sub-targets, failing bodies, builds killed at a random hook point, dry runs, always-runs, gc); "
                            "every build is a fresh process; evaluations = operations; non-trivial = history with > 4 operations, "
                            "distinct by content. %s" % (n, steps, what))
    ctx.coverage["correspondence"]["distribution"] = dist
    ctx.coverage["correspondence"]["builds"] = nbuilds
    ctx.add_samples([{"history": h["index"], "ops": [
        {k: v for k, v in op.items() if k in ("op", "label", "mode", "fail", "crash", "note", "path", "lit")} for op in h["ops"][:12]]}
        for h in hs[:2]])

    # direct oracles on the implementation
    def owns(h, o):
        # a prefix is a string, or (string, predicate on the history): the oracle belongs to this property on those histories
        for p in prefixes:
            if isinstance(p, tuple):
                if o.startswith(p[0]) and (p[1](h, o) if p[1].__code__.co_argcount == 2 else p[1](h)):
                    return True
            elif o.startswith(p):
                return True
        return False
    mine, others = [], []
    for h in hs:
        for o in h.get("oracles") or []:
            (mine if owns(h, o) else others).append((h, o))
    # an oracle text may name the class of histories it was evaluated on, "... [class]: ..."; a class listed in
    # findings/known_findings.txt under that key is reported as KNOWN-FINDING, every other failure as a violation
    keyed = [(h, o) for h, o in mine if re.search(r" \[([a-z-]+)\]:", o)]
    mine = [(h, o) for h, o in mine if not re.search(r" \[([a-z-]+)\]:", o)]
    for h, o in keyed[:4]:
        ctx.violation("implementation violates %s: %s" % (prop, o),
                      {"oracle": o, "seed": h["seed"], "history_index": h["index"], "history": h["ops"],
                       "how": "VERIF_SEED/VERIF_HISTORIES as recorded; harness/overlay/root/zz_verif_engine*_test.go replays it"},
                      key=re.search(r" \[([a-z-]+)\]:", o).group(1))
    for h, o in mine[:5]:
        ctx.violation("implementation violates %s: %s" % (prop, o),
                      {"oracle": o, "seed": h["seed"], "history_index": h["index"], "history": h["ops"],
                       "how": "VERIF_SEED/VERIF_HISTORIES as recorded; harness/overlay/root/zz_verif_engine*_test.go replays it"})
    if others:
        ctx.log("oracle failures belonging to other engine properties (reported by their checks):", [o for _, o in others[:3]])
    ctx.coverage["correspondence"]["oracle_failures_own"] = len(mine)
    ctx.coverage["correspondence"]["oracle_failures_other_properties"] = len(others)

    # the model recomputes every history
    shard = 12
    exprs = []
    for i in range(0, len(hs), shard):
        exprs.append("check_all [\n" + ";\n".join(history_term(h) for h in hs[i:i + shard]) + "]")
    okc, res, logs = ctx.coq_eval(HDR, exprs)
    if not okc:
        ctx.log("coq evaluation failed", logs[:1])
        ctx.violation("model evaluation failed", {"theorem_or_correspondence": "Build/Run.v evaluation", "log": logs[:2]},
                      found_input=False)
        return
    # each shard: disagreements..., 777777, histories outside the hypotheses of incremental_eq_clean (index, reasons)...
    def split_groups(xs):
        gs, cur = [], []
        for x in xs:
            if x == 999999:
                gs.append(cur)
                cur = []
            else:
                cur.append(x)
        return gs
    groups, outside = [], []
    for r in res:
        k = r.index(777777) if 777777 in r else len(r)
        groups += split_groups(r[:k])
        outside += split_groups(r[k + 1:])
    WHY = {1: "a path with two generating labels", 2: "one environment with two behaviours (reads/outputs/constant)",
           3: "an edit writes a generated path", 4: "a body ran in a killed build with neither final record nor re-run mark"}
    why = {}
    for g in outside:
        for c in g[1:]:
            why[WHY.get(c, str(c))] = why.get(WHY.get(c, str(c)), 0) + 1
    ctx.coverage["correspondence"]["histories_within_incremental_eq_clean_hypotheses"] = len(hs) - len(outside)
    ctx.coverage["correspondence"]["histories_outside_hypotheses_by_reason"] = why
    unmarked = [g for g in outside if 4 in g[1:]]
    if unmarked and prop in ("C03", "C01"):
        byidx0 = {h["index"]: h for h in hs}
        h0 = byidx0.get(unmarked[0][0])
        ctx.violation("implementation violates %s: in a killed build a target body ran without its final record being written "
                      "and without the re-run mark having been written before it (history %d; %d histories)" % (
                          prop, unmarked[0][0], len(unmarked)),
                      {"oracle": "crash_wf (hypothesis of incremental_eq_clean, established by the pre-body re-run mark)",
                       "history_index": unmarked[0][0], "history": h0["ops"] if h0 else None, "seed": h0["seed"] if h0 else None})
    ctx.coverage["correspondence"]["histories"] = len(hs)
    ctx.coverage["correspondence"]["disagreeing_histories"] = len(groups)
    ctx.log("histories=%d ops=%d builds=%d disagreements=%d own-oracle-failures=%d within-clean-theorem-hypotheses=%d %s" % (
        len(hs), ctx.coverage["evaluations"], nbuilds, len(groups), len(mine), len(hs) - len(outside), why or ""))
    if groups and not mine:
        byidx = {h["index"]: h for h in hs}
        g = groups[0]
        h = byidx.get(g[0])
        ctx.violation("engine model and implementation disagree on %d histories; first: history %d, step %d, on %s" % (
            len(groups), g[0], g[1], ", ".join(COMPONENT.get(c, str(c)) for c in g[2:])),
            {"theorem_or_correspondence": "correspondence Build/Model.v <-> target.go/function.go/sourceFile.go/project.go",
             "history_index": g[0], "step": g[1], "components": [COMPONENT.get(c, c) for c in g[2:]],
             "history": h["ops"] if h else None, "seed": h["seed"] if h else None}, found_input=False)
    if proof_broken and not ctx.violations:
        ctx.violation("a %s theorem no longer checks" % prop, {"theorem_or_correspondence": getattr(ctx, "broken_proof", {})},
                      found_input=False)


def run_linewriter(ctx):
    """C18: the real lineWriter against Build/LineWriter.v on random chunkings (two rounds per writer)."""
    out = os.path.join(ctx.tmp, "lw.tsv")
    n = 1500 if ctx.quick() else 12000
    rc, o = ctx.go_overlay_test("", {"zz_verif_linewriter_test.go": os.path.join(HARNESS, "overlay/root/zz_verif_linewriter_test.go")},
                                "^TestVerifLineWriter$", {"VERIF_OUT": out, "VERIF_SEED": str(ctx.seed), "VERIF_CASES": str(n)})
    if rc != 0:
        ctx.violation("lineWriter harness failed (exit %d)" % rc, {"theorem_or_correspondence": "lineWriter harness", "output": o[-2000:]},
                      found_input=False)
        return

    def lst(field):
        items = [x for x in field.split(",") if x]
        return cq_list([cq_bytes(bytes.fromhex(x[1:])) for x in items], "(list N)")

    cases, oracles = [], []
    for line in open(out):
        f = line.rstrip("\n").split("\t")
        if f[0] == "ORACLE":
            oracles.append(f[1])
        elif f[0] == "case":
            cases.append(f[1:5])
    for o_ in oracles[:3]:
        ctx.violation("implementation violates C18: %s" % o_, {"oracle": o_, "how": "harness/overlay/root/zz_verif_linewriter_test.go, VERIF_SEED=%d" % ctx.seed})
    exprs = []
    shard = 800
    for i in range(0, len(cases), shard):
        items = ["(%d, (%s, %s, %s, %s))" % (i + j, lst(c[0]), lst(c[1]), lst(c[2]), lst(c[3])) for j, c in enumerate(cases[i:i + shard])]
        exprs.append("lw_mismatches [\n" + ";\n".join(items) + "]")
    okc, res, logs = ctx.coq_eval(HDR, exprs)
    if not okc:
        ctx.violation("lineWriter model evaluation failed", {"theorem_or_correspondence": "Build/LineWriter.v evaluation", "log": logs[:1]}, found_input=False)
        return
    mism = [x for r in res for x in r]
    ctx.coverage["correspondence"]["linewriter_cases"] = len(cases)
    ctx.coverage["correspondence"]["linewriter_mismatches"] = len(mism)
    ctx.coverage["evaluations"] += len(cases)
    ctx.log("lineWriter cases=%d mismatches=%d oracle_failures=%d" % (len(cases), len(mism), len(oracles)))
    if mism and not oracles:
        ctx.violation("lineWriter model and implementation disagree on %d cases" % len(mism),
                      {"theorem_or_correspondence": "correspondence Build/LineWriter.v <-> lineWriter.go", "cases": [cases[i] for i in mism[:5]]},
                      found_input=False)


def run_renderers(ctx):
    """C18: the CLI renderers driven by real event streams (no panic, well-formed JSON stream)."""
    out = os.path.join(ctx.tmp, "render.tsv")
    rc, o = ctx.go_overlay_test("cmd/dawn", {"zz_verif_c18_render_test.go": os.path.join(HARNESS, "overlay/cmd/dawn/zz_verif_c18_render_test.go")},
                                "^TestVerifC18Renderers$", {"VERIF_OUT": out})
    if rc != 0 or not os.path.exists(out):
        ctx.violation("renderer harness failed (exit %d)" % rc, {"theorem_or_correspondence": "C18 renderer harness", "output": o[-2000:]},
                      found_input=False)
        return
    steps, oracles = [], []
    for line in open(out):
        f = line.rstrip("\n").split("\t")
        if f[0] == "ORACLE":
            oracles.append(f[1])
        elif f[0] == "step":
            steps.append(f[1:])
    for o_ in oracles[:3]:
        ctx.violation("implementation violates C18: %s" % o_, {"oracle": o_, "how": "harness/overlay/cmd/dawn/zz_verif_c18_render_test.go"})
    ctx.coverage["correspondence"]["renderer_steps"] = steps
    ctx.coverage["evaluations"] += len(steps)
    ctx.log("renderers: %d build scenarios through line/status/json/dot renderers, oracle_failures=%d" % (len(steps), len(oracles)))
