"""C09 — Parallelism limit is respected and slots are conserved."""
import os
import sys
sys.path.insert(0, os.path.join(os.path.dirname(os.path.dirname(os.path.abspath(__file__))), "harness", "runner"))
import rcommon

META = {
    "property_id": "C09",
    "technique": "Coq invariant proofs over an interleaving model of runner/runner.go (one model step per critical "
                 "section / atomic operation) + trace acceptance of hook logs of the real runner by the model",
    "level_text": "Theorems (Coq, all configurations, all schedules, all limits): capacity + holders = limit in every reachable "
                  "state; at most `limit` targets are inside LoadTarget or inside Evaluate-outside-EvaluateTargets; a goroutine "
                  "never exits the gate more often than it entered and holds exactly one slot between an enter and the matching "
                  "exit; a goroutine walking or waiting on dependencies holds none; at quiescence the gate is full and every "
                  "goroutine's enters equal its exits; with limit 1 every non-quiescent state has an enabled thread. The model is "
                  "tied to runner.go by replaying the hook log of hundreds (quick) / thousands (thorough) of real runs "
                  "(limits 1,2,3,4,16 and the exported Run) through the model: every gate.enter/gate.exit must be enabled in the "
                  "model and log the model's capacity. Direct oracles on the implementation: executing-counter <= limit, gate "
                  "capacity = limit at quiescence, no hang.",
    "level_note": "Trusted: Coq kernel; the hook dispatcher (log order = memory order: events are logged inside the critical "
                  "section they witness, the three lock-free operations are bracketed by the log mutex); sync.Mutex/sync.Cond "
                  "semantics (gate.enter is modelled as the atomic `await capacity>0; capacity--`); that the limit is "
                  "runtime.NumCPU() is a configuration fact, exercised by the runs through the exported Run only. Schedules are "
                  "sampled (seeded jitter), not enumerated.",
    "design_ref": "DESIGN.md §6 C09, Appendix B",
}

SIZES = {"quick": (300, 3, 1500), "thorough": (4000, 15, 12000)}


def run(ctx):
    rcommon.run_check(ctx, "C09", "Runner/Props_C09.v", SIZES,
                      "C09 oracles: harness counter of targets inside LoadTarget/Evaluate but outside EvaluateTargets <= limit "
                      "at all times; gate capacity = limit at quiescence; every logged gate.enter/gate.exit capacity equals the model's.")
