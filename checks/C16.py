"""C16 — Diffs are faithful to both values."""
import os
import re
from lib.vlib import *

META = {
    "property_id": "C16",
    "technique": "Coq proof over a Gallina model of diff/diff.go, diff_slice.go, types.go and function.go:diffEnv "
                 "+ exhaustive small-pair correspondence of the complete diff tree + Go-side reconstruction oracle "
                 "+ concurrent-sibling schedules (hand-built and real targets, runner events) against a direct differing-parts oracle",
    "level_text": "Theorems (Coq, all inputs, closed under the global context): DiffDepth returns no diff iff EqualDepth says "
                  "equal; otherwise Old()/New() are the two arguments in the order given; for sequences of ANY relative "
                  "lengths the edit script produced by diffSlice (O(NP) search incl. the swap-to-shorter-first, the restart "
                  "after a route-table exhaustion, recordSeq/extend and the delete+add->replace merge) has old projection = "
                  "old elements and new projection = new elements up to EqualDepth, in order (two layers: record_faithful for "
                  "any valid path and either swap orientation, search_valid for the search; route_table_suffices: no "
                  "exhaustion when (m+1)(n+1) <= 2000000); the reported edits show the parts of that script; for mappings an "
                  "edit exists exactly for each key removed/changed/added with the right kind and values and none for an "
                  "unchanged key; the rebuild reason names a functionEnvKeys entry iff the environments differ at it (all 2^9 "
                  "subsets swept in Coq and lifted). seq_replacements_carry_sides_refuted: a replace entry can be None (known "
                  "finding, after route-table exhaustion only). REPLACE ENTRIES CARRY THEIR SIDES (Diff/Proofs_Sides.v; table not "
                  "exhausted): replace_entries_pair_unequal_elements (for every element type: no replace edit pairs two elements "
                  "that the search's comparison reports equal, and the two are elements of the old and of the new sequence; else "
                  "the script would not be shortest: proof through a position-aware invariant of recordSeq/extend and of the merge "
                  "that turns the script into a path of the edit graph, plus script_is_shortest), seq_replacements_carry_sides (no "
                  "entry of a replace payload is None, provided DiffDepth's comparison never says equal where the search's does "
                  "not -- the statement of what breaks when one stage uses its own notion of equality), "
                  "seq_of_scalars_replacements_carry_sides (the proviso holds outright for sequences of None/bool/int/float/string/"
                  "bytes: EqualDepth is depth-independent and symmetric there, across types too: 1 == 1.0). TOTALITY (no longer conditional on Ok): search_total (the O(NP) search returns a state or the "
                  "EqualDepth depth error for every route-table size; S(length a) iterations of the p loop suffice), "
                  "diff_slice_total (for every pair of sequences and every route-table size >= 1 diffSlice returns a script or "
                  "the depth error, never Panic/OutOfFuel; the model's own fuel suffices: S(length routes) chain links, "
                  "walk_fuel walker steps, S(|a|+|b|) compose rounds because a round stopped by a full table still moves the "
                  "walker), route_size_zero_loops (the bound >= 1 is needed), diff_depth_total, diff_env_total (diffEnv's "
                  "explicit panic is unreachable). SIZE: script_cost_identity (deleted+inserted + 2*kept = |a|+|b|, hence "
                  "cost <= |a|+|b|); common_prefix_kept (table not exhausted: the script starts with a Common edit at least as "
                  "long as the leading run the search finds equal); search_lower_bound (furthest-point theorem, the lower-bound "
                  "half of minimality: when the search reaches the corner after pf+1 iterations of its p loop, no path of the "
                  "edit graph to the corner has fewer than pf deletions, so no script is cheaper than delta+2pf); "
                  "script_is_shortest (MINIMALITY, table not exhausted: the elements the script deletes+inserts are at most the "
                  "deletions+insertions of ANY edit path from the origin to the far corner; proof: chain-cost invariant of the "
                  "route table 2p+k / 2p-k+2delta, one walker step per change of diagonal, merge preserves the count). "
                  "REAL ENVIRONMENTS (Diff/ModelEnv.v = envUnpickler's FunctionCode/Function cases): "
                  "reason_names_every_differing_part_of_a_function_environment (for two environments built by the unpickler the "
                  "reason names EVERY key of either environment at which they differ -- each key of the environment is one "
                  "diffEnv has a name for -- and is never the catch-all 'environment changed'). "
                  "SEVERAL TARGETS AT ONCE (Diff/Sched.v): reason_independent_of_concurrent_targets (the loop of diffEnv that "
                  "collects the part names, run for any number of targets with its steps interleaved by ANY schedule, builds for "
                  "each target the reason diffEnv gives for it alone, given a reasons slice per target as in the code); "
                  "shared_reasons_buffer_depends_on_schedule (the same loop over one shared backing array gives a target a part "
                  "of its sibling: why the harness checks siblings concurrently). "
                  "The model is tied to the code by comparing the complete diff tree (kinds, splits, payloads, nested "
                  "diffs, dict edit order, Old/New) on every pair of sequences over 3 letters up to length 4 (quick) / 5 "
                  "(thorough) as tuples, <=3/4 as lists, strings, bytes, mixed containers, nested tuples, dict pairs, depth-limit "
                  "cases, random longer sequences, and diffEnv on all subsets of the listed keys; that diffEnv/upToDate report for a "
                  "target what they report for it alone is checked on the real code by running those targets, and generated "
                  "projects of real sibling targets (38 kinds of change, each of the nine parts also as the only part that differs), "
                  "concurrently under a family of schedules and through the "
                  "runner's own TargetEvaluating events, against the differing parts computed directly from the two environments "
                  "over ALL their keys; the keys of real environments are compared with the model's unpickler, and the mapping diffs "
                  "nested in the diff shown for a target are walked by a direct oracle. Dict values include None and the other "
                  "values that read as nothing (present/absent decided by the look-up, never by the value), None is also a key. "
                  "NUMBERS: 'equal' is Starlark's equality, which is not 'same type': the model's universe has Bool and Float "
                  "(NaN, the infinities, -0.0 and the multiples of one half) and EqualDepth's int/float case (1 == 1.0, "
                  "0 == 0.0 == -0.0, NaN == NaN, True != 1); all theorems hold unchanged over the larger universe, and "
                  "elements / dict keys / dict values / whole values that are equal without being of one type, or alike "
                  "without being equal, are swept in every position in which a stage of the diff compares two values.",
    "level_note": "Trusted: Coq kernel; the Go harness's rendering of values and diffs; starlark's EqualDepth/Index/Slice are "
                  "modelled for None/bool/int/float/string/bytes/tuple/list/dict only (floats: NaN, +-Inf, -0.0 and k/2; no sets, user types) and validated by the "
                  "sweep. The faithfulness theorems are stated for runs that return a script; the totality theorems show that every "
                  "run returns a script or the EqualDepth depth error (route size >= 1). Minimality is proved for the non-exhausted table only (after exhaustion the script is "
                  "not minimal: known finding); a common suffix is not always a trailing Common "
                  "edit (ex_suffix_not_trailing). Absence of None entries in "
                  "replace payloads is proved for the non-exhausted table (for container elements under the stated agreement of "
                  "the two comparisons, i.e. depth-stability and symmetry of EqualDepth on them, which is swept, not proved) and "
                  "fails after route-table exhaustion (known finding, shown on the real code by a crafted 1500x1700 pair). Pickle stamps in diffEnv are an input "
                  "(stamp_state). The multi-round part of the model was additionally validated once by a what-if run with "
                  "defaultRouteSize=6 (0 mismatches on 40 845 cases).",
    "design_ref": "DESIGN.md §6 C16",
}

HDR = "From Dawn Require Import Diff.Model Diff.Run.\nOpen Scope N_scope.\n"
REPO_DIFF = os.path.join(REPO, "diff")


def route_size_from_source():
    """defaultRouteSize regenerated from the source text (the harness reports the compiled value as well)."""
    src = env_replace().get(os.path.join(REPO, "diff/diff_slice.go"), os.path.join(REPO, "diff/diff_slice.go"))
    m = re.search(r"const\s+defaultRouteSize\s*=\s*(\d+)", open(src).read())
    return int(m.group(1)) if m else None


def unhex(s):
    return bytes.fromhex(s)


def run(ctx):
    ok, rep = ctx.coq_props("Diff/Props_C16.v")
    proof_broken = not ok

    quick = ctx.quick()
    out1 = os.path.join(ctx.tmp, "c16_diff.tsv")
    out2 = os.path.join(ctx.tmp, "c16_reason.tsv")
    env = {"VERIF_OUT": out1, "VERIF_SEED": str(ctx.seed),
           "VERIF_MAXLEN": "4" if quick else "5",
           "VERIF_MAXLEN_OTHER": "3" if quick else "4",
           "VERIF_MAXLEN_NESTED": "2" if quick else "3",
           "VERIF_DICTKEYS": "3" if quick else "4",
           "VERIF_NONEVALS": "3" if quick else "4",
           "VERIF_NRAND": "300" if quick else "3000",
           "VERIF_NUMLEN": "3", "VERIF_NUMALPHA": "4" if quick else "5",
           "VERIF_BIG": "1"}
    rc, o = ctx.go_overlay_test("diff", {"zz_verif_c16_test.go": os.path.join(HARNESS, "overlay/diff/zz_verif_c16_test.go"),
                                         "zz_verif_c16_num_test.go": os.path.join(HARNESS, "overlay/diff/zz_verif_c16_num_test.go")},
                                "^TestVerifC16$", env)
    if rc != 0:
        ctx.log(o[-3000:])
        ctx.violation("diff harness failed to build or run against /repo (exit %d)" % rc,
                      {"theorem_or_correspondence": "C16 correspondence harness (diff)", "output": o[-3000:]}, found_input=False)
        return
    out3 = os.path.join(ctx.tmp, "c16_targets.tsv")
    rc, o = ctx.go_overlay_test("", {"zz_verif_c16_reason_test.go": os.path.join(HARNESS, "overlay/root/zz_verif_c16_reason_test.go"),
                                     "zz_verif_c16_targets_test.go": os.path.join(HARNESS, "overlay/root/zz_verif_c16_targets_test.go")},
                                "^TestVerifC16(Reason|Targets)$",
                                {"VERIF_OUT": out2, "VERIF_OUT_TARGETS": out3, "VERIF_SEED": str(ctx.seed),
                                 "VERIF_C16_CONC_MS": "1500" if quick else "6000",
                                 "VERIF_C16_PROJECTS": "3" if quick else "8",
                                 "VERIF_C16_RUNS": "40" if quick else "150"})
    if rc != 0:
        ctx.log(o[-3000:])
        # the process died (e.g. a panic on a goroutine of the runner): what the oracles saw before that is still a
        # concrete failing input
        for src in (out2, out3):
            if os.path.exists(src):
                for line in open(src):
                    f = line.rstrip("\n").split("\t")
                    if f[0] == "ORACLE" and len(f) >= 4:
                        ctx.violation("implementation violates C16 oracle %s: %s" % (f[1], " | ".join(f[4:])[:600]),
                                      {"oracle": f[1], "inputs": [x[:6000] for x in f[2:4]], "observed": [x[:2000] for x in f[4:]],
                                       "how": "harness/overlay/root/zz_verif_c16_reason_test.go / zz_verif_c16_targets_test.go; "
                                              "the harness process then died, see the next violation"})
                        break
        ctx.violation("reason harness failed to build or run against /repo (exit %d)" % rc,
                      {"theorem_or_correspondence": "C16 correspondence harness (diffEnv)", "output": o[-3000:]}, found_input=False)
        return

    cases = []      # (class, coq case term, printable)
    oracles = []
    dist = {}
    big = []
    crafted = []
    route_size = None
    keys = []
    for line in open(out1):
        f = line.rstrip("\n").split("\t")
        if f[0] == "ROUTESIZE":
            route_size = int(f[1])
        elif f[0] == "ORACLE":
            oracles.append(f)
        elif f[0] == "BIG":
            big.append(f)
        elif f[0] == "CRAFTED":
            crafted.append(f)
        elif f[0] == "D":
            res = f[4]
            kind = ("equal" if res == "(ROk X)" else "error" if res == "RErr" else "panic" if res == "RPanic"
                    else {"DS": "slice", "DM": "mapping", "DL": "literal"}.get(res[9:11], "?"))
            key = f[1] + ":" + kind
            dist[key] = dist.get(key, 0) + 1
            cases.append((f[1], "CDiff %s %s %s" % (f[2], f[3], f[4]), f[1:]))
    for line in open(out2):
        f = line.rstrip("\n").split("\t")
        if f[0] == "KEY":
            keys.append(unhex(f[1]))
        elif f[0] == "ORACLE":
            oracles.append(f)
        elif f[0] == "E":
            exp = {"ok": "(EOk %s %s)" % (cq_bool(f[6] == "1"), cq_bytes(unhex(f[7]))), "err": "EErr", "panic": "EPanic"}[f[5]]
            key = "env-" + f[1] + ":" + f[5]
            dist[key] = dist.get(key, 0) + 1
            show = [f[1], "stamp=" + {"0": "error", "1": "equal", "2": "differs"}[f[2]], f[3][:300], f[4][:300], f[5], f[6], unhex(f[7]).decode("latin-1")]
            cases.append(("env", "CEnv %s %s %s %s" % ({"0": "StampErr", "1": "StampEqual", "2": "StampDiffers"}[f[2]], f[3], f[4], exp), show))
    conc = []
    target_rows = 0
    env_key_lists = []
    for src in (out2, out3):
        for line in open(src):
            f = line.rstrip("\n").split("\t")
            if f[0] == "CONC":
                conc.append(f[1:])
            elif f[0] == "T":
                target_rows += 1
                key = "target-" + f[3] + ":" + (f[4] or "up-to-date")
                dist[key] = dist.get(key, 0) + 1
            elif f[0] == "ORACLE" and src == out3:
                oracles.append(f)
            elif f[0] == "ENVKEYS":
                ks = unhex(f[1]).split(b"|")
                env_key_lists.append([k.decode("latin-1") for k in ks])
                cases.append(("envkeys", "CEnvKeys %s" % cq_list([cq_bytes(k) for k in ks], "str"),
                              ["keys of the environment of real target " + f[2]] + [k.decode("latin-1") for k in ks]))
    cases.append(("keys", "CKeys %s" % cq_list([cq_bytes(k) for k in keys], "str"), ["functionEnvKeys"] + [k.decode() for k in keys]))

    src_rs = route_size_from_source()
    if route_size is None or src_rs != route_size:
        ctx.violation("defaultRouteSize: source text says %s, compiled harness says %s" % (src_rs, route_size),
                      {"theorem_or_correspondence": "route size constant"}, found_input=False)
        return

    ctx.coverage["evaluations"] = len(cases)
    ctx.coverage["distinct_nontrivial"] = len({c[1] for c in cases if "(ROk X)" not in c[1]})
    ctx.coverage["rule"] = (
        "every pair of sequences over a 3-letter alphabet of length <= %s as tuples and <= %s as lists, strings and bytes; "
        "mixed containers (length <= 2); every pair of tuples of length <= %s over 3 nested tuples and of length <= %s over "
        "7 mixed elements (ints, strings, tuples, a list, None), also as lists; every pair of dicts assigning "
        "{absent,1,2,(0,1)} to %s keys (new dict built in reverse key order) and 9^4 two-key dicts with nested tuple/dict/"
        "string values; every pair of dicts assigning {absent,None,1%s} to the keys None,'k',1 (a key bound to None kept, "
        "changed, removed, added), each also one level down (value of an outer dict's key; only element of a tuple), and one "
        "key going between any two of {absent,None,0,'',b'',(),[],{},1} next to a key unchanged/changed/added/removed/None; 11^2 literal pairs; "
        "NUMBERS (equal without being of one type, alike without being equal): every pair of tuples of length <= %s over {1, 1.0, 2, True%s} "
        "(lists: one shorter; tuple against list: <= 2), of length <= 2 over {0, 0.0, -0.0, 0.5, False}, over {NaN, +Inf, -Inf, 1, -1.5} and over "
        "6 containers holding equal numbers of two types ((1,) (1.0,) {1:1} {1.0:1.0} (1,'a') (1.0,'b')); 18^2 pairs of such values themselves; "
        "6^4 pairs of dicts whose key 1 is the key 1.0 of the other with values {absent,1,1.0,2,(1,'a'),(1.0,'b')}; %s seeded sequences of "
        "constants with 0-2 local edits and elements re-typed to their equal twin at random; one re-typed element at every position next to one "
        "changed element at every other position (lengths 2-4, +-1 element, both orders); in diffEnv: each part re-typed alone, next to each "
        "other part changed, and re-typed and changed at once; 5 kinds of real targets with re-typed constants/globals/defaults, whose shown diff "
        "is now also walked for the sequence clause (kept+deleted+old sides / kept+added+new sides reproduce the two values, no replace entry without sides); nesting depths 7..12 around the EqualDepth limit; %s seeded random sequences "
        "of length <= 12; 3 pairs of ~1500-element tuples that exhaust the route table (oracle only); diffEnv on all 2^9 "
        "subsets of functionEnvKeys x (unlisted key differs or not); the same %d hand-built targets checked CONCURRENTLY as siblings (8 schedules: 2..64 goroutines x GOMAXPROCS 1..ncpu x seeded orders) and %s generated projects of real sibling targets (the first with all 38 change kinds, the second with the 32 that leave the module's tables alone so that a part is the ONLY one that differs, the others 16 seeded: constants, universals, globals, predeclared modules and attributes, nested functions, the target's own default parameters, captured variables of closures, None-valued globals/defaults/captured variables, code) checked alone against the parts computed from ALL keys of the two environments (not only the keys diffEnv has a name for), the keys of every real environment compared with the model's envUnpickler (Diff/ModelEnv.v), every mapping diff nested in the diff shown for a target walked (an edit exactly for the keys removed/added/changed), concurrently through upToDate (5 schedules each) and through the runner's TargetEvaluating events (%s dry runs each) against the parts computed directly from the two environments. distinct = by full case text; non-trivial = not equal"
        % (env["VERIF_MAXLEN"], env["VERIF_MAXLEN_OTHER"], int(env["VERIF_MAXLEN_NESTED"]) + 1, env["VERIF_MAXLEN_NESTED"],
           env["VERIF_DICTKEYS"], "" if quick else ",0", env["VERIF_NUMLEN"], "" if quick else ", 2.0", env["VERIF_NRAND"],
           env["VERIF_NRAND"], sum(1 for c in cases if c[0] == "env"),
           "3" if quick else "8", "40" if quick else "150"))
    ctx.coverage["exhaustive"] = True
    ctx.coverage["correspondence"]["distribution"] = dist
    ctx.coverage["correspondence"]["route_size"] = route_size
    ctx.coverage["correspondence"]["concurrent_sibling_schedules"] = {
        "schedules": len(conc), "checks": sum(int(c[2]) for c in conc), "failures": sum(int(c[3]) for c in conc),
        "real_targets": target_rows, "by_family": conc}
    ctx.coverage["correspondence"]["keys_of_real_environments"] = env_key_lists
    ctx.coverage["correspondence"]["route_table_exhaustion_cases"] = [b[1:] for b in big]
    step = max(1, len(cases) // 5)
    ctx.add_samples([c[2] for c in cases[step // 2::step]][:5])

    per_oracle = {}
    shown = []
    for f in oracles:               # at most 3 reports per oracle, so that every oracle that failed is represented
        per_oracle[f[1]] = per_oracle.get(f[1], 0) + 1
        if per_oracle[f[1]] <= 3:
            shown.append(f)
    ctx.coverage["correspondence"]["oracle_failures"] = per_oracle
    for f in shown[:10]:
        inputs = []
        for x in f[2:4]:
            if x.startswith("BUILD.dawn v") and "(hex) " in x:      # a generated project: show the text
                head, hx = x.split("(hex) ", 1)
                x = head.replace(" (hex)", "") + ":\n" + unhex(hx).decode("latin-1")
            inputs.append(x[:6000])
        what = "implementation violates C16 oracle %s" % f[1]
        if "sibling" in f[1] or "runner" in f[1] or (len(f) > 2 and f[2].startswith("BUILD.dawn v")):
            what += ": " + " | ".join(f[4:])[:600]
        ctx.violation(what,
                      {"oracle": f[1], "inputs": inputs, "observed": [x[:2000] for x in f[4:]],
                       "how": "diff.Diff(a, b) / function.diffEnv on the given values (term language of coq/Diff/Run.v); for the "
                              "'sibling'/'runner' oracles: the given target checked (diffEnv / upToDate / a dry run of //:all) "
                              "while its sibling targets are checked on other goroutines, as the runner does; "
                              "see harness/overlay/diff/zz_verif_c16_test.go, harness/overlay/root/zz_verif_c16_reason_test.go, "
                              "harness/overlay/root/zz_verif_c16_targets_test.go"})
    for b in big:
        if len(b) < 3 or not b[2].startswith("ok"):
            ctx.violation("implementation violates C16 on a route-table-exhausting pair %s: %s" % (b[1], b[2:]),
                          {"oracle": "big", "case": b[1:], "how": "harness section 6 (two tuples of the given lengths)"})
    for c in crafted:
        if len(c) >= 3 and c[2] == "ok":
            continue
        only_none = len(c) >= 3 and c[2].startswith("fail ") and "replace-without-sides" in c[2]
        ctx.violation("a replace edit hides both elements of an equal pair after route-table exhaustion: %s -> %s"
                      % (c[1], " ".join(c[2:])),
                      {"oracle": "replace-without-sides (crafted pair, section 7 of the diff harness)",
                       "inputs": c[1], "observed": c[2:],
                       "how": "diff.Diff(old, new) on the two tuples described; the replace edit's payload has a "
                              "starlark.None entry, so neither side can be reconstructed from the edits"},
                      key="replace-none-after-route-exhaustion" if only_none else None)
    ctx.coverage["correspondence"]["crafted_route_exhaustion_case"] = [c[1:] for c in crafted]
    bad_render = [c for c in cases if "<?" in c[1] or "<diff>" in c[1]]
    for c in bad_render[:3]:
        ctx.violation("implementation produced a diff of unexpected shape", {"case": c[2]})
    if bad_render:
        return

    shard = 2500
    exprs = []
    for i in range(0, len(cases), shard):
        items = ["(%s, %s)" % (cq_N(i + j), c[1]) for j, c in enumerate(cases[i:i + shard])]
        exprs.append("mismatches %s [\n" % cq_N(route_size) + ";\n".join(items) + "]")
    okc, res, logs = ctx.coq_eval(HDR, exprs)
    if not okc:
        ctx.log("coq evaluation failed", logs[:1])
        ctx.violation("model evaluation failed", {"theorem_or_correspondence": "C16 cases.v evaluation", "log": logs[:2]},
                      found_input=False)
        return
    mism = []
    for r in res:
        mism += r
    ctx.coverage["correspondence"]["cases"] = len(cases)
    ctx.coverage["correspondence"]["mismatches"] = len(mism)
    ctx.log("cases=%d mismatches=%d oracle_failures=%d big=%s" % (len(cases), len(mism), len(oracles), [b[2] for b in big]))
    if mism and not oracles:
        ex = [cases[i][2] for i in mism[:5]]
        ctx.violation("model/implementation disagree on %d cases, e.g. %s" % (len(mism), ex[0]),
                      {"theorem_or_correspondence": "correspondence Diff/Model.v <-> diff/*.go, function.go:diffEnv",
                       "disagreeing_cases": ex}, found_input=False)
    if proof_broken:
        ctx.violation("a C16 theorem no longer checks", {"theorem_or_correspondence": getattr(ctx, "broken_proof", {})},
                      found_input=False)
