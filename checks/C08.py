"""C08 — Every target function can be fingerprinted, deterministically."""
import base64
import os
import re
import threading
from lib.vlib import *

META = {
    "property_id": "C08",
    "technique": "Coq proof (termination, coverage, determinism and sensitivity of the environment traversal) + reified-graph correspondence + edit-menu oracle on real loads "
                 "+ collection-size/position sweep + value-space families (every representation boundary of every scalar kind, confusable kinds and shapes, host kinds) + related-values families (a function referencing two values derived from one object: aliases, slices sharing storage, equal copies, ==-equal values of another kind, parts; model of the encoder's value memo) + schedule families (controlled interleavings, free goroutines, the runner; race detector) + process-history family (every fingerprint after failed and successful computations in the same process = the one computed alone in a fresh process; fault injection at every depth of the pickle)",
    "level_text": "Theorems (Coq, all graphs): fingerprint_terminates (the traversal done by recursionPickler/envPickler under the "
                  "encoder's memo terminates on every function graph, recursion and mutual recursion included); "
                  "fingerprint_covers_reachable (the code of every reachable function is in the fingerprint); "
                  "fingerprint_deterministic (two rooted function graphs whose reachable parts are isomorphic -- equal names, codes and "
                  "mentioned functions in order, whatever the identities, listing order, graph size and unreachable rest -- have equal "
                  "fingerprints); fingerprint_sensitive (the converse, no side condition: equal fingerprints => the reachable parts are "
                  "isomorphic, so every difference in a reachable code or in which function a reference denotes shows; it rests on the "
                  "placeholder of a function in progress carrying the function's ordinal, function.go since 7738be5 -- the finding of the "
                  "earlier, name-only model: same-named functions in progress); iso_relates_every_reachable_function; fingerprint_sensitive_to_payload (change the code identity -- bytecode, constants, every non-function value, which builtin, which range -- "
                  "of ONE function reachable from the target and nothing else: the fingerprint is unequal); value_memo_roundtrip / value_memo_sensitive / value_memo_deterministic (Fingerprint/ValueMemo.v, the encoder's memo over the values a function references: "
                  "when two values filed under one memo key always have the same content, what the reader resolves from the emission -- back-references included -- is exactly what is referenced, so every change of a referenced value shows whatever shares what with what, and the emission does not depend on the keys (addresses) themselves; "
                  "unfaithful_key_refuted: a key that forgets part of the value, e.g. a tuple's first-element address, gives one emission for T[:2] and T[:3]). Tie: the harness "
                  "replays the encoder's traversal over the live function graph of each program's target and the Coq model must reproduce "
                  "the token tree seen in the implementation's decoded fingerprint: expanded function environments, placeholders WITH their "
                  "ordinals, repeated (memo-referenced) function environments with the ordinal of the function referred to. "
                  "Oracles on the implementation, each load in its own process: "
                  "terminates without error/crash/hang for recursion, mutual recursion, closures, defaults, nested defs, lambdas, "
                  ">1000-element and cyclic data, every predeclared value; identical text re-loaded (other file order, other "
                  "GOMAXPROCS) gives the identical stamp; every edit of a menu of referenced codes/values/references changes it (as the engine "
                  "compares it: diffEnv), every cosmetic / other-package edit does not. "
                  "Collection sweep (one process, one Load per edit): for every size next to a multiple of the encoder's batch of 1000 and the small / 255-257 / random sizes, "
                  "a list, tuple, dict (by value, by key), set, nested list, default list, captured list, string, bytes and range of that size, each referenced by its own target; "
                  "replacing the element at the head, the tail, either side of each batch boundary or a random position, or appending one, changes the fingerprint of every target that references it. "
                  "Value space (one process): a pool of values -- integers +-(2^k-1), +-2^k, +-(2^k+1) for every k at which the codec, the interpreter or a machine word changes representation (7..256; thorough ..20000) "
                  "and seeded random integers of 1-260 bits with the relatives a lossy representation would identify with them (successor, negation, same low 64/32 bits, decimal prefix and extension, top bit cleared); floats at the "
                  "zero/denormal/overflow/2^53 borders one ulp apart, infinities, NaN, next to the integers of the same numeric value; strings and bytes (empty, NUL, newline, quotes, opcode look-alikes, 1-4 byte UTF-8, prefixes and one-byte "
                  "extensions, lengths 254-257, seeded random with bit flip / truncation / extension); None/False/0/0.0/''/()/[]/{}/set() and other confusable kinds and shapes; builtins, bound methods, modules, labels, paths, ranges, the views of a string / of bytes (codepoints, codepoint_ords, elems, elem_ords) next to each other, to the empty ones and to the lists of their elements -- "
                  "each referenced by functions of identical code through 8 routes (captured, default, element of a captured list / tuple / set, dict value, dict key, nested): any two targets of a route that reference different values "
                  "(decided on the live objects) have different fingerprints, equal text re-loaded gives equal ones, functionEnv succeeds; and one load per value of a selection of a project referencing it as a global, a literal, "
                  "a literal default, a global of a load()ed file, in a global list, as a dict key: per route the fingerprints of all these edits of the project text are pairwise different. "
                  "Related values (one process): for every base value A of every collection kind (tuples of strings / ints / equal elements / nested / seeded random, string, bytes, list, range, dict, host values, 300 lists, a 2003-tuple) and every ordered pair (d1, d2) of a menu of derivations -- A itself, prefix / suffix / inner / stepped / reversed / full slices, A + empty, rebuilt and constructor copies, "
                  "the ==-equal elements of another kind, one element changed, elements and slices of elements, views -- a function of identical code referencing (d1(A), d2(A)) through 3 routes (both captured, both defaults, in one list), all computed from the ONE object A: any two that reference structurally different live values have different fingerprints; "
                  "and one load per (A, d) of a project A = ..; B = d(A) whose targets reference A and B as globals in both orders, as defaults, in a global list and through load(): per target the fingerprints of all these edits of module-level code are pairwise different whenever the live B differs. "
                  "Schedules: the fingerprint of a target is the one computed alone when another target is fingerprinted inside every single write of its pickling, when all "
                  "targets are fingerprinted at once by one goroutine each, and when the real runner builds them as independent dependencies (records = stamps computed alone, a fresh load "
                  "finds them up to date); the race detector reports no memory shared between two targets' fingerprint computations. "
                  "Process history: for a project of good targets (recursion sharing a builtin, mutual recursion, aliases, defaults, closures, cyclic and >1000-element data, modules, target references, same-named closures), "
                  "targets whose fingerprint FAILS part-way (a predeclared value of the embedding program whose j-th attribute cannot be read while armed, placed as default / captured / predeclared / nested global / inside a late helper; an unpicklable value) "
                  "and targets referencing each string/bytes view: the stamp, the functionEnv value (sharing included) and the upToDate verdict against the records of a build of the previous text are, after every fault source "
                  "(alone and in pairs) before every target, after seeded random histories (failures, fingerprints, re-Load, GC, other goroutine, a goroutine failing at the same time) and through Run(failing) then Run(good) + fresh load, "
                  "exactly the ones computed alone, first thing in a fresh process; an armed computation returns an error (never a value, never a crash); every view of a string or of bytes can be fingerprinted.",
    "level_note": "Trusted: Coq kernel; the model abstracts values to the function objects they mention (byte-level codec = C07) and a "
                  "function's own payload (bytecode, constants, names, non-function values) to one code identity, so model-level "
                  "sensitivity is sensitivity to that identity and to the reference structure; a memo reference is modelled by the ordinal "
                  "of the function referred to (the stamp has a memo id, the decoded value the shared object: both determine it); "
                  "the Starlark compiler is not modelled (the reifier reads live objects through the same accessors envPickler uses and "
                  "replays the encoder's memo for containers and code objects); "
                  "determinism and sensitivity for value kinds are decided by the harness on a fixed program menu, not by a theorem; "
                  "the value-memo theorems assume the memo key is faithful (same key => same content), which is a fact about Go identity of the comparable kinds and is what the related-values family tests on the implementation.",
    "design_ref": "DESIGN.md §6 C08",
}

FAMILIES = ("collections-", "concurrent/", "values/", "alias/", "history/")

HDR = "From Dawn Require Import Fingerprint.Model Fingerprint.Run.\nOpen Scope N_scope.\n"


def parse_skel(s):
    """F12(F3()R1M0) -> Coq list of sk: F<label>(...) expanded function, R<ordinal> placeholder, M<ordinal> memo reference"""
    pos = 0

    def items():
        nonlocal pos
        out = []
        while pos < len(s) and s[pos] in "FRM":
            if s[pos] == "F":
                m = re.match(r"F(\d+)\(", s[pos:])
                pos += m.end()
                ch = items()
                assert s[pos] == ")"
                pos += 1
                out.append("(Sk %s %s)" % (m.group(1), "[" + "; ".join(ch) + "]" if ch else "(@nil sk)"))
            else:
                m = re.match(r"([RM])(\d+)", s[pos:])
                pos += m.end()
                out.append("(%s %s)" % ("SkRec" if m.group(1) == "R" else "SkRef", m.group(2)))
        return out
    r = items()
    assert pos == len(s), "unparsed skeleton tail: " + s[pos:pos + 40]
    return "[" + "; ".join(r) + "]" if r else "(@nil sk)"


def parse_graph(s):
    parts = s.split(";")
    root = int(parts[0])
    fns = []
    for p in parts[1:]:
        i, label, ms = p.split(":")
        ml = [m for m in ms.split(",") if m]
        fns.append("(%s, mkFn %s %s %s)" % (i, label, label, "[" + "; ".join(ml) + "]" if ml else "(@nil N)"))
    return "[" + "; ".join(fns) + "]", root


def run(ctx):
    ok, rep = ctx.coq_props("Fingerprint/Props_C08.v")
    okb, outb = ctx.coq_build(["Fingerprint/Run.vo"])
    if not okb:
        ctx.violation("the fingerprint model does not build", {"theorem_or_correspondence": "Fingerprint/Run.v", "log": outb[-2000:]}, found_input=False)
        return
    out = os.path.join(ctx.tmp, "c08.tsv")
    files = {n: os.path.join(HARNESS, "overlay/root", n) for n in
             ("zz_verif_c08_test.go", "zz_verif_c08_sweep_test.go", "zz_verif_c08_values_test.go", "zz_verif_c08_alias_test.go", "zz_verif_c08_conc_test.go", "zz_verif_c08_hist_test.go")}
    env = {"VERIF_OUT": out, "VERIF_SEED": str(ctx.seed), "VERIF_NRAND": "12" if ctx.quick() else "150",
           "VERIF_C08_THOROUGH": "0" if ctx.quick() else "1"}
    # the schedule families once more under the race detector, in parallel with the main run (a second build of the package)
    race = {}

    def race_run():
        rroot = os.path.join(ctx.tmp, "c08-race-root")
        os.makedirs(rroot, exist_ok=True)
        renv = {"VERIF_C08_CHILD": "conc", "VERIF_ROOT": rroot, "VERIF_REPORT": os.path.join(ctx.tmp, "c08-race.tsv"),
                "VERIF_SEED": str(ctx.seed), "VERIF_C08_THOROUGH": env["VERIF_C08_THOROUGH"], "GOMAXPROCS": "8", "CGO_ENABLED": "1"}
        race["rc"], race["out"] = ctx.go_overlay_test("", files, "^TestVerifC08Conc$", renv, timeout=900, extra=["-race"])
    rt = threading.Thread(target=race_run)
    rt.start()
    rc, o = ctx.go_overlay_test("", files, "^TestVerifC08$", env, timeout=1800)
    rt.join()
    if rc != 0 or not os.path.exists(out):
        ctx.log(o[-2000:])
        ctx.violation("C08 harness failed to build or run (exit %d)" % rc, {"theorem_or_correspondence": "C08 harness", "output": o[-2000:]}, found_input=False)
        return
    cases, graphs, oracles = [], [], []
    texts = {}
    values_info = {"routes": {}}
    hist_info = {}
    alias_info = {"routes": {}}
    for line in open(out):
        f = line.rstrip("\n").split("\t")
        if f[0] == "ORACLE":
            oracles.append(f[1:])
        elif f[0] == "case":
            cases.append(f[1:])
        elif f[0] == "graph":
            graphs.append(f[1:])
        elif f[0] == "valuesdist":
            values_info["pool_classes"] = dict((kv.split("=")[0], int(kv.split("=")[1])) for kv in f[1].split())
        elif f[0] == "valuesroute":
            values_info["routes"][f[1]] = {"targets": int(f[2]), "distinct_values": int(f[3]), "distinct_fingerprints": int(f[4])}
        elif f[0] == "valuesdone":
            values_info["pool"], values_info["edit_loads"] = int(f[1]), int(f[2])
        elif f[0] == "aliasroute":
            alias_info["routes"][f[1]] = {"targets": int(f[2]), "distinct_values": int(f[3]), "distinct_fingerprints": int(f[4])}
        elif f[0] == "aliasstats":
            alias_info.update({"bases": int(f[1]), "pair_targets": int(f[2]), "colliding_with_another_value": int(f[3]),
                               "equal_value_equal_fingerprint_not_judged": int(f[4]), "edit_loads": int(f[5])})
        elif f[0] == "histstats":
            hist_info = {"targets": int(f[1]), "fault_sources": int(f[2]), "fingerprints_compared_with_the_fresh_process": int(f[3]), "differing": int(f[4])}
        elif f[0] == "text":
            texts[f[1]] = base64.b64decode(f[2]).decode("utf-8", "replace")
    ctx.coverage["evaluations"] = len(cases) + len(graphs)
    ctx.coverage["distinct_nontrivial"] = len({tuple(c[:2]) for c in cases})
    ctx.coverage["rule"] = ("fixed menu of %d BUILD programs (plain, recursion, mutual recursion, self-recursive target, closure, defaults, "
                            "nested defs + lambda + comprehension, helper module, 2500-element and cyclic data, every predeclared value, "
                            "target reference, function-keyed dict, two/three same-named closures and lambdas in progress, a helper shared through a list, 13 parameter shapes (positional, defaults, *args, keyword-only with/without defaults in every order, **kwargs) and 8 capture shapes (0-3 variables, never assigned, assigned later, shared by two closures)) plus seeded random call graphs of 2-7 helpers (self loops, mutual recursion, a helper in a global list, one as a default argument; every helper's body edited in turn, reachable or not), each loaded in its own process: base load, two re-loads of the identical "
                            "text (shuffled file creation order, GOMAXPROCS 1 and 4), then one load per edit of its menu (relevant edits must "
                            "change the fingerprint as diffEnv sees it, irrelevant ones must not); a case = (program, edit). "
                            "Collection sweep: per size n (every size within -2..+3 of a multiple of the encoder's batch of 1000, the small sizes, 255-257, seeded random sizes; thorough: also 65535-65537) "
                            "a program with one target per way of referencing an n-element collection (list, tuple, dict by value, dict by key, set, list nested in a dict, list as default, "
                            "list captured by a closure, string, bytes, range), literal or built by comprehensions; edits: replace element p for p at the head, the tail and both sides of every batch boundary "
                            "plus seeded random p, and append one element; every referencing target must change. "
                            "Value space: a pool of %d values (%s), one target per (route, value) for 8 routes in one load (all functions of a route the same code), fingerprints pairwise different per route; "
                            "%d loads of a 6-route project (global, literal, default, load()ed global, in a global list, dict key), one per value of the selection (class boundaries, random relatives, kinds, shapes, host kinds), "
                            "pairwise different per route. "
                            "Related values: %d base values x all ordered pairs of their 9-26 derivations (thorough: more slices, 12 random tuples) x 3 routes = %d functions of one load, fingerprinted as targets are; "
                            "%d loads of the 6-target project A = ..; B = d(A), one per (base, derivation); structurally different live values must give different fingerprints. "
                            "Schedules: k independent targets each referencing a value of every codec kind (all values distinct): target B fingerprinted inside EVERY write of target A's pickling, "
                            "one goroutine per target fingerprinting at once, the real runner building a target that depends on all k then a fresh load; each must give the fingerprints computed alone; "
                            "the same once more under the race detector. "
                            "Process history: one project (c08HistText: 12 good targets, 5 fuse targets x 4 fuse attributes + 1 unpicklable = 21 fault sources, 6 string/bytes views x 2 routes), reference = one fresh process per target; "
                            "H0 every target once in a seeded order, H1 every fault source (half the time after a second one) before every good and every disarmed fuse target, H2 1500 (thorough 20000) seeded random steps, "
                            "H3 6 (30) engine rounds; every observation compared with the reference" % (len({c[0] for c in cases if not c[0].startswith(FAMILIES)}), values_info.get("pool", 0),
                                                                               ", ".join("%s %d" % kv for kv in sorted(values_info.get("pool_classes", {}).items())), values_info.get("edit_loads", 0),
                                                                               alias_info.get("bases", 0), alias_info.get("pair_targets", 0), alias_info.get("edit_loads", 0)))
    ctx.coverage["correspondence"]["distribution"] = {"programs": len({c[0] for c in cases if not c[0].startswith(FAMILIES)}),
                                                      "edits": len([c for c in cases if not c[0].startswith(FAMILIES)]), "graphs": len(graphs),
                                                      "collection_sizes": len({c[0].split("/")[0] for c in cases if c[0].startswith("collections-")}),
                                                      "collection_cases": len([c for c in cases if c[0].startswith("collections-")]),
                                                      "schedule_cases": len([c for c in cases if c[0].startswith("concurrent/")]),
                                                      "value_cases": len([c for c in cases if c[0].startswith("values/")]), "values": values_info,
                                                      "related_value_cases": len([c for c in cases if c[0].startswith("alias/")]), "related_values": alias_info,
                                                      "history_cases": len([c for c in cases if c[0].startswith("history/")]), "history": hist_info}
    ctx.add_samples([c[:4] for c in cases[:3]] + [g[:3] for g in graphs[1:3]])
    # oracle failures of the two families are many lines of one defect: one violation per (family, oracle), inputs listed
    grouped, single = {}, []
    for o_ in oracles:
        fam = ("collections" if o_[1].startswith("collections-") else "concurrent" if o_[1].startswith("concurrent/") else "values" if o_[1].startswith("values/")
               else "alias" if o_[1].startswith("alias/")
               else "history" if o_[1].startswith("history/") else None)
        if fam:
            grouped.setdefault((fam, o_[0]), []).append(o_)
        else:
            single.append(o_)
    for (fam, orc), lst in sorted(grouped.items()):
        if fam == "values":
            # list one failing input of every route before the others
            firsts, seen_routes = [], set()
            for x in lst:
                route = "/".join(x[1].split("/")[1:3]) if x[1].startswith("values/edits/") else x[1].split("/")[1]
                if route not in seen_routes:
                    seen_routes.add(route)
                    firsts.append(x)
            lst = firsts + [x for x in lst if x not in firsts]
        if fam == "alias":
            lst = [x for x in lst if x[1].startswith("alias/edits/")] + [x for x in lst if not x[1].startswith("alias/edits/")]
        how = ("harness/overlay/root/zz_verif_c08_sweep_test.go: program c08SweepText(n, ...) for the size n in the name, target and edit as named"
               if fam == "collections" else
               "harness/overlay/root/zz_verif_c08_values_test.go: pool c08ValuePool(seed, thorough); values/<route>/<a> -> <b>: the targets function=mk(<a>) and function=mk(<b>) of c08ValuePoolText (route = how the "
               "value is wrapped); values/edits/<target>/<a> -> <b>: the projects c08ValueEditText(<a>) and c08ValueEditText(<b>), target as named"
               if fam == "values" else
               "harness/overlay/root/zz_verif_c08_alias_test.go: bases c08AliasBases(seed, thorough); alias/edits/<target>/<base>: A = ..; B = <d> <- B = <d'>: the projects c08AliasEditText(base, d') (before) and "
               "c08AliasEditText(base, d) (after), both printed below, target as named: an edit of module-level code outside every function that changes the value of the global B the target references; "
               "alias/<route>/<base>: A = ..; (x, y) <- (x', y'): the targets `before` and `after` of the BUILD.dawn below (c08AliasPoolText: same code, referencing (x', y') and (x, y), all computed from the one object A)"
               if fam == "alias" else
               "harness/overlay/root/zz_verif_c08_hist_test.go: project c08HistText(seed, true) (BUILD.dawn below) loaded with c08HistBuiltins() after a build of c08HistText(seed, false); "
               "history/<what the process did before>, then //:<target>: the fingerprint of <target> (stamp, functionEnv, upToDate) computed after that history differs from the one computed alone, first "
               "thing in a fresh process (child histref); 'failed fingerprint of //:f with attribute x of FUSE_i unreadable' = functionEnv(//:f) while the predeclared value FUSE_i returns an error for that attribute; "
               "history/kinds/<expression>: a target that references that value loads but cannot be fingerprinted"
               if fam == "history" else
               "harness/overlay/root/zz_verif_c08_conc_test.go: project c08ConcText(k, seed), schedule as named")
        ctx.violation("implementation violates C08 (%s, %d inputs of the %s family): %s: %s" % (orc, len(lst), fam, lst[0][1], lst[0][2] if len(lst[0]) > 2 else ""),
                      {"oracle": orc, "family": fam, "failing_inputs": [x[1] for x in lst[:12]], "detail": [x[2:] for x in lst[:4]],
                       "number_of_failing_inputs": len(lst), "how": how,
                       "BUILD.dawn": texts.get(fam, "(regenerate: see how)")})
    for o_ in single:
        key = None
        ctx.violation("implementation violates C08 (%s): %s: %s" % (o_[0], o_[1], o_[2] if len(o_) > 2 else ""),
                      {"oracle": o_[0], "program_and_edit": o_[1], "detail": o_[2:],
                       "how": "harness/overlay/root/zz_verif_c08_test.go, program menu c08Programs()"}, key=key)
    # race detector over the schedule families
    rout = race.get("out", "")
    nraces = rout.count("WARNING: DATA RACE")
    ctx.coverage["correspondence"]["race_detector"] = {"exit": race.get("rc"), "data_races": nraces}
    if nraces:
        first = rout[rout.index("WARNING: DATA RACE"):]
        first = first[:first.find("==================")] if "==================" in first else first
        frames = []
        for l in first.splitlines():
            if l.startswith("      ") and frames:
                frames[-1] += "  " + l.strip().split(" +0x")[0]
            elif l.strip():
                frames.append(l.strip())
        frames = frames[:26]
        ctx.violation("two targets' fingerprints computed at the same time share memory (%d data races reported by the race detector): "
                      "a fingerprint can depend on the schedule" % nraces,
                      {"oracle": "race detector", "project": "c08ConcText(k, seed): k independent targets, each fingerprinted by its own goroutine / by the runner",
                       "first_report": frames, "BUILD.dawn": texts.get("concurrent", ""), "how": "go test -race -run ^TestVerifC08Conc$ with VERIF_C08_CHILD=conc (harness/overlay/root/zz_verif_c08_conc_test.go)"})
    elif race.get("rc") != 0:
        rrep = os.path.join(ctx.tmp, "c08-race.tsv")
        ror = [l.rstrip("\n").split("\t") for l in open(rrep)] if os.path.exists(rrep) else []
        ror = [l for l in ror if l[0] == "ORACLE"]
        if ror and not oracles:
            ctx.violation("implementation violates C08 under the race detector's schedules (%s): %s: %s" % (ror[0][1], ror[0][2], ror[0][3] if len(ror[0]) > 3 else ""),
                          {"oracle": ror[0][1], "failing_inputs": [x[2] for x in ror[:12]], "how": "zz_verif_c08_conc_test.go under go test -race"})
        elif not ror and not oracles and re.search(r"-race requires cgo|-race is only supported|C compiler .* not found|exec: \"(gcc|cc|clang)\"", rout):
            # no race detector on this machine: the three schedule families of the main run stand alone
            ctx.log("race detector unavailable:", rout.strip().splitlines()[-1][:200] if rout.strip() else "")
            ctx.coverage["correspondence"]["race_detector"] = {"exit": race.get("rc"), "unavailable": True}
        elif not ror and not oracles:
            ctx.violation("the race-detector run of the C08 schedule families failed to build or run (exit %s)" % race.get("rc"),
                          {"theorem_or_correspondence": "C08 harness (-race)", "output": rout[-1500:]}, found_input=False)
    exprs = []
    items = []
    for i, g in enumerate(graphs):
        gt, root = parse_graph(g[1])
        items.append("(%d, (%s, %d, %s))" % (i, gt, root, parse_skel(g[2])))
    if items:
        okc, res, logs = ctx.coq_eval(HDR, ["fp_mismatches [\n" + ";\n".join(items) + "]"])
        if not okc:
            ctx.violation("fingerprint model evaluation failed", {"theorem_or_correspondence": "Fingerprint/Run.v evaluation", "log": logs[:1]}, found_input=False)
            return
        mism = [x for r in res for x in r]
        ctx.coverage["correspondence"]["graph_mismatches"] = len(mism)
        ctx.log("programs=%d cases=%d graphs=%d graph_mismatches=%d oracle_failures=%d" % (
            len({c[0].split("/")[0] for c in cases}), len(cases), len(graphs), len(mism), len(oracles)))
        if mism and not oracles:
            ctx.violation("fingerprint model and implementation disagree on the expansion tree of %s" % [graphs[i][0] for i in mism],
                          {"theorem_or_correspondence": "correspondence Fingerprint/Model.v <-> function.go recursionPickler/envPickler + pickle/encode.go memo",
                           "graphs": [graphs[i] for i in mism[:3]]}, found_input=False)
    if not ok and not ctx.violations:
        ctx.violation("a C08 theorem no longer checks", {"theorem_or_correspondence": getattr(ctx, "broken_proof", {})}, found_input=False)
