"""C08 — Every target function can be fingerprinted, deterministically."""
import os
import re
from lib.vlib import *

META = {
    "property_id": "C08",
    "technique": "Coq proof (termination, coverage, determinism and sensitivity of the environment traversal) + reified-graph correspondence + edit-menu oracle on real loads",
    "level_text": "Theorems (Coq, all graphs): fingerprint_terminates (the traversal done by recursionPickler/envPickler under the "
                  "encoder's memo terminates on every function graph, recursion and mutual recursion included); "
                  "fingerprint_covers_reachable (the code of every reachable function is in the fingerprint); "
                  "fingerprint_deterministic (two rooted function graphs whose reachable parts are isomorphic -- equal names, codes and "
                  "mentioned functions in order, whatever the identities, listing order, graph size and unreachable rest -- have equal "
                  "fingerprints); fingerprint_sensitive (the converse, no side condition: equal fingerprints => the reachable parts are "
                  "isomorphic, so every difference in a reachable code or in which function a reference denotes shows; it rests on the "
                  "placeholder of a function in progress carrying the function's ordinal, function.go since 7738be5 -- the finding of the "
                  "earlier, name-only model: same-named functions in progress); iso_relates_every_reachable_function. Tie: the harness "
                  "replays the encoder's traversal over the live function graph of each program's target and the Coq model must reproduce "
                  "the token tree seen in the implementation's decoded fingerprint: expanded function environments, placeholders WITH their "
                  "ordinals, repeated (memo-referenced) function environments with the ordinal of the function referred to. "
                  "Oracles on the implementation, each load in its own process: "
                  "terminates without error/crash/hang for recursion, mutual recursion, closures, defaults, nested defs, lambdas, "
                  ">1000-element and cyclic data, every predeclared value; identical text re-loaded (other file order, other "
                  "GOMAXPROCS) gives the identical stamp; every edit of a menu of referenced codes/values/references changes it (as the engine "
                  "compares it: diffEnv), every cosmetic / other-package edit does not.",
    "level_note": "Trusted: Coq kernel; the model abstracts values to the function objects they mention (byte-level codec = C07) and a "
                  "function's own payload (bytecode, constants, names, non-function values) to one code identity, so model-level "
                  "sensitivity is sensitivity to that identity and to the reference structure; a memo reference is modelled by the ordinal "
                  "of the function referred to (the stamp has a memo id, the decoded value the shared object: both determine it); "
                  "the Starlark compiler is not modelled (the reifier reads live objects through the same accessors envPickler uses and "
                  "replays the encoder's memo for containers and code objects); "
                  "determinism and sensitivity for value kinds are decided by the harness on a fixed program menu, not by a theorem.",
    "design_ref": "DESIGN.md §6 C08",
}

HDR = "From Dawn Require Import Fingerprint.Model Fingerprint.Run.\nOpen Scope N_scope.\n"


def parse_skel(s):
    """F12(F3()R1M0) -> Coq list of sk: F<label>(...) expanded function, R<ordinal> placeholder, M<ordinal> memo reference"""
    pos = 0

    def items():
        nonlocal pos
        out = []
        while pos < len(s) and s[pos] in "FRM":
            if s[pos] == "F":
                m = re.match(r"F(\d+)\(", s[pos:])
                pos += m.end()
                ch = items()
                assert s[pos] == ")"
                pos += 1
                out.append("(Sk %s %s)" % (m.group(1), "[" + "; ".join(ch) + "]" if ch else "(@nil sk)"))
            else:
                m = re.match(r"([RM])(\d+)", s[pos:])
                pos += m.end()
                out.append("(%s %s)" % ("SkRec" if m.group(1) == "R" else "SkRef", m.group(2)))
        return out
    r = items()
    assert pos == len(s), "unparsed skeleton tail: " + s[pos:pos + 40]
    return "[" + "; ".join(r) + "]" if r else "(@nil sk)"


def parse_graph(s):
    parts = s.split(";")
    root = int(parts[0])
    fns = []
    for p in parts[1:]:
        i, label, ms = p.split(":")
        ml = [m for m in ms.split(",") if m]
        fns.append("(%s, mkFn %s %s %s)" % (i, label, label, "[" + "; ".join(ml) + "]" if ml else "(@nil N)"))
    return "[" + "; ".join(fns) + "]", root


def run(ctx):
    ok, rep = ctx.coq_props("Fingerprint/Props_C08.v")
    okb, outb = ctx.coq_build(["Fingerprint/Run.vo"])
    if not okb:
        ctx.violation("the fingerprint model does not build", {"theorem_or_correspondence": "Fingerprint/Run.v", "log": outb[-2000:]}, found_input=False)
        return
    out = os.path.join(ctx.tmp, "c08.tsv")
    rc, o = ctx.go_overlay_test("", {"zz_verif_c08_test.go": os.path.join(HARNESS, "overlay/root/zz_verif_c08_test.go")},
                                "^TestVerifC08$", {"VERIF_OUT": out, "VERIF_SEED": str(ctx.seed), "VERIF_NRAND": "12" if ctx.quick() else "150"}, timeout=1200)
    if rc != 0 or not os.path.exists(out):
        ctx.log(o[-2000:])
        ctx.violation("C08 harness failed to build or run (exit %d)" % rc, {"theorem_or_correspondence": "C08 harness", "output": o[-2000:]}, found_input=False)
        return
    cases, graphs, oracles = [], [], []
    for line in open(out):
        f = line.rstrip("\n").split("\t")
        if f[0] == "ORACLE":
            oracles.append(f[1:])
        elif f[0] == "case":
            cases.append(f[1:])
        elif f[0] == "graph":
            graphs.append(f[1:])
    ctx.coverage["evaluations"] = len(cases) + len(graphs)
    ctx.coverage["distinct_nontrivial"] = len({tuple(c[:2]) for c in cases})
    ctx.coverage["rule"] = ("fixed menu of %d BUILD programs (plain, recursion, mutual recursion, self-recursive target, closure, defaults, "
                            "nested defs + lambda + comprehension, helper module, 2500-element and cyclic data, every predeclared value, "
                            "target reference, function-keyed dict, two/three same-named closures and lambdas in progress, a helper shared through a list, 13 parameter shapes (positional, defaults, *args, keyword-only with/without defaults in every order, **kwargs) and 8 capture shapes (0-3 variables, never assigned, assigned later, shared by two closures)) plus seeded random call graphs of 2-7 helpers (self loops, mutual recursion, a helper in a global list, one as a default argument; every helper's body edited in turn, reachable or not), each loaded in its own process: base load, two re-loads of the identical "
                            "text (shuffled file creation order, GOMAXPROCS 1 and 4), then one load per edit of its menu (relevant edits must "
                            "change the fingerprint as diffEnv sees it, irrelevant ones must not); a case = (program, edit)" % len({c[0] for c in cases}))
    ctx.coverage["correspondence"]["distribution"] = {"programs": len({c[0] for c in cases}), "edits": len(cases), "graphs": len(graphs)}
    ctx.add_samples([c[:4] for c in cases[:3]] + [g[:3] for g in graphs[1:3]])
    for o_ in oracles:
        key = None
        ctx.violation("implementation violates C08 (%s): %s: %s" % (o_[0], o_[1], o_[2] if len(o_) > 2 else ""),
                      {"oracle": o_[0], "program_and_edit": o_[1], "detail": o_[2:],
                       "how": "harness/overlay/root/zz_verif_c08_test.go, program menu c08Programs()"}, key=key)
    exprs = []
    items = []
    for i, g in enumerate(graphs):
        gt, root = parse_graph(g[1])
        items.append("(%d, (%s, %d, %s))" % (i, gt, root, parse_skel(g[2])))
    if items:
        okc, res, logs = ctx.coq_eval(HDR, ["fp_mismatches [\n" + ";\n".join(items) + "]"])
        if not okc:
            ctx.violation("fingerprint model evaluation failed", {"theorem_or_correspondence": "Fingerprint/Run.v evaluation", "log": logs[:1]}, found_input=False)
            return
        mism = [x for r in res for x in r]
        ctx.coverage["correspondence"]["graph_mismatches"] = len(mism)
        ctx.log("programs=%d cases=%d graphs=%d graph_mismatches=%d oracle_failures=%d" % (
            len({c[0] for c in cases}), len(cases), len(graphs), len(mism), len(oracles)))
        if mism and not oracles:
            ctx.violation("fingerprint model and implementation disagree on the expansion tree of %s" % [graphs[i][0] for i in mism],
                          {"theorem_or_correspondence": "correspondence Fingerprint/Model.v <-> function.go recursionPickler/envPickler + pickle/encode.go memo",
                           "graphs": [graphs[i] for i in mism[:3]]}, found_input=False)
    if not ok and not ctx.violations:
        ctx.violation("a C08 theorem no longer checks", {"theorem_or_correspondence": getattr(ctx, "broken_proof", {})}, found_input=False)
