"""C12 — Labels are canonical, stable identities confined to the project."""
import os
from lib.vlib import *

META = {
    "property_id": "C12",
    "technique": "Coq proof over a Gallina model of label.go/sourceFile.go + exhaustive short-string correspondence",
    "level_text": "Theorems (Coq, unbounded): parse is total, Parse(String(l)) = l for every accepted label with a name or "
                  "no kind, String is injective on those, the same after RelativeTo, repoSourcePath results have no '..' "
                  "component, url.PathEscape model is injective and record paths are injective on persisted labels. "
                  "The model is tied to label.go, sourceFile.go and project.go by running both on every string of "
                  "length <= 5 (quick) / <= 7 (thorough) over {a . / : @} plus random strings, all outputs compared.",
    "level_note": "Trusted: Coq kernel; Go's path.Clean/path.Join and url.PathEscape are modelled (component-level) and "
                  "validated only by the correspondence sweep; filesystem symlinks are out of scope.",
    "design_ref": "DESIGN.md §6 C12",
}

HDR = "From Dawn Require Import Label.Model Label.Run.\nOpen Scope N_scope.\n"


def unhx(s):
    return b"" if s == "-" else bytes.fromhex(s)


def lab(fields):
    return "(mkLabel %s %s %s %s)" % tuple(cq_bytes(unhx(x)) for x in fields)


def to_case(f):
    op = f[0]
    if op == "parse":
        if f[2] == "err":
            return "CParse %s None" % cq_bytes(unhx(f[1]))
        return "CParse %s (Some (%s, %s))" % (cq_bytes(unhx(f[1])), lab(f[3:7]), cq_bytes(unhx(f[7])))
    if op == "rel":
        if f[3] == "err":
            return "CRel %s %s None" % (cq_bytes(unhx(f[1])), cq_bytes(unhx(f[2])))
        return "CRel %s %s (Some (%s, %s))" % (cq_bytes(unhx(f[1])), cq_bytes(unhx(f[2])), lab(f[4:8]), cq_bytes(unhx(f[8])))
    if op == "clean":
        return "CClean %s %s" % (cq_bytes(unhx(f[1])), "None" if f[2] == "err" else "(Some %s)" % cq_bytes(unhx(f[3])))
    if op == "split":
        n = int(f[2])
        comps = f[3].split(",") if n else []
        return "CSplit %s %s" % (cq_bytes(unhx(f[1])), cq_list([cq_bytes(unhx(c)) for c in comps], "str"))
    if op == "new":
        args = " ".join(cq_bytes(unhx(x)) for x in f[1:5])
        return "CNew %s %s" % (args, "None" if f[5] == "err" else "(Some %s)" % lab(f[6:10]))
    if op == "join":
        return "CJoin %s %s %s" % (cq_bytes(unhx(f[1])), cq_bytes(unhx(f[2])),
                                   "None" if f[3] == "err" else "(Some %s)" % cq_bytes(unhx(f[4])))
    if op == "rsp":
        return "CRsp %s %s %s" % (cq_bytes(unhx(f[1])), cq_bytes(unhx(f[2])),
                                  "None" if f[3] == "err" else "(Some %s)" % cq_bytes(unhx(f[4])))
    if op == "slabel":
        return "CSlabel %s %s %s" % (cq_bytes(unhx(f[1])), cq_bytes(unhx(f[2])),
                                     "None" if f[3] == "err" else "(Some %s)" % lab(f[4:8]))
    if op == "tip":
        return "CTip (mkLabel %s (@nil N) %s %s) %s" % (cq_bytes(unhx(f[1])), cq_bytes(unhx(f[2])),
                                                       cq_bytes(unhx(f[3])), cq_bytes(unhx(f[4])))
    raise ValueError(op)


def show(f):
    return [f[0]] + [unhx(x).decode("latin-1") if x not in ("ok", "err", "panic") and not x.isdigit() or x == "-" else x
                     for x in f[1:]]


def run(ctx):
    ok, rep = ctx.coq_props("Label/Props_C12.v")
    if not ok:
        proof_broken = True
    else:
        proof_broken = False

    maxlen = 5 if ctx.quick() else 7
    nrand = 3000 if ctx.quick() else 40000
    out1 = os.path.join(ctx.tmp, "c12_label.tsv")
    out2 = os.path.join(ctx.tmp, "c12_paths.tsv")
    env = {"VERIF_OUT": out1, "VERIF_MAXLEN": str(maxlen), "VERIF_NRAND": str(nrand), "VERIF_SEED": str(ctx.seed)}
    rc, o = ctx.go_overlay_test("label", {"zz_verif_c12_test.go": os.path.join(HARNESS, "overlay/label/zz_verif_c12_test.go")},
                                "^TestVerifC12$", env)
    if rc != 0:
        ctx.log(o[-3000:])
        ctx.violation("label harness failed to build or run against /repo (exit %d)" % rc,
                      {"theorem_or_correspondence": "C12 correspondence harness (label)", "output": o[-3000:]}, found_input=False)
        return
    env2 = {"VERIF_OUT": out2, "VERIF_MAXLEN": str(6 if ctx.quick() else 8)}
    rc, o = ctx.go_overlay_test("", {"zz_verif_c12_test.go": os.path.join(HARNESS, "overlay/root/zz_verif_c12_test.go")},
                                "^TestVerifC12Paths$", env2)
    if rc != 0:
        ctx.log(o[-3000:])
        ctx.violation("path harness failed to build or run against /repo (exit %d)" % rc,
                      {"theorem_or_correspondence": "C12 correspondence harness (paths)", "output": o[-3000:]}, found_input=False)
        return

    cases = []
    oracles = []
    dist = {}
    panics = []
    for p in (out1, out2):
        for line in open(p):
            f = line.rstrip("\n").split("\t")
            if f[0] == "ORACLE":
                oracles.append(f)
                continue
            if "panic" in f:
                panics.append(f)
                continue
            key = f[0] + ":" + ("err" if "err" in f[1:] else "ok")
            dist[key] = dist.get(key, 0) + 1
            cases.append(f)
    ctx.coverage["evaluations"] = len(cases)
    ctx.coverage["distinct_nontrivial"] = len({tuple(f) for f in cases if "ok" in f or f[0] in ("split", "tip")})
    ctx.coverage["rule"] = ("every string of length <= %d over {a . / : @} through Parse/String/RelativeTo (7 packages), "
                            "length <= %d through Clean/Split, a 13^3x5 product through New, 13^2 through Join, every path "
                            "of length <= %d over {a . /} x 5 packages through repoSourcePath/sourceLabel/targetInfoPath, "
                            "%d random strings (seeded); non-trivial = accepted by the implementation; distinct by full case"
                            % (maxlen, maxlen - 1, 6 if ctx.quick() else 8, nrand))
    ctx.coverage["exhaustive"] = True
    ctx.coverage["correspondence"]["distribution"] = dist
    ctx.add_samples([show(f) for f in cases[1000:1003] + cases[-2:]])

    for f in oracles:
        ctx.violation("implementation violates C12 oracle %s" % f[1],
                      {"oracle": f[1], "inputs": [unhx(x).decode("latin-1") for x in f[2:]], "inputs_hex": f[2:],
                       "how": "label.Parse / sourceFile.go on the given input; see harness/overlay/*/zz_verif_c12_test.go"})
    for f in panics:
        ctx.violation("implementation panics", {"case": show(f), "hex": f})

    # model evaluation inside Coq, sharded
    shard = 2500
    exprs = []
    for i in range(0, len(cases), shard):
        items = ["(%s, %s)" % (cq_N(i + j), to_case(f)) for j, f in enumerate(cases[i:i + shard])]
        exprs.append("mismatches [\n" + ";\n".join(items) + "]")
    okc, res, logs = ctx.coq_eval(HDR, exprs)
    mism = []
    if not okc:
        ctx.log("coq evaluation failed", logs[:1])
        ctx.violation("model evaluation failed", {"theorem_or_correspondence": "C12 cases.v evaluation", "log": logs[:2]},
                      found_input=False)
        return
    for r in res:
        mism += r
    ctx.coverage["correspondence"]["cases"] = len(cases)
    ctx.coverage["correspondence"]["mismatches"] = len(mism)
    ctx.log("cases=%d mismatches=%d oracle_failures=%d" % (len(cases), len(mism), len(oracles)))
    if mism and not oracles and not panics:
        # the model (for which the theorems are proved) and the code disagree, but no direct failure of the
        # property was found on the implementation
        ex = [show(cases[i]) for i in mism[:5]]
        ctx.violation("model/implementation disagree on %d cases, e.g. %s" % (len(mism), ex[0]),
                      {"theorem_or_correspondence": "correspondence Label/Model.v <-> label.go/sourceFile.go/project.go",
                       "disagreeing_cases": ex, "hex": [cases[i] for i in mism[:5]]}, found_input=False)
    if proof_broken and not ctx.violations:
        ctx.violation("a C12 theorem no longer checks", {"theorem_or_correspondence": getattr(ctx, "broken_proof", {})},
                      found_input=False)
