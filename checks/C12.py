"""C12 — Labels are canonical, stable identities confined to the project."""
import os
import shutil
import tempfile
from lib.vlib import *

META = {
    "property_id": "C12",
    "technique": "Coq proof over a Gallina model of label.go/sourceFile.go, of the sources=/generates= call sites and of the "
                 "call sites that turn a user-spelled label into a key (deps=, get_target, LoadTarget) + "
                 "exhaustive short-string correspondence + call-site sweeps on really loaded projects",
    "level_text": "Theorems (Coq, unbounded): parse is total, Parse(String(l)) = l for every accepted label with a name or "
                  "no kind, String is injective on those, the same after RelativeTo, repoSourcePath results have no '..' "
                  "component, the OS path stored for an accepted generates= / sources= entry is the cleaned project root "
                  "followed by components none of which is '..' (for any absolute root), url.PathEscape model is injective and record paths are injective on persisted labels. "
                  "The model is tied to label.go, sourceFile.go and project.go by running both on every string of "
                  "length <= 5 (quick) / <= 7 (thorough) over {a . / : @} plus random strings, all outputs compared; "
                  "record paths also for names and packages of 64 .. 512 (thorough .. 4096) bytes that share a prefix and differ at the end, "
                  "in the middle or at the front (compared with the model, checked for collisions); "
                  "the target builtin is called (and, for a sample, BUILD.dawn files are loaded) in projects rooted at real "
                  "directories with every path of <= 3 (quick) / 4 (thorough) components over a vocabulary derived from the "
                  "root's own name and its parent's, the resolved OS paths are checked to lie inside the root and are "
                  "recomputed by the model; the deps=/get_target/LoadTarget call sites are driven with every short string "
                  "over {a . / :} and constructed re-spellings of defined targets, keys compared with the model, and whole "
                  "projects are loaded and built with re-spelt labels, keys read back from the records on disk.",
    "level_note": "Trusted: Coq kernel; Go's path.Clean/path.Join and url.PathEscape are modelled (component-level) and "
                  "validated only by the correspondence sweep; filesystem symlinks are out of scope.",
    "design_ref": "DESIGN.md §6 C12",
}

HDR = "From Dawn Require Import Label.Model Label.Run.\nOpen Scope N_scope.\n"


# Direct oracles (evaluated by the harnesses on the implementation) that apply to the OUTPUT of each case kind.  Every
# case goes through them, so a case on which model and implementation disagree has been through them too: when the
# correspondence breaks, the failures of these oracles on the disagreeing inputs are the concrete failing inputs.
ORACLES_FOR_KIND = {
    "parse": ["parse_panics", "parse_print_roundtrip", "print_not_canonical"],
    "rel": ["relative_roundtrip", "print_not_canonical_rel"],
    "clean": ["clean_not_idempotent"],
    "rsp": ["repoSourcePath_panics", "path_escapes_root"],
    "slabel": ["source_label_roundtrip", "source_label_print_not_canonical", "record_path_collision"],
    "tip": ["record_path_collision"],
    "dep": ["dependency_key_not_printed_label", "dependency_key_not_canonical", "dependency_names_unknown_key",
            "record_key_not_printed_label"],
    "find": ["spelling_not_found", "lookup_wrong_target"],
    "site": ["generated_path_escapes_root", "source_path_escapes_root", "escaping_path_accepted_generates",
             "escaping_path_accepted_sources", "source_dependency_label_unstable", "entry_crashes_generates",
             "entry_crashes_sources"],
}
# number of leading hex fields of a case line / an ORACLE line that are the case's inputs
NINPUTS = {"parse": 1, "rel": 2, "clean": 1, "split": 1, "new": 4, "join": 2, "rsp": 2, "slabel": 2, "tip": 3, "site": 3,
           "dep": 2, "find": 2}

ORACLE_FIELDS = {
    "source_label_roundtrip": "package, source path given to sourceLabel, the printed label that does not re-parse to "
                              "the label it was printed from",
    "source_label_print_not_canonical": "package, source path given to sourceLabel, the printed label that an earlier, "
                                        "different label also printed",
    "dependency_key_not_printed_label": "package of the BUILD.dawn file, dependency as the user spelled it in target(deps=[...]), "
                                        "the string stored in the target's dependency list (what the runner asks for and "
                                        "what the dependent's record is keyed by): it does not parse and print back to itself",
    "dependency_key_not_canonical": "package, dependency as spelled, string stored for it, an earlier spelling of the SAME label "
                                    "(or, when the last two fields are equal, a DIFFERENT label), the string stored for that",
    "dependency_names_unknown_key": "package, dependency as spelled (it denotes a defined target), the string stored for it, "
                                    "which is not the key of that target in the target table",
    "spelling_not_found": "package, label as spelled (it denotes a defined target), the lookup that did not find it",
    "lookup_wrong_target": "package, label as spelled, the lookup, the label of the target it returned",
    "record_key_not_printed_label": "package, dependency as spelled in BUILD.dawn, the key(s) of the `dependencies` map in the "
                                    "dependent's record on disk after a build (expected: exactly the printed label)",
    "target_ran_under_two_identities": "project directory (scratch; BUILD.dawn files refer to //sub:gen, //sub/u:gen, //:b, "
                                       "//sub/u/v:w under every re-spelling of their package), target, times evaluated in one build",
    "module_loaded_under_two_identities": "project directory (scratch; BUILD.dawn files load //lib:defs.dawn under several "
                                          "spellings), module, times loaded",
    "accepted_spelling_rejected_e2e": "project directory (scratch), what failed, error",
    "source_dependency_label_unstable": "project root directory, package, sources= entry, the printed label (target-table "
                                        "key / dependency string) that does not re-parse and print back to itself",
    "entry_crashes_generates": "project root directory, package, generates= entry on which target()/Load panicked, "
                               "panic message",
    "entry_crashes_sources": "project root directory, package, sources= entry on which target()/Load panicked, "
                             "panic message",
    "generated_path_escapes_root": "project root directory (scratch; only its last two elements matter), package, "
                                   "generates= entry, OS path it was resolved to",
    "source_path_escapes_root": "project root directory, package, sources= entry, OS path it was resolved to",
    "escaping_path_accepted_generates": "project root directory, package, generates= entry whose plain resolution "
                                        "<root>/<pkgdir>/<entry> is outside the root, OS path it was resolved to",
    "escaping_path_accepted_sources": "project root directory, package, sources= entry whose plain resolution "
                                      "<root>/<pkgdir>/<entry> is outside the root, OS path it was resolved to",
}


SITE_ROOTS = {}
KEY_DEFS = []   # keys of the target table of the identity-key family (the `defs` line of its output)


def unhx(s):
    return b"" if s == "-" else bytes.fromhex(s)


def lab(fields):
    return "(mkLabel %s %s %s %s)" % tuple(cq_bytes(unhx(x)) for x in fields)


def to_case(f):
    op = f[0]
    if op == "parse":
        if f[2] == "err":
            return "CParse %s None" % cq_bytes(unhx(f[1]))
        return "CParse %s (Some (%s, %s))" % (cq_bytes(unhx(f[1])), lab(f[3:7]), cq_bytes(unhx(f[7])))
    if op == "rel":
        if f[3] == "err":
            return "CRel %s %s None" % (cq_bytes(unhx(f[1])), cq_bytes(unhx(f[2])))
        return "CRel %s %s (Some (%s, %s))" % (cq_bytes(unhx(f[1])), cq_bytes(unhx(f[2])), lab(f[4:8]), cq_bytes(unhx(f[8])))
    if op == "clean":
        return "CClean %s %s" % (cq_bytes(unhx(f[1])), "None" if f[2] == "err" else "(Some %s)" % cq_bytes(unhx(f[3])))
    if op == "split":
        n = int(f[2])
        comps = f[3].split(",") if n else []
        return "CSplit %s %s" % (cq_bytes(unhx(f[1])), cq_list([cq_bytes(unhx(c)) for c in comps], "str"))
    if op == "new":
        args = " ".join(cq_bytes(unhx(x)) for x in f[1:5])
        return "CNew %s %s" % (args, "None" if f[5] == "err" else "(Some %s)" % lab(f[6:10]))
    if op == "join":
        return "CJoin %s %s %s" % (cq_bytes(unhx(f[1])), cq_bytes(unhx(f[2])),
                                   "None" if f[3] == "err" else "(Some %s)" % cq_bytes(unhx(f[4])))
    if op == "rsp":
        return "CRsp %s %s %s" % (cq_bytes(unhx(f[1])), cq_bytes(unhx(f[2])),
                                  "None" if f[3] == "err" else "(Some %s)" % cq_bytes(unhx(f[4])))
    if op == "slabel":
        return "CSlabel %s %s %s" % (cq_bytes(unhx(f[1])), cq_bytes(unhx(f[2])),
                                     "None" if f[3] == "err" else "(Some %s)" % lab(f[4:8]))
    if op == "site":
        # roots shared by many cases are Definitions in the header (SITE_ROOTS: bytes -> Coq name); a result below
        # such a root is written root ++ suffix.  Purely a rendering economy: the compared value is the full path.
        rootb = unhx(f[1])
        rname = SITE_ROOTS.get(rootb)

        def res(outcome, hx):
            if outcome == "err":
                return "None"
            b = unhx(hx)
            if rname and b.startswith(rootb):
                return "(Some (%s ++ %s))" % (rname, cq_bytes(b[len(rootb):]))
            return "(Some %s)" % cq_bytes(b)
        head = "%s %s %s" % (rname or cq_bytes(rootb), cq_bytes(unhx(f[2])), cq_bytes(unhx(f[3])))
        if f[4] == f[6] and f[5] == f[7]:
            return "CSiteSame %s %s" % (head, res(f[4], f[5]))
        return "CSite %s %s %s" % (head, res(f[4], f[5]), res(f[6], f[7]))
    if op == "dep":
        return "CDep %s %s %s" % (cq_bytes(unhx(f[1])), cq_bytes(unhx(f[2])),
                                  "None" if f[3] == "err" else "(Some %s)" % cq_bytes(unhx(f[4])))
    if op == "find":
        return "CFind key_defs %s %s %s %s" % (cq_bytes(unhx(f[1])), cq_bytes(unhx(f[2])),
                                               "None" if f[3] == "err" else "(Some %s)" % cq_bytes(unhx(f[4])),
                                               "None" if f[5] == "err" else "(Some %s)" % cq_bytes(unhx(f[6])))
    if op == "tip":
        return "CTip (mkLabel %s (@nil N) %s %s) %s" % (cq_bytes(unhx(f[1])), cq_bytes(unhx(f[2])),
                                                       cq_bytes(unhx(f[3])), cq_bytes(unhx(f[4])))
    raise ValueError(op)


def show(f):
    if f[0] == "dep":
        return [f[0]] + [x if x in ("ok", "err", "panic") else unhx(x).decode("latin-1") for x in f[1:5]] + f[5:]
    if f[0] in ("site", "find"):
        return [f[0]] + [x if x in ("ok", "err", "panic") else unhx(x).decode("latin-1") for x in f[1:]]
    return [f[0]] + [unhx(x).decode("latin-1") if x not in ("ok", "err", "panic") and not x.isdigit() or x == "-" else x
                     for x in f[1:]]


def eval_model(ctx, cases):
    """Evaluate the model inside Coq on every case (sharded); returns (indices of disagreeing cases, ok, logs)."""
    SITE_ROOTS.clear()
    nroot = {}
    for f in cases:
        if f[0] == "site":
            nroot[unhx(f[1])] = nroot.get(unhx(f[1]), 0) + 1
    hdr = HDR + "Definition key_defs : list str := %s.\n" % cq_list([cq_bytes(unhx(x)) for x in KEY_DEFS], "str")
    for b, n in sorted(nroot.items()):
        if n > 20:
            SITE_ROOTS[b] = "sroot%d" % len(SITE_ROOTS)
            hdr += "Definition %s : str := %s.\n" % (SITE_ROOTS[b], cq_bytes(b))
    shard = 2500
    exprs = []
    for i in range(0, len(cases), shard):
        items = ["(%s, %s)" % (cq_N(i + j), to_case(f)) for j, f in enumerate(cases[i:i + shard])]
        exprs.append("mismatches [\n" + ";\n".join(items) + "]")
    okc, res, logs = ctx.coq_eval(hdr, exprs)
    mism = []
    if okc:
        for r in res:
            mism += r
    return mism, okc, logs


def run(ctx):
    ok, rep = ctx.coq_props("Label/Props_C12.v")
    if not ok:
        proof_broken = True
    else:
        proof_broken = False

    maxlen = 5 if ctx.quick() else 7
    nrand = 3000 if ctx.quick() else 40000
    out1 = os.path.join(ctx.tmp, "c12_label.tsv")
    out2 = os.path.join(ctx.tmp, "c12_paths.tsv")
    env = {"VERIF_OUT": out1, "VERIF_MAXLEN": str(maxlen), "VERIF_NRAND": str(nrand), "VERIF_SEED": str(ctx.seed)}
    rc, o = ctx.go_overlay_test("label", {"zz_verif_c12_test.go": os.path.join(HARNESS, "overlay/label/zz_verif_c12_test.go")},
                                "^TestVerifC12$", env)
    if rc != 0:
        ctx.log(o[-3000:])
        ctx.violation("label harness failed to build or run against /repo (exit %d)" % rc,
                      {"theorem_or_correspondence": "C12 correspondence harness (label)", "output": o[-3000:]}, found_input=False)
        return
    out3 = os.path.join(ctx.tmp, "c12_sites.tsv")
    site_depth, site_roots = (3, 2) if ctx.quick() else (4, 4)
    site_nrand, site_nload = (300, 50) if ctx.quick() else (4000, 300)
    out4 = os.path.join(ctx.tmp, "c12_keys.tsv")
    key_maxlen, key_nrand, key_nproj = (5, 1500, 2) if ctx.quick() else (6, 8000, 12)
    env2 = {"VERIF_OUT": out2, "VERIF_MAXLEN": str(6 if ctx.quick() else 8),
            "VERIF_OUT_KEYS": out4, "VERIF_KEY_MAXLEN": str(key_maxlen), "VERIF_KEY_NRAND": str(key_nrand),
            "VERIF_KEY_NPROJ": str(key_nproj),
            "VERIF_OUT_SITES": out3, "VERIF_SEED": str(ctx.seed), "VERIF_SITE_DEPTH": str(site_depth),
            "VERIF_SITE_ROOTS": str(site_roots), "VERIF_SITE_NRAND": str(site_nrand), "VERIF_SITE_NLOAD": str(site_nload)}
    # the call-site harness creates real projects and writes a record per target() call: keep that off the disk
    shm = "/dev/shm"
    if os.path.isdir(shm) and os.access(shm, os.W_OK):
        env2["TMPDIR"] = tempfile.mkdtemp(prefix="verif-c12-", dir=shm)
    try:
        rc, o = ctx.go_overlay_test("", {"zz_verif_c12_test.go": os.path.join(HARNESS, "overlay/root/zz_verif_c12_test.go"),
                                         "zz_verif_c12_sites_test.go": os.path.join(HARNESS, "overlay/root/zz_verif_c12_sites_test.go"),
                                         "zz_verif_c12_keys_test.go": os.path.join(HARNESS, "overlay/root/zz_verif_c12_keys_test.go")},
                                    "^TestVerifC12(Paths|Sites|Keys)$", env2)
    finally:
        if "TMPDIR" in env2:
            shutil.rmtree(env2["TMPDIR"], ignore_errors=True)
    if rc != 0:
        ctx.log(o[-3000:])
        # did the process die inside an entry of the call-site family?  (every entry is announced by a flushed `begin`)
        cur = None
        if os.path.exists(out3):
            for line in open(out3):
                f = line.rstrip("\n").split("\t")
                if f[0] == "begin":
                    cur = f
                elif f[0] == "end":
                    cur = None
        if cur is not None:
            ctx.violation("implementation violates C12 oracle entry_crashes (process died)",
                          {"oracle": "entry_crashes", "inputs": [unhx(x).decode("latin-1") for x in cur[1:]],
                           "inputs_hex": cur[1:],
                           "inputs_meaning": "project root directory, package, the generates=/sources= entry being "
                                             "resolved when the test process died",
                           "output": o[-3000:]})
            return
        ctx.violation("path harness failed to build or run against /repo (exit %d)" % rc,
                      {"theorem_or_correspondence": "C12 correspondence harness (paths)", "output": o[-3000:]}, found_input=False)
        return

    cases = []
    oracles = []
    dist = {}
    panics = []
    del KEY_DEFS[:]
    key_info = {}
    for p in (out1, out2, out3, out4):
        for line in open(p):
            f = line.rstrip("\n").split("\t")
            if f[0] == "defs":
                KEY_DEFS.extend(f[1].split(","))
                continue
            if f[0] == "info":
                key_info = dict(zip(f[1::2], f[2::2]))
                continue
            if f[0] == "ORACLE":
                oracles.append(f)
                continue
            if f[0] in ("begin", "end"):
                continue
            if "panic" in f:
                panics.append(f)
                continue
            key = f[0] + ":" + ("err" if "err" in f[1:] else "ok")
            if f[0] == "dep":
                key = "dep(%s):%s" % (f[5], f[3])
            elif f[0] == "find":
                key = "find:get_target %s, LoadTarget %s" % (f[3], f[5])
            dist[key] = dist.get(key, 0) + 1
            cases.append(f)
    ctx.coverage["evaluations"] = len(cases)
    ctx.coverage["distinct_nontrivial"] = len({tuple(f) for f in cases if "ok" in f or f[0] in ("split", "tip")})
    ctx.coverage["rule"] = ("every string of length <= %d over {a . / : @} through Parse/String/RelativeTo (7 packages), "
                            "length <= %d through Clean/Split, a 13^3x5 product through New, 13^2 through Join, every path "
                            "of length <= %d over {a . /} x 5 packages through repoSourcePath/sourceLabel/targetInfoPath, "
                            "%d random strings (seeded); call sites: target(generates=[g]) and target(sources=[g]) on really "
                            "loaded projects at %d root directories <tmp>/<P>/<B>, g = every sequence of <= %d components over "
                            "{.., ., '', x, s, B, B-o, B2, B minus its last byte, P} with and without a leading '/', from "
                            "packages //, //s, //s/t, + %d seeded deeper paths per root, + every single-component entry and %d sampled per root end to "
                            "end through BUILD.dawn/Load (a panic or process death on an entry is an oracle failure); identity keys: target(deps=[s]), "
                            "get_target(s) and Project.LoadTarget(s) of a loaded project with 10 defined targets, from packages "
                            "//, //a, //a/a, s = every string of length <= %d over {a . / :} (%s), every re-spelling of the defined "
                            "labels by construction (separators doubled / trailing / extra after the root, relative forms, kinds, "
                            "projects, name-less: %s) and %s seeded edits of those; + %d projects on disk whose BUILD.dawn files refer "
                            "to 4 targets and one module under every re-spelling (string literals and package + suffix), loaded "
                            "and built, keys read from the dependency lists and from the records on disk; "
                            "non-trivial = accepted by the implementation; distinct by full case"
                            % (maxlen, maxlen - 1, 6 if ctx.quick() else 8, nrand, site_roots, site_depth, site_nrand,
                               site_nload, key_maxlen, key_info.get("enumerated", "?"), key_info.get("constructed", "?"),
                               key_info.get("random", "?"), key_nproj))
    ctx.coverage["exhaustive"] = True
    ctx.coverage["correspondence"]["distribution"] = dist
    ctx.add_samples([show(f) for f in cases[1000:1003] + cases[-2:]])

    # model evaluation first: the oracle failures on inputs where model and implementation DISAGREE are reported first
    mism, okc, logs = eval_model(ctx, cases)
    dis_inputs = {}
    if okc:
        for i in mism:
            f = cases[i]
            dis_inputs.setdefault(tuple(f[1:1 + NINPUTS.get(f[0], 1)]), f[0])

    def on_disagreeing(f):
        ns = {NINPUTS[k] for k, names in ORACLES_FOR_KIND.items() if f[1] in names} or {1, 2, 3, 4}
        return any(tuple(f[2:2 + n]) in dis_inputs for n in ns)
    # disagreeing inputs first, then the simplest failing input (stable)
    oracles.sort(key=lambda f: (0 if on_disagreeing(f) else 1, sum(len(x) for x in f[2:])))
    for f in oracles:
        ctx.violation("implementation violates C12 oracle %s" % f[1],
                      {"oracle": f[1], "inputs": [unhx(x).decode("latin-1") for x in f[2:]], "inputs_hex": f[2:],
                       "inputs_meaning": ORACLE_FIELDS.get(f[1], "the harness inputs in order"),
                       "model_and_implementation_disagree_on_this_input": on_disagreeing(f),
                       "how": "label.Parse / sourceFile.go / target(sources=, generates=) on the given input; see "
                              "harness/overlay/*/zz_verif_c12*_test.go"})
    for f in panics:
        ctx.violation("implementation panics", {"case": show(f), "hex": f})

    if not okc:
        ctx.log("coq evaluation failed", logs[:1])
        ctx.violation("model evaluation failed", {"theorem_or_correspondence": "C12 cases.v evaluation", "log": logs[:2]},
                      found_input=False)
        return
    ctx.coverage["correspondence"]["cases"] = len(cases)
    ctx.coverage["correspondence"]["mismatches"] = len(mism)
    ctx.coverage["correspondence"]["oracle_failures_on_disagreeing_inputs"] = sum(1 for f in oracles if on_disagreeing(f))
    ctx.log("cases=%d mismatches=%d oracle_failures=%d" % (len(cases), len(mism), len(oracles)))
    if mism and not oracles and not panics:
        # the model (for which the theorems are proved) and the code disagree, but no direct failure of the
        # property was found on the implementation
        ex = [show(cases[i]) for i in mism[:5]]
        ctx.violation("model/implementation disagree on %d cases, e.g. %s" % (len(mism), ex[0]),
                      {"theorem_or_correspondence": "correspondence Label/Model.v <-> label.go/sourceFile.go/project.go",
                       "disagreeing_cases": ex, "hex": [cases[i] for i in mism[:5]],
                       "direct_oracles_that_passed_on_them": {k: ORACLES_FOR_KIND.get(k, [])
                                                              for k in sorted({cases[i][0] for i in mism})}},
                      found_input=False)
    if proof_broken and not ctx.violations:
        ctx.violation("a C12 theorem no longer checks", {"theorem_or_correspondence": getattr(ctx, "broken_proof", {})},
                      found_input=False)
