"""C14 — Garbage collection never changes build outcomes."""
from checks.engine_common import run_engine

META = {
    "property_id": "C14",
    "technique": "Coq proof over a Gallina model of the build engine + history correspondence with fresh-process builds",
    "level_text": 'Theorems: gc_keeps_live_records, gc_removes_dead, gc_removes_temporaries, gc_confined, builds_read_only_live_records, gc_build_equiv, gc_sim. Correspondence + oracle: record files of existing labels byte-identical after gc, dead records and temporaries gone, nothing outside .dawn/build touched, next build identical to an uncollected twin tree; gc through the index as the CLI does; scripted: collection while a declared source is absent, with a deleted output, through a symlinked project root, with several collectable items per state directory.',
    "level_note": "Trusted: as C01; record-path injectivity is C12's theorem.",
    "design_ref": "DESIGN.md §6 C14",
}


def run(ctx):
    run_engine(ctx, "C14", "Build/Props_C14.v", ["C14 "], 5,
               'Oracle: records of existing labels byte-identical after gc, records of removed labels and temporaries gone, nothing outside .dawn/build touched, and the next build executes the same bodies as in an un-collected twin tree.')
