"""C14 — Garbage collection never changes build outcomes."""
from checks.engine_common import run_engine

META = {
    "property_id": "C14",
    "technique": "Coq proof over a Gallina model of the build engine + history correspondence with fresh-process builds",
    "level_text": "placeholder",
    "level_note": "placeholder",
    "design_ref": "DESIGN.md §6 C14",
}


def run(ctx):
    run_engine(ctx, "C14", "Build/Props_C14.v", ["C14 "], 5,
               'Oracle: records of existing labels byte-identical after gc, records of removed labels and temporaries gone, nothing outside .dawn/build touched, and the next build executes the same bodies as in an un-collected twin tree.')
