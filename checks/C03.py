"""C03 — Failed and interrupted builds are recoverable."""
from checks.engine_common import run_engine

META = {
    "property_id": "C03",
    "technique": "Coq proof over a Gallina model of the build engine + history correspondence with fresh-process builds",
    "level_text": "placeholder",
    "level_note": "placeholder",
    "design_ref": "DESIGN.md §6 C03",
}


def run(ctx):
    run_engine(ctx, "C03", "Build/Props_C03.v", ["C03 ", "load failed", "child-died"], 3,
               'Oracle: builds are killed at a random persistence hook (record mkdir/create/write/close/rename, body start/end, index write); the state must load and the next build must converge to a from-scratch build.')
