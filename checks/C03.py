"""C03 — Failed and interrupted builds are recoverable."""
from checks.engine_common import run_engine

META = {
    "property_id": "C03",
    "technique": "Coq proof over a Gallina model of the build engine + history correspondence with fresh-process builds",
    "level_text": "Theorems: up_to_date_only_with_current_stamp (for ANY record contents a target is reported up to date only if its own record carries the stamp of its present environment and no re-run mark), crash_preserves_record_truth, recovery_is_never_stale, failed_body_reruns, killed_body_is_marked (every body that ran without its final record is marked for re-run in the state a killed build leaves, given marked-before-run), interrupted_build_converges (after any history ending in a killed build the next successful build leaves exactly the files of a from-scratch build); the model's crash semantics quantifies over every subset of started/recorded/marked targets. Correspondence + oracle: builds killed at every kind of persistence hook (record mkdir/create/write/close/rename, before/after/inside body, index create/write) under a one-slot runner, then the recovery build compared with the model and with a from-scratch build; failing bodies; records always loadable; oracle crash_wf: in every killed build a body that ran without its final record had been marked before (evaluated in Coq on the observed sets).",
    "level_note": 'Trusted: as C01; only process death at hook points is covered (no power loss / fs reordering); rename(2) atomic.',
    "design_ref": "DESIGN.md §6 C03",
}


def interrupted(h):
    """the history contains a killed build or a failing body"""
    for op in h["ops"]:
        if op["op"] == "build" and (op.get("fail") or (op.get("obs") or {}).get("kind") in ("crash", "crash-load", "died")):
            return True
    return False


def run(ctx):
    # "the next build converges to the outputs an uninterrupted build would have produced": the from-scratch comparison
    # (oracle "C01 stale") belongs to C03 too on histories that contain a killed build or a failing body
    run_engine(ctx, "C03", "Build/Props_C03.v", ["C03 ", "load failed", "child-died", ("C01 stale", interrupted)], 3,
               'Oracle: builds are killed at a random persistence hook (record mkdir/create/write/close/rename, body start/end, index write); the state must load and the next build must converge to a from-scratch build.')
