"""C04 — Each target runs at most once, after its dependencies."""
import json
import os
import sys
sys.path.insert(0, os.path.join(os.path.dirname(os.path.dirname(os.path.abspath(__file__))), "harness", "runner"))
import rcommon

META = {
    "property_id": "C04",
    "technique": "Coq invariant proofs over an interleaving model of runner/runner.go + trace acceptance of hook logs of the "
                 "real runner by the model (free-running jittered schedules and forced pile-up schedules) + black-box call counting "
                 "+ project-level direct oracles on generated real projects (labels under every accepted spelling; generated sources)",
    "level_text": "Theorems (Coq, all dependency graphs incl. duplicates/failing/unknown targets, all schedules, all limits): a "
                  "goroutine is created only by the atomic Idle->Running transition and at most once per label; LoadTarget, "
                  "Evaluate and the body run at most once per label; a final status never changes; every non-cyclic result handed "
                  "to a dependent equals the dependency's final status; a target continues past EvaluateTargets (without a cycle "
                  "error) only when all its dependencies are final; Run's result is the root's final status. The model is tied "
                  "to runner.go by replaying the hook logs of real runs through it (start.run only from Idle, wait.end only when "
                  "the dependency is final and with its actual outcome, finishing statuses equal). Direct oracles: "
                  "LoadTarget/Evaluate/body counts <= 1, dependency finished before the dependent continues, result error "
                  "identical to the dependency's own error value, Run's error identical to the root's. The atomicity of start()'s "
                  "test-and-set (one model step) is exercised under forced contention: pile-up builds in which all requesters of a "
                  "label are parked at the first statement of start() and released together (all limits, incl. 1), and rounds of "
                  "k goroutines leaving a spin barrier into start() of one idle record. Project level: theorems one_goroutine_per_target / "
                  "once_per_target (per-label at-most-once is per-TARGET at-most-once as far as the label strings that reach the "
                  "runner name distinct targets; two_spellings_run_twice: not otherwise) and before_request_deps_unfinished (the "
                  "guarantee covers only what Evaluate does after its request); direct oracles on real builds of generated projects: "
                  "goroutines / LoadTarget calls / events / body runs per target object and per source file with one target "
                  "requested under every pair of accepted label and path spellings; a generated source file's stamp = hash of the "
                  "file as its generator left it, bodies see every dependency finished, events in dependency order, recorded "
                  "dependency stamps = the dependencies' own, Run's error = the requested target's.",
    "level_note": "Trusted: Coq kernel; the hook dispatcher; sync.Mutex/sync.Cond/sync.Map semantics (getTarget's LoadOrStore is "
                  "modelled as label identity; a broken LoadOrStore shows up as two goroutines for one label in the log). "
                  "The model covers dawn's usage (one EvaluateTargets call per target, target.go) — not arbitrary Engine clients. "
                  "Schedules are sampled (seeded jitter) or forced (pile-up at a target's mutex), not enumerated; a check-then-act "
                  "window that opens only after the first lock acquisition of start() is reached by the spin-barrier rounds "
                  "with a probability per round, not deterministically.",
    "design_ref": "DESIGN.md §6 C04, Appendix B",
}

SIZES = {"quick": (300, 3, 1500), "thorough": (4000, 15, 12000)}
# forced-contention family: (random graphs, repetitions of the fixed graphs, direct rounds)
PILEUP = {"quick": (40, 1, 20000), "thorough": (600, 6, 300000)}
PILEUP_FILE = os.path.join(rcommon.HARNESS, "overlay/runner/zz_verif_c04_pileup_test.go")


def run_pileup(ctx):
    """Simultaneous requesters of one target: pile-up builds (hook logs replayed by the model) + direct start() rounds."""
    nrand, repeat, rounds = PILEUP["quick" if ctx.quick() else "thorough"]
    out = os.path.join(ctx.tmp, "c04_pileup.jsonl")
    seed = ctx.seed * 100 + 4
    env = {"VERIF_OUT": out, "VERIF_SEED": str(seed), "VERIF_PILEUP_RANDOM": str(nrand), "VERIF_PILEUP_REPEAT": str(repeat),
           "VERIF_DIRECT_ROUNDS": str(rounds), "VERIF_TIMEOUT_MS": "10000"}
    how = ("go test -tags verif -overlay (harness/overlay/runner/zz_verif_c04c05c09_test.go + zz_verif_c04_pileup_test.go) "
           "-run ^TestVerifC04Pileup$ ./runner; VERIF_SEED=%d VERIF_PILEUP_RANDOM=%d VERIF_PILEUP_REPEAT=%d VERIF_DIRECT_ROUNDS=%d"
           % (seed, nrand, repeat, rounds))
    rc, o = ctx.go_overlay_test("runner", {"zz_verif_c04c05c09_test.go": rcommon.HARNESS_FILE,
                                           "zz_verif_c04_pileup_test.go": PILEUP_FILE},
                                "^TestVerifC04Pileup$", env, timeout=1500)
    if rc != 0 or not os.path.exists(out):
        ctx.log(o[-3000:])
        ctx.violation("C04 pile-up harness failed to build or run against /repo",
                      {"theorem_or_correspondence": "C04 harness (runner, simultaneous requesters)", "output": o[-3000:]},
                      found_input=False)
        return
    runs, info, oracles, doracles, direct, aborted = [], {}, [], [], {}, None
    for line in open(out):
        line = line.rstrip("\n")
        if line.startswith("{"):
            runs.append(json.loads(line))
        elif line.startswith("PILEUP\t"):
            p = json.loads(line.split("\t", 1)[1])
            info[p["run"]] = p
        elif line.startswith("ORACLE\t"):
            f = line.split("\t")
            oracles.append({"oracle": f[1], "run": int(f[2]), "detail": f[3]})
        elif line.startswith("DORACLE\t"):
            f = line.split("\t")
            doracles.append({"oracle": f[1], "detail": f[2], "round": json.loads(f[3])})
        elif line.startswith("DIRECT\t"):
            direct = json.loads(line.split("\t", 1)[1])
        elif line.startswith("ABORTED\t"):
            aborted = int(line.split("\t")[1])
    byid = {r["run"]: r for r in runs}
    mine = [x for x in oracles if rcommon.ORACLE_OWNER.get(x["oracle"]) == "C04" or x["oracle"] == "terminates"]

    def schedule(rid):
        p = info.get(rid) or {}
        return {"family": "pile-up build: the harness keeps the mutexes of the records of `held` from before the build; at each "
                          "quiescence it releases one of them, so that all targets listed under `requesters` enter "
                          "start(label) together",
                "hold_policy": p.get("hold_policy"), "pick_policy": p.get("pick_policy"), "held": p.get("held"),
                "releases": p.get("releases"), "fallback": p.get("fallback")}

    for x in mine[:4]:
        r = byid.get(x["run"])
        ctx.violation("implementation violates C04 oracle %s under simultaneous requesters: %s" % (x["oracle"], x["detail"]),
                      {"oracle": x["oracle"], "detail": x["detail"], "config": rcommon.describe(r) if r else None,
                       "schedule": schedule(x["run"]), "how": how, "oracle_failures_in_this_family": len(mine),
                       "event_log": r["events"][:400] if r else None})
    for x in doracles[:3]:
        ctx.violation("implementation violates C04 oracle %s: %s" % (x["oracle"], x["detail"]),
                      {"oracle": x["oracle"], "detail": x["detail"],
                       "schedule": {"family": "direct simultaneous start: `simultaneous_callers` goroutines leave a spin barrier and "
                                              "call start() on the same idle record of a fresh runner (via = how they obtain the "
                                              "record), then `late_callers` more after the target finished",
                                    "round": x["round"]},
                       "how": how + " (schedule-dependent: the round number is where it showed in this run; %s of %s rounds failed)"
                              % (direct.get("failures"), direct.get("rounds"))})

    okc, rejected, nev = rcommon.accept_traces(ctx, runs)
    if not okc:
        ctx.log("coq evaluation failed (pile-up traces)", rejected[:1])
        ctx.violation("trace acceptance of the pile-up runs could not be evaluated",
                      {"theorem_or_correspondence": "Runner/Run.v evaluation", "log": rejected[:2]}, found_input=False)
        return
    done_runs = [r for r in runs if not (r["hung"] or r["stuck"])]
    if rejected:
        r, idx, why = rejected[0]
        ctx.violation("model rejects %d of %d traces of pile-up builds, first: run %d (%s, limit %d): %s" % (
            len(rejected), len(done_runs), r["run"], r["graph"], r["k"], why),
            {"theorem_or_correspondence": "trace acceptance Runner/Run.v <-> runner/runner.go", "why": why,
             "rejected_traces": len(rejected), "config": rcommon.describe(r), "schedule": schedule(r["run"]), "how": how,
             "event_log_prefix": r["events"][:max(0, idx) + 30]}, found_input=bool(mine or doracles))
    if aborted is not None and not mine:
        ctx.violation("pile-up harness aborted after a hang in run %d" % aborted,
                      {"config": rcommon.describe(byid[aborted]), "schedule": schedule(aborted), "how": how})

    # measured coverage: how many requesters entered start() of one idle target together
    sizes, fallbacks, nrel, styles = {}, 0, 0, {}
    for p in info.values():
        fallbacks += 1 if p.get("fallback") else 0
        for rel in p["releases"]:
            nrel += 1
            key = str(len(rel["requesters"]))
            sizes[key] = sizes.get(key, 0) + 1
            if len(rel["requesters"]) >= 2:
                styles[rel.get("style")] = styles.get(rel.get("style"), 0) + 1
    limits = {}
    for r in runs:
        if any(len(rel["requesters"]) >= 2 for rel in info.get(r["run"], {}).get("releases", [])):
            limits["k=%d" % r["k"]] = limits.get("k=%d" % r["k"], 0) + 1
    multi = sum(v for k, v in sizes.items() if int(k) >= 2)
    ctx.coverage["evaluations"] += len(runs) + int(direct.get("rounds", 0))
    ctx.coverage["distinct_nontrivial"] += multi
    ctx.coverage["rule"] += (
        " Simultaneous requesters (C04 only): %d pile-up builds (%d graphs with shared dependencies: fan-in of 2..16 on an ok / "
        "failing / unknown leaf, crossed request orders, shared sub-dependencies, root competing with its dependents, duplicates, "
        "fan-in on a cycle member, plus the shared corpus and %d random graphs) x limits {1,2,3,4,16} x hold policy "
        "{shared labels, all labels, seeded subset} x release policy {most requesters, seeded} x release style {plain unlock, FIFO "
        "hand-off: the mutex is first driven into its hand-off mode so that every parked requester gets its first critical "
        "section before any gets a second}: %d releases, %d of them with >= 2 "
        "requesters entering start() of the idle target together (counted into distinct); hook logs (%d events) replayed by the "
        "model. Plus %d rounds of 2..16 goroutines leaving a spin barrier into start() of one idle record (then 0..3 callers "
        "after it finished), target ok / failing / unknown, on %s CPUs."
        % (len(runs), len({r["graph"] for r in runs if not r["graph"].startswith("rand")}), nrand, nrel, multi, nev,
           direct.get("rounds", 0), direct.get("cpus")))
    ctx.coverage["correspondence"]["pileup"] = {
        "cases": len(done_runs), "events": nev, "mismatches": len(rejected), "releases": nrel,
        "requesters_released_together": dict(sorted(sizes.items(), key=lambda kv: int(kv[0]))),
        "runs_with_a_shared_pileup_by_limit": limits, "shared_pileups_by_release_style": styles,
        "fallback_releases": fallbacks,
        "oracle_failures": len(oracles) + len(doracles), "direct": direct}
    ctx.log("pile-up: runs=%d events=%d rejected=%d releases=%d (>=2 requesters: %d) fallbacks=%d oracle_failures=%d; "
            "direct rounds=%s failures=%s" % (len(runs), nev, len(rejected), nrel, multi, fallbacks, len(oracles),
                                              direct.get("rounds"), direct.get("failures")))

# project-level families (labels as written, generated sources): (random projects) per tier; run on all CPUs and pinned to one
PROJECT = {"quick": 40, "thorough": 600}
PROJECT_FILE = os.path.join(rcommon.HARNESS, "overlay/root/zz_verif_c04_project_test.go")
PROJECT_OWN = ("target_once", "body_saw_finished_deps", "source_hashed_after_generator", "events_after_deps",
               "handed_actual_outcome", "build_result_is_roots", "terminates")


def run_project(ctx, res):
    """Real projects (dawn.Load / Project.Run, bodies = a Go builtin of the harness): one target requested under every accepted
    spelling of its label / path; generated source files and their generators.  Once on all CPUs, once pinned to one CPU (the
    runner's limit is runtime.NumCPU(): limit 1)."""
    nrand = PROJECT["quick" if ctx.quick() else "thorough"]
    for name, extra, fixed, nr in (("all-cpus", None, "1", nrand), ("limit-1", ["-exec", "taskset -c 0"], "1", max(1, nrand // 4))):
        out = os.path.join(ctx.tmp, "c04_project_%s.jsonl" % name)
        seed = ctx.seed * 100 + 44 + (1 if extra else 0)
        try:
            rc, o = ctx.go_overlay_test("", {"zz_verif_c04_project_test.go": PROJECT_FILE}, "^TestVerifC04Project$",
                                        {"VERIF_OUT": out, "VERIF_SEED": str(seed), "VERIF_C04P_RANDOM": str(nr),
                                         "VERIF_C04P_FIXED": fixed}, timeout=900, extra=extra)
        except Exception as e:  # noqa
            rc, o = -1, repr(e)
        projects, builds, oracles, ended = {}, {}, [], False
        if os.path.exists(out):
            for line in open(out):
                line = line.rstrip("\n")
                try:
                    if line.startswith("{"):
                        b = json.loads(line)
                        builds[b["build"]] = b
                    elif line.startswith("PROJECT\t"):
                        pj = json.loads(line.split("\t", 1)[1])
                        projects[pj["index"]] = pj
                    elif line.startswith("ORACLE\t"):
                        f = line.split("\t")
                        oracles.append((f[1], int(f[2]), f[3]))
                    elif line.startswith("END\t"):
                        ended = True
                except ValueError:
                    pass
        res[name] = {"rc": rc, "out": o, "projects": projects, "builds": builds, "oracles": oracles, "ended": ended, "seed": seed,
                     "nrand": nr}


def report_project(ctx, res):
    tot_builds, tot_projects, fams, kinds, shared, gens = 0, 0, {}, {}, 0, 0
    for name, r in sorted(res.items()):
        how = ("go test -tags verif -overlay (harness/overlay/root/zz_verif_c04_project_test.go) -run ^TestVerifC04Project$ . "
               "with VERIF_SEED=%d VERIF_C04P_RANDOM=%d%s; or by hand: write the files under `project`, apply `steps` in order, "
               "every build = dawn.Load + Project.Run(requested) from a fresh process/Load with a body that records what it sees"
               % (r["seed"], r["nrand"], " under taskset -c 0 (runner limit 1)" if name == "limit-1" else ""))
        if not r["ended"] and not r["oracles"]:
            ctx.violation("the project-level C04 harness failed to build or run against /repo (%s, exit %s)" % (name, r["rc"]),
                          {"theorem_or_correspondence": "C04 project-level harness", "output": r["out"][-3000:]}, found_input=False)
            continue
        tot_builds += len(r["builds"])
        tot_projects += len(r["projects"])
        for pj in r["projects"].values():
            sp = pj["spec"]
            fams[sp["family"]] = fams.get(sp["family"], 0) + 1
            gens += sum(1 for f in sp.get("files") or [] if f["generator"] >= 0)
            refs = {}
            for t in sp["targets"]:
                for d in t.get("deps") or []:
                    kinds["label:" + d["kind"]] = kinds.get("label:" + d["kind"], 0) + 1
                    refs.setdefault((d["t"], d["def"]), set()).add(d["spell"])
                for s in (t.get("srcs") or []) + (t.get("gens") or []):
                    kinds["path:" + s["kind"]] = kinds.get("path:" + s["kind"], 0) + 1
                    refs.setdefault(("file", s["f"]), set()).add((t["pkg"], s["spell"]))
            shared += sum(1 for v in refs.values() if len(v) >= 2)
        own = [x for x in r["oracles"] if x[0] in PROJECT_OWN]
        other = [x for x in r["oracles"] if x[0] not in PROJECT_OWN]
        seen, nrep = set(), 0
        for oname, bid, detail in own:
            b = r["builds"].get(bid, {})
            pj = r["projects"].get(b.get("project"), {})
            fam = (pj.get("spec") or {}).get("family")
            if (oname, fam) in seen or nrep >= 4:
                continue
            seen.add((oname, fam))
            nrep += 1
            sp = pj.get("spec") or {}
            files = dict(("BUILD.dawn" if k == "//" else k[2:] + "/BUILD.dawn", v) for k, v in (pj.get("build_files") or {}).items())
            files["dawn.toml"] = ""
            for f in sp.get("files") or []:
                if f.get("has_initial"):
                    files[f["path"]] = f.get("initial", "")
            ctx.violation("implementation violates C04 oracle %s (project level, %s): %s" % (oname, name, detail),
                          {"oracle": oname, "detail": detail, "family": fam, "project_name": sp.get("name"), "project": files,
                           "steps": (sp.get("steps") or [])[:b.get("step", 0) + 1], "failing_step": b.get("step"),
                           "requested": b.get("requested"), "Run_error": b.get("run_error"),
                           "bodies": "every body is probe(label): checks what it can see, sleeps delay_us, fails if `fail`, then writes "
                                     "'<label> execution <n>' into each generated file",
                           "targets": sp.get("targets"), "labels_given_to_the_runner": b.get("runner_labels"),
                           "event_order": b.get("events"), "failures_of_this_oracle": len([x for x in own if x[0] == oname]),
                           "how": how})
        if other and not own:
            oname, bid, detail = other[0]
            b = r["builds"].get(bid, {})
            ctx.violation("the project-level C04 harness's own sanity check failed (%s, %s): %s" % (oname, name, detail),
                          {"theorem_or_correspondence": "C04 project-level harness (generated project rejected)", "detail": detail,
                           "project": (r["projects"].get(b.get("project")) or {}).get("build_files"), "how": how}, found_input=False)
        r["own"] = len(own)
    ctx.coverage["evaluations"] += tot_builds
    ctx.coverage["distinct_nontrivial"] += shared
    ctx.coverage["rule"] += (
        " Project level, labels and generated sources (C04 only): %d projects / %d builds through dawn.Load + Project.Run with a Go "
        "builtin as every body (all CPUs, and pinned to one CPU = limit 1). (a) one target in //, //lib, //lib/sub requested by "
        "dependents under every pair of accepted spellings of its label (canonical, package-relative, trailing / inner / leading "
        "empty path elements, relative with empty elements, the target object; also all spellings at once on an ok / failing / "
        "default / slow / generating target), one source or generated file under every spelling of its path (plain, ./, x/../, "
        "/abs, ../, //): goroutines, LoadTarget calls, events and body runs counted per target OBJECT and per file; (b) generator "
        "-> generated source -> consumer shapes x file initially absent / stale x slow / fast generator x histories (build, build, "
        "edit or delete, build, build): the source's stamp must be the hash of the file as its generator left it, a body must see "
        "every dependency finished and every source as its generator left it, events in dependency order, recorded dependency "
        "stamps = the dependencies' own, Run's error = the requested target's; (c) seeded random projects mixing both. %d "
        "targets/files requested under >= 2 spellings (counted into distinct), %d generated files."
        % (tot_projects, tot_builds, shared, gens))
    ctx.coverage["correspondence"]["project_labels_and_generated_sources"] = {
        "projects": tot_projects, "builds": tot_builds, "by_family": fams, "spelling_classes_used": dict(sorted(kinds.items())),
        "entities_requested_under_2_or_more_spellings": shared, "generated_files": gens,
        "oracle_failures": sum(r.get("own", 0) for r in res.values())}
    ctx.log("project-level labels/generated sources: projects=%d builds=%d shared-under-2-spellings=%d generated-files=%d "
            "oracle_failures=%d" % (tot_projects, tot_builds, shared, gens, sum(r.get("own", 0) for r in res.values())))


def run(ctx):
    import threading
    pres = {}
    th = threading.Thread(target=run_project, args=(ctx, pres))
    th.start()
    rcommon.run_check(ctx, "C04", "Runner/Props_C04.v", SIZES,
                      "C04 oracles: LoadTarget/Evaluate/body call counts <= 1 per label; a dependent continues only after its "
                      "dependencies finished; the result handed over is the dependency's own error value; Run's result is the root's.")
    # at-most-once under forced contention: all requesters of a label enter start()'s test-and-set together
    run_pileup(ctx)
    # at-most-once at project level: the runner keys targets by label string, LoadTarget resolves labels -- whole builds of real
    # projects (incl. one target requested under two spellings), body executions counted from the execution log
    from checks.engine_common import run_engine_oracles
    run_engine_oracles(ctx, "C04", ["C04 "], histories=16 if ctx.quick() else 120, steps=10 if ctx.quick() else 16)
    # at-most-once / after-its-dependencies where labels are written and where a target's own work is hashing a generated file
    th.join()
    report_project(ctx, pres)
