"""C04 — Each target runs at most once, after its dependencies."""
import json
import os
import sys
sys.path.insert(0, os.path.join(os.path.dirname(os.path.dirname(os.path.abspath(__file__))), "harness", "runner"))
import rcommon

META = {
    "property_id": "C04",
    "technique": "Coq invariant proofs over an interleaving model of runner/runner.go + trace acceptance of hook logs of the "
                 "real runner by the model (free-running jittered schedules and forced pile-up schedules) + black-box call counting",
    "level_text": "Theorems (Coq, all dependency graphs incl. duplicates/failing/unknown targets, all schedules, all limits): a "
                  "goroutine is created only by the atomic Idle->Running transition and at most once per label; LoadTarget, "
                  "Evaluate and the body run at most once per label; a final status never changes; every non-cyclic result handed "
                  "to a dependent equals the dependency's final status; a target continues past EvaluateTargets (without a cycle "
                  "error) only when all its dependencies are final; Run's result is the root's final status. The model is tied "
                  "to runner.go by replaying the hook logs of real runs through it (start.run only from Idle, wait.end only when "
                  "the dependency is final and with its actual outcome, finishing statuses equal). Direct oracles: "
                  "LoadTarget/Evaluate/body counts <= 1, dependency finished before the dependent continues, result error "
                  "identical to the dependency's own error value, Run's error identical to the root's. The atomicity of start()'s "
                  "test-and-set (one model step) is exercised under forced contention: pile-up builds in which all requesters of a "
                  "label are parked at the first statement of start() and released together (all limits, incl. 1), and rounds of "
                  "k goroutines leaving a spin barrier into start() of one idle record.",
    "level_note": "Trusted: Coq kernel; the hook dispatcher; sync.Mutex/sync.Cond/sync.Map semantics (getTarget's LoadOrStore is "
                  "modelled as label identity; a broken LoadOrStore shows up as two goroutines for one label in the log). "
                  "The model covers dawn's usage (one EvaluateTargets call per target, target.go) — not arbitrary Engine clients. "
                  "Schedules are sampled (seeded jitter) or forced (pile-up at a target's mutex), not enumerated; a check-then-act "
                  "window that opens only after the first lock acquisition of start() is reached by the spin-barrier rounds "
                  "with a probability per round, not deterministically.",
    "design_ref": "DESIGN.md §6 C04, Appendix B",
}

SIZES = {"quick": (300, 3, 1500), "thorough": (4000, 15, 12000)}
# forced-contention family: (random graphs, repetitions of the fixed graphs, direct rounds)
PILEUP = {"quick": (40, 1, 20000), "thorough": (600, 6, 300000)}
PILEUP_FILE = os.path.join(rcommon.HARNESS, "overlay/runner/zz_verif_c04_pileup_test.go")


def run_pileup(ctx):
    """Simultaneous requesters of one target: pile-up builds (hook logs replayed by the model) + direct start() rounds."""
    nrand, repeat, rounds = PILEUP["quick" if ctx.quick() else "thorough"]
    out = os.path.join(ctx.tmp, "c04_pileup.jsonl")
    seed = ctx.seed * 100 + 4
    env = {"VERIF_OUT": out, "VERIF_SEED": str(seed), "VERIF_PILEUP_RANDOM": str(nrand), "VERIF_PILEUP_REPEAT": str(repeat),
           "VERIF_DIRECT_ROUNDS": str(rounds), "VERIF_TIMEOUT_MS": "10000"}
    how = ("go test -tags verif -overlay (harness/overlay/runner/zz_verif_c04c05c09_test.go + zz_verif_c04_pileup_test.go) "
           "-run ^TestVerifC04Pileup$ ./runner; VERIF_SEED=%d VERIF_PILEUP_RANDOM=%d VERIF_PILEUP_REPEAT=%d VERIF_DIRECT_ROUNDS=%d"
           % (seed, nrand, repeat, rounds))
    rc, o = ctx.go_overlay_test("runner", {"zz_verif_c04c05c09_test.go": rcommon.HARNESS_FILE,
                                           "zz_verif_c04_pileup_test.go": PILEUP_FILE},
                                "^TestVerifC04Pileup$", env, timeout=1500)
    if rc != 0 or not os.path.exists(out):
        ctx.log(o[-3000:])
        ctx.violation("C04 pile-up harness failed to build or run against /repo",
                      {"theorem_or_correspondence": "C04 harness (runner, simultaneous requesters)", "output": o[-3000:]},
                      found_input=False)
        return
    runs, info, oracles, doracles, direct, aborted = [], {}, [], [], {}, None
    for line in open(out):
        line = line.rstrip("\n")
        if line.startswith("{"):
            runs.append(json.loads(line))
        elif line.startswith("PILEUP\t"):
            p = json.loads(line.split("\t", 1)[1])
            info[p["run"]] = p
        elif line.startswith("ORACLE\t"):
            f = line.split("\t")
            oracles.append({"oracle": f[1], "run": int(f[2]), "detail": f[3]})
        elif line.startswith("DORACLE\t"):
            f = line.split("\t")
            doracles.append({"oracle": f[1], "detail": f[2], "round": json.loads(f[3])})
        elif line.startswith("DIRECT\t"):
            direct = json.loads(line.split("\t", 1)[1])
        elif line.startswith("ABORTED\t"):
            aborted = int(line.split("\t")[1])
    byid = {r["run"]: r for r in runs}
    mine = [x for x in oracles if rcommon.ORACLE_OWNER.get(x["oracle"]) == "C04" or x["oracle"] == "terminates"]

    def schedule(rid):
        p = info.get(rid) or {}
        return {"family": "pile-up build: the harness keeps the mutexes of the records of `held` from before the build; at each "
                          "quiescence it releases one of them, so that all targets listed under `requesters` enter "
                          "start(label) together",
                "hold_policy": p.get("hold_policy"), "pick_policy": p.get("pick_policy"), "held": p.get("held"),
                "releases": p.get("releases"), "fallback": p.get("fallback")}

    for x in mine[:4]:
        r = byid.get(x["run"])
        ctx.violation("implementation violates C04 oracle %s under simultaneous requesters: %s" % (x["oracle"], x["detail"]),
                      {"oracle": x["oracle"], "detail": x["detail"], "config": rcommon.describe(r) if r else None,
                       "schedule": schedule(x["run"]), "how": how, "oracle_failures_in_this_family": len(mine),
                       "event_log": r["events"][:400] if r else None})
    for x in doracles[:3]:
        ctx.violation("implementation violates C04 oracle %s: %s" % (x["oracle"], x["detail"]),
                      {"oracle": x["oracle"], "detail": x["detail"],
                       "schedule": {"family": "direct simultaneous start: `simultaneous_callers` goroutines leave a spin barrier and "
                                              "call start() on the same idle record of a fresh runner (via = how they obtain the "
                                              "record), then `late_callers` more after the target finished",
                                    "round": x["round"]},
                       "how": how + " (schedule-dependent: the round number is where it showed in this run; %s of %s rounds failed)"
                              % (direct.get("failures"), direct.get("rounds"))})

    okc, rejected, nev = rcommon.accept_traces(ctx, runs)
    if not okc:
        ctx.log("coq evaluation failed (pile-up traces)", rejected[:1])
        ctx.violation("trace acceptance of the pile-up runs could not be evaluated",
                      {"theorem_or_correspondence": "Runner/Run.v evaluation", "log": rejected[:2]}, found_input=False)
        return
    done_runs = [r for r in runs if not (r["hung"] or r["stuck"])]
    if rejected:
        r, idx, why = rejected[0]
        ctx.violation("model rejects %d of %d traces of pile-up builds, first: run %d (%s, limit %d): %s" % (
            len(rejected), len(done_runs), r["run"], r["graph"], r["k"], why),
            {"theorem_or_correspondence": "trace acceptance Runner/Run.v <-> runner/runner.go", "why": why,
             "rejected_traces": len(rejected), "config": rcommon.describe(r), "schedule": schedule(r["run"]), "how": how,
             "event_log_prefix": r["events"][:max(0, idx) + 30]}, found_input=bool(mine or doracles))
    if aborted is not None and not mine:
        ctx.violation("pile-up harness aborted after a hang in run %d" % aborted,
                      {"config": rcommon.describe(byid[aborted]), "schedule": schedule(aborted), "how": how})

    # measured coverage: how many requesters entered start() of one idle target together
    sizes, fallbacks, nrel, styles = {}, 0, 0, {}
    for p in info.values():
        fallbacks += 1 if p.get("fallback") else 0
        for rel in p["releases"]:
            nrel += 1
            key = str(len(rel["requesters"]))
            sizes[key] = sizes.get(key, 0) + 1
            if len(rel["requesters"]) >= 2:
                styles[rel.get("style")] = styles.get(rel.get("style"), 0) + 1
    limits = {}
    for r in runs:
        if any(len(rel["requesters"]) >= 2 for rel in info.get(r["run"], {}).get("releases", [])):
            limits["k=%d" % r["k"]] = limits.get("k=%d" % r["k"], 0) + 1
    multi = sum(v for k, v in sizes.items() if int(k) >= 2)
    ctx.coverage["evaluations"] += len(runs) + int(direct.get("rounds", 0))
    ctx.coverage["distinct_nontrivial"] += multi
    ctx.coverage["rule"] += (
        " Simultaneous requesters (C04 only): %d pile-up builds (%d graphs with shared dependencies: fan-in of 2..16 on an ok / "
        "failing / unknown leaf, crossed request orders, shared sub-dependencies, root competing with its dependents, duplicates, "
        "fan-in on a cycle member, plus the shared corpus and %d random graphs) x limits {1,2,3,4,16} x hold policy "
        "{shared labels, all labels, seeded subset} x release policy {most requesters, seeded} x release style {plain unlock, FIFO "
        "hand-off: the mutex is first driven into its hand-off mode so that every parked requester gets its first critical "
        "section before any gets a second}: %d releases, %d of them with >= 2 "
        "requesters entering start() of the idle target together (counted into distinct); hook logs (%d events) replayed by the "
        "model. Plus %d rounds of 2..16 goroutines leaving a spin barrier into start() of one idle record (then 0..3 callers "
        "after it finished), target ok / failing / unknown, on %s CPUs."
        % (len(runs), len({r["graph"] for r in runs if not r["graph"].startswith("rand")}), nrand, nrel, multi, nev,
           direct.get("rounds", 0), direct.get("cpus")))
    ctx.coverage["correspondence"]["pileup"] = {
        "cases": len(done_runs), "events": nev, "mismatches": len(rejected), "releases": nrel,
        "requesters_released_together": dict(sorted(sizes.items(), key=lambda kv: int(kv[0]))),
        "runs_with_a_shared_pileup_by_limit": limits, "shared_pileups_by_release_style": styles,
        "fallback_releases": fallbacks,
        "oracle_failures": len(oracles) + len(doracles), "direct": direct}
    ctx.log("pile-up: runs=%d events=%d rejected=%d releases=%d (>=2 requesters: %d) fallbacks=%d oracle_failures=%d; "
            "direct rounds=%s failures=%s" % (len(runs), nev, len(rejected), nrel, multi, fallbacks, len(oracles),
                                              direct.get("rounds"), direct.get("failures")))


def run(ctx):
    rcommon.run_check(ctx, "C04", "Runner/Props_C04.v", SIZES,
                      "C04 oracles: LoadTarget/Evaluate/body call counts <= 1 per label; a dependent continues only after its "
                      "dependencies finished; the result handed over is the dependency's own error value; Run's result is the root's.")
    # at-most-once under forced contention: all requesters of a label enter start()'s test-and-set together
    run_pileup(ctx)
    # at-most-once at project level: the runner keys targets by label string, LoadTarget resolves labels -- whole builds of real
    # projects (incl. one target requested under two spellings), body executions counted from the execution log
    from checks.engine_common import run_engine_oracles
    run_engine_oracles(ctx, "C04", ["C04 "], histories=16 if ctx.quick() else 120, steps=10 if ctx.quick() else 16)
