"""C04 — Each target runs at most once, after its dependencies."""
import os
import sys
sys.path.insert(0, os.path.join(os.path.dirname(os.path.dirname(os.path.abspath(__file__))), "harness", "runner"))
import rcommon

META = {
    "property_id": "C04",
    "technique": "Coq invariant proofs over an interleaving model of runner/runner.go + trace acceptance of hook logs of the "
                 "real runner by the model + black-box call counting",
    "level_text": "Theorems (Coq, all dependency graphs incl. duplicates/failing/unknown targets, all schedules, all limits): a "
                  "goroutine is created only by the atomic Idle->Running transition and at most once per label; LoadTarget, "
                  "Evaluate and the body run at most once per label; a final status never changes; every non-cyclic result handed "
                  "to a dependent equals the dependency's final status; a target continues past EvaluateTargets (without a cycle "
                  "error) only when all its dependencies are final; Run's result is the root's final status. The model is tied "
                  "to runner.go by replaying the hook logs of real runs through it (start.run only from Idle, wait.end only when "
                  "the dependency is final and with its actual outcome, finishing statuses equal). Direct oracles: "
                  "LoadTarget/Evaluate/body counts <= 1, dependency finished before the dependent continues, result error "
                  "identical to the dependency's own error value, Run's error identical to the root's.",
    "level_note": "Trusted: Coq kernel; the hook dispatcher; sync.Mutex/sync.Cond/sync.Map semantics (getTarget's LoadOrStore is "
                  "modelled as label identity; a broken LoadOrStore shows up as two goroutines for one label in the log). "
                  "The model covers dawn's usage (one EvaluateTargets call per target, target.go) — not arbitrary Engine clients. "
                  "Schedules are sampled (seeded jitter), not enumerated.",
    "design_ref": "DESIGN.md §6 C04, Appendix B",
}

SIZES = {"quick": (300, 3, 1500), "thorough": (4000, 15, 12000)}


def run(ctx):
    rcommon.run_check(ctx, "C04", "Runner/Props_C04.v", SIZES,
                      "C04 oracles: LoadTarget/Evaluate/body call counts <= 1 per label; a dependent continues only after its "
                      "dependencies finished; the result handed over is the dependency's own error value; Run's result is the root's.")
    # at-most-once at project level: the runner keys targets by label string, LoadTarget resolves labels -- whole builds of real
    # projects (incl. one target requested under two spellings), body executions counted from the execution log
    from checks.engine_common import run_engine_oracles
    run_engine_oracles(ctx, "C04", ["C04 "], histories=16 if ctx.quick() else 120, steps=10 if ctx.quick() else 16)
